#!/bin/bash
# eval_seeds_wt.sh <tier> seed-id...: like eval_seeds.sh but applies each patch in the scratch worktree
# /tmp/wt_eval and runs the check against it through PYTHONPATH (used while /repo is busy).
tier=$1; shift
wt=${WT:-/tmp/wt_eval}
[ -d "$wt" ] || git -C /repo worktree add -q --detach "$wt" HEAD   # scratch worktree; remove it afterwards: git -C /repo worktree remove --force $wt
for sid in "$@"; do
  prop=${sid%%-*}
  cd $wt && git checkout -q -- . && git apply /verif/seeded/$sid/patch.diff || { echo "SEED $sid DOES NOT APPLY"; continue; }
  cd /verif
  out=$(WNMC_EVIDENCE_DIR=/dev/shm/wnmc_eval_evidence PYTHONPATH=$wt ./check $prop --tier $tier 2>&1); r=$?
  n=$(echo "$out" | grep -c "^VIOLATION")
  echo "SEED $sid check=$prop tier=$tier rc=$r violations=$n"
  echo "$out" | grep -A1 "^VIOLATION" | grep "key=" | cut -c1-200 | head -3
  echo "$out" | grep -E "HARNESS|NONDET|Traceback" | head -2
  cd $wt && git checkout -q -- .
done
