#!/usr/bin/env python3
"""checks_for_patch.py <patch.diff> [<own property>]: the checks whose properties are anchored in the files a
patch touches (plus the property it was written for), as a comma-separated list."""
import re
import sys

MAP = {
    'wn/_add.py': 'C01 C03 C04 C05 C06 C07 C19 C20',
    'wn/_queries.py': 'C01 C03 C04 C05 C08 C09 C10 C11 C12 C15 C19',
    'wn/_core.py': 'C01 C04 C08 C09 C10 C11 C12 C13 C14 C15 C16 C17',
    'wn/taxonomy.py': 'C13 C14 C16',
    'wn/similarity.py': 'C14 C16',
    'wn/ic.py': 'C14 C15 C16',
    'wn/lmf.py': 'C01 C02 C03 C07 C20 C16',
    'wn/_export.py': 'C03 C16',
    'wn/validate.py': 'C18 C16',
    'wn/morphy.py': 'C17 C09 C16',
    'wn/project.py': 'C07 C20',
    'wn/_ili.py': 'C19 C07',
    'wn/_db.py': 'C05 C06 C01',
    'wn/_util.py': 'C09 C10 C11 C16 C03',
    'wn/constants.py': 'C18 C11',
    'wn/__main__.py': 'C18',
}
files = re.findall(r'^diff --git a/(\S+)', open(sys.argv[1]).read(), flags=re.M)
out = set(sys.argv[2:3])
for f in files:
    out |= set(MAP.get(f, 'C01 C16').split())
print(','.join(sorted(out)))
