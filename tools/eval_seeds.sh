#!/bin/bash
# eval_seeds.sh <tier> [seed-id ...]: apply each seeded patch to /repo, run its property's check, undo.
tier=$1; shift
cd /verif
seeds=${@:-$(ls seeded | grep -v "^_")}
for sid in $seeds; do
  prop=${sid%%-*}
  ./tools/try_seed.sh /verif/seeded/$sid/patch.diff $tier $prop 2>&1 | sed "s|^SEED patch.diff|SEED $sid|"
done
