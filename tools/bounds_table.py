#!/venv/bin/python -B
"""Regenerate the 'bounds actually completed' table in DESIGN.md (between BOUNDS markers) from
evidence/*.json (quick tier, as committed) and, if present, tools/thorough_results.json."""
import glob
import json
import re
from pathlib import Path

V = Path('/verif')
rows = []
thor = {}
tp = V / 'tools' / 'thorough_results.json'
if tp.exists():
    thor = json.loads(tp.read_text())
for f in sorted(glob.glob(str(V / 'evidence/*.json'))):
    e = json.load(open(f))
    c = e['coverage']
    size = (f"{c.get('states')} states / {c.get('transitions')} transitions" if 'states' in c and e['level'] == 'model_checking'
            else f"{c.get('evaluations')} evaluations, {c.get('distinct_nontrivial')} distinct")
    t = thor.get(e['property_id'], '')
    rows.append(f"| {e['property_id']} | {e['level']} | {size} | {c.get('exhaustive')} | {e['wall_s']} s | {t} |")
table = ('| property | level | quick tier covered | declared space completed | wall | thorough tier (last full run) |\n'
         '|---|---|---|---|---|---|\n' + '\n'.join(rows) + '\n')
p = V / 'DESIGN.md'
s = p.read_text()
a, b = '<!-- BOUNDS:BEGIN -->', '<!-- BOUNDS:END -->'
if a not in s:
    s = s.replace("Each evidence file states evaluations / states / transitions, the deviation bound and\nwhether the declared space was completed (`exhaustive: true`) or a cap was hit.\n",
                  "Each evidence file states evaluations / states / transitions, the deviation bound and\nwhether the declared space was completed (`exhaustive: true`) or a cap was hit.\n\n" + a + "\n" + b + "\n")
s = re.sub(re.escape(a) + '.*?' + re.escape(b), a + '\n' + table + b, s, flags=re.S)
p.write_text(s)
print(len(rows), 'rows')
