#!/bin/bash
# run every check of one tier sequentially; print one summary line per check
tier=${1:-quick}
cd "$(dirname "$0")/.."
rc=0
for p in C01 C02 C03 C04 C05 C06 C07 C08 C09 C10 C11 C12 C13 C14 C15 C16 C17 C18 C19 C20; do
  s=$(date +%s)
  out=$(./check $p --tier $tier 2>&1); r=$?
  echo "$out" | grep -E "^VIOLATION|^KNOWN-FINDING|^$p tier|HARNESS|NONDET|Traceback" | cut -c1-260
  echo "== $p rc=$r $(( $(date +%s) - s ))s"
  [ $r -ne 0 ] && rc=1
done
exit $rc
