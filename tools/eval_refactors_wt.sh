#!/bin/bash
# eval_refactors_wt.sh <tier> <refactor-id>[:CHECK,CHECK...] ...: applies a behaviour-preserving refactoring
# (refactors/<id>/patch.diff) in the scratch worktree /tmp/wt_eval, runs the repository tests and the named
# checks (default: the property the refactoring was written for) against it; every check must stay silent.
tier=$1; shift
wt=/tmp/wt_eval
[ -d "$wt" ] || git -C /repo worktree add -q --detach "$wt" HEAD   # scratch worktree; remove it afterwards: git -C /repo worktree remove --force $wt
for arg in "$@"; do
  rid=${arg%%:*}; checks=${arg#*:}; [ "$checks" = "$arg" ] && checks=${rid%%-*}
  cd $wt && git checkout -q -- . && git apply /verif/${REFDIR:-refactors}/$rid/patch.diff || { echo "REFACTOR $rid DOES NOT APPLY"; continue; }
  t=$(cd $wt && PYTHONPATH=$wt /venv/bin/python -m pytest -q -x -p no:cacheprovider 2>&1 | tail -1)
  for c in ${checks//,/ }; do
    cd /verif
    out=$(WNMC_EVIDENCE_DIR=/dev/shm/wnmc_eval_evidence PYTHONPATH=$wt ./check $c --tier $tier 2>&1); r=$?
    n=$(echo "$out" | grep -c "^VIOLATION")
    echo "REFACTOR $rid tests=[$t] check=$c tier=$tier rc=$r violations=$n"
    echo "$out" | grep -A1 "^VIOLATION" | grep "key=" | cut -c1-240 | head -4
    echo "$out" | grep -E "HARNESS|NONDET|Traceback|Error" | head -3
  done
  cd $wt && git checkout -q -- .
done
