#!/venv/bin/python -B
"""Regenerate MANIFEST.json from the table below (kept next to the code so the
manifest never drifts from what is built)."""
import json
import sys
from pathlib import Path

VERIF = Path(__file__).resolve().parent.parent
ALL = [f'C{i:02d}' for i in range(1, 21)]

TRUST = 'Trusted: CPython 3.12, SQLite 3.40, expat; the plain-Python reference model / oracle in /verif/wnmc; the stated alphabets and bounds.'

CHECKS = {
    'C01': dict(
        category='exploration', design_ref='DESIGN.md §3 C01, §2.2-2.4',
        technique='deviation-bounded exhaustive enumeration of WN-LMF documents (features, shapes x BATCH_SIZE, payloads, extensions) on the real add/query path vs a reference model',
        text='Abstract documents for LMF 1.0-1.3 are derived from a maximal and a minimal document by every single optional-feature deviation (thorough: every pair), every repeatable slot at 0..4 items crossed with BATCH_SIZE 1/2/3/1000, every string slot x every payload of a nasty-character alphabet, multi-lexicon files and every documented extension pattern; each is written by an independent serializer, added with wn.add and the complete public-API transcript (restricted and default mode) is compared with the transcript the reference model derives from the document. Exhaustive within the stated deviation bound.',
        note=TRUST + ' Own XML writer; ids limited to XML-name-like strings; <=4 items per list; <=2 simultaneous deviations; tie-ranked orders (extension senses/forms/members) compared as sets.'),
    'C13': dict(
        category='exploration', design_ref='DESIGN.md §3 C13, §2.6',
        technique='bounded-exhaustive enumeration of all labelled hypernym digraphs (n<=4, DAGs n=5) on the real code vs a reference graph model',
        text='Every labelled digraph up to the node bound (self-loops, cycles, edge typings, pos colourings, hyponym-declaration modes) is loaded into the real SQLite store and every taxonomy function is compared with a plain-Python reference on every node / ordered pair / simulate_root value; termination is decided by a step budget counted in relation queries. Exhaustive within the bound, nothing sampled.',
        note=TRUST + ' lowest_common_hypernyms and simulate_root distances are compared exactly on DAGs only (depth is not a function of the node on cyclic graphs); graphs with >=6 nodes and the "random larger" half of the quantifier are outside the bound.'),
}

NOT_YET = 'check not built yet in this session (planned: DESIGN.md §3); not claimed until it runs clean'


def main():
    man = {
        'version': 1,
        'setup_cmd': './check --selftest',
        'hooks': {
            'guard': 'WN_VERIF',
            'enable': 'no source hooks: all seams are reached from outside (wn._db.sqlite3 proxy, wn._db.pool, wn.config.data_directory, wn._add.BATCH_SIZE, progress_handler, import-hook AST transform); checks import /repo working tree via the editable install with /venv/bin/python -B',
            'baseline_off_cmd': 'cd /repo && /venv/bin/python -m pytest -ra -q -p no:cacheprovider --timeout=900 --continue-on-collection-errors',
            'source_commits': [],
            'add_only': True,
        },
        'engines': [
            {'name': 'E2-enum', 'path': 'wnmc/runner.py', 'serves_properties': sorted(CHECKS),
             'kind_free_text': 'bounded-exhaustive input enumeration over the real implementation, parallel map + reference-model oracle'},
        ],
        'checks': [],
        'notes': 'All checks run the real wn code from /repo (editable install) under PYTHONHASHSEED=0; scratch databases live under /dev/shm and are removed on exit. known_findings.txt lists recorded genuine defects.',
        'not_applicable': [],
    }
    for pid in ALL:
        c = CHECKS.get(pid)
        if not c:
            man['not_applicable'].append({'property_id': pid, 'reason': NOT_YET})
            continue
        man['checks'].append({
            'property_id': pid,
            'quick_cmd': f'./check {pid} --tier quick',
            'thorough_cmd': f'./check {pid} --tier thorough',
            'evidence_file': f'/verif/evidence/{pid}.json',
            'replay_cmd_template': f'./check {pid} --replay {{path}}',
            'engine': c.get('engine', 'E2-enum'),
            'level_claimed': {'category': c['category'], 'text': c['text'],
                              'design_ref': c['design_ref']},
            'level_note': c['note'],
            'technique': c['technique'],
        })
    (VERIF / 'MANIFEST.json').write_text(json.dumps(man, indent=1) + '\n')
    print('claimed', len(man['checks']), 'not_applicable', len(man['not_applicable']))


if __name__ == '__main__':
    main()
