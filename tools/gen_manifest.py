#!/venv/bin/python -B
"""Regenerate MANIFEST.json from the table below (kept next to the code so the
manifest never drifts from what is built)."""
import json
import sys
from pathlib import Path

VERIF = Path(__file__).resolve().parent.parent
ALL = [f'C{i:02d}' for i in range(1, 21)]

TRUST = 'Trusted: CPython 3.12, SQLite 3.40, expat; the plain-Python reference model / oracle in /verif/wnmc; the stated alphabets and bounds.'

sys.path.insert(0, str(VERIF))
sys.dont_write_bytecode = True
import importlib  # noqa: E402

CHECKS = {}
for pid in ALL:
    if (VERIF / 'wnmc' / 'props' / f'{pid.lower()}.py').exists():
        mod = importlib.import_module(f'wnmc.props.{pid.lower()}')
        if getattr(mod, 'MANIFEST', None):
            d = dict(mod.MANIFEST)
            d['note'] = (TRUST + ' ' + d.get('note', '')).strip()
            CHECKS[pid] = d

NOT_YET = 'check not built yet in this session (planned: DESIGN.md §3); not claimed until it runs clean'


def main():
    man = {
        'version': 1,
        'setup_cmd': './check --selftest',
        'hooks': {
            'guard': 'WN_VERIF',
            'enable': 'no source hooks: all seams are reached from outside (wn._db.sqlite3 proxy, wn._db.pool, wn.config.data_directory, wn._add.BATCH_SIZE, progress_handler, import-hook AST transform); checks import /repo working tree via the editable install with /venv/bin/python -B',
            'baseline_off_cmd': 'cd /repo && /venv/bin/python -m pytest -ra -q -p no:cacheprovider --timeout=900 --continue-on-collection-errors',
            'source_commits': [],
            'add_only': True,
        },
        'engines': [
            {'name': 'E2-enum', 'path': 'wnmc/runner.py',
             'serves_properties': sorted(p for p, c in CHECKS.items() if c.get('engine', 'E2-enum') == 'E2-enum'),
             'kind_free_text': 'bounded-exhaustive input enumeration over the real implementation, parallel map + reference-model oracle'},
            {'name': 'E1-history', 'path': 'wnmc/e1.py',
             'serves_properties': sorted(p for p, c in CHECKS.items() if c.get('engine') == 'E1-history'),
             'kind_free_text': 'explicit-state BFS over operation histories on the real SQLite file (snapshot/restore), exact / quotient / coarse state keys, reference model in lock-step'},
            {'name': 'E3-faults', 'path': 'wnmc/e3.py',
             'serves_properties': sorted(p for p, c in CHECKS.items() if c.get('engine') == 'E3-faults'),
             'kind_free_text': 'fault-point enumeration: progress-callback exceptions, failing/denied SQL statements, VM-step interruption, document corruption'},
            {'name': 'E4-choice', 'path': 'wnmc/e4.py',
             'serves_properties': sorted(p for p, c in CHECKS.items() if c.get('engine') == 'E4-choice'),
             'kind_free_text': 'deviation-bounded stateless DFS over set-iteration-order choices (import-hook AST transform) + cross-process PYTHONHASHSEED runs'},
        ],
        'checks': [],
        'notes': 'All checks run the real wn code from /repo (editable install) under PYTHONHASHSEED=0; scratch databases live under /dev/shm and are removed on exit. known_findings.txt lists recorded genuine defects.',
        'not_applicable': [],
    }
    for pid in ALL:
        c = CHECKS.get(pid)
        if not c:
            man['not_applicable'].append({'property_id': pid, 'reason': NOT_YET})
            continue
        man['checks'].append({
            'property_id': pid,
            'quick_cmd': f'./check {pid} --tier quick',
            'thorough_cmd': f'./check {pid} --tier thorough',
            'evidence_file': f'/verif/evidence/{pid}.json',
            'replay_cmd_template': f'./check {pid} --replay {{path}}',
            'engine': c.get('engine', 'E2-enum'),
            'level_claimed': {'category': c['category'], 'text': c['text'],
                              'design_ref': c['design_ref']},
            'level_note': c['note'],
            'technique': c['technique'],
        })
    man['engines'] = [e for e in man['engines'] if e['serves_properties']]
    (VERIF / 'MANIFEST.json').write_text(json.dumps(man, indent=1) + '\n')
    print('claimed', len(man['checks']), 'not_applicable', len(man['not_applicable']))


if __name__ == '__main__':
    main()
