#!/venv/bin/python -B
"""Regenerate the seeded-change table in DESIGN.md (between the SEEDTABLE markers) from seeded/*/meta.json."""
import glob
import json
import re
from pathlib import Path

V = Path('/verif')
rows = []
for f in sorted(glob.glob(str(V / 'seeded/*/meta.json'))):
    sid = f.split('/')[-2]
    m = json.load(open(f))
    det = []
    for chk, r in m.get('detected_by', {}).items():
        keys = ', '.join(f'`{k}`' for k in r.get('violation_keys', [])[:2])
        det.append(f"{chk} {r['tier']}: {'**caught**' if r['detected'] else 'MISSED'} {keys}")
    hist = m.get('history', '')
    if hist.startswith('evaluated after'):
        note = ' (check strengthened after reading the patch, before it was run: ' + hist.split('strengthened: ')[-1] + ')'
    elif hist:
        note = ' (first version of the check missed it: ' + hist.split('strengthened: ')[-1] + ')'
    else:
        note = ''
    rows.append(f"| {sid} | {', '.join(m['files_changed'])} | {m['needs_to_manifest']} | {'; '.join(det)}{note} |")
table = ('| seed | files | needs to manifest | result |\n|---|---|---|---|\n' + '\n'.join(rows) + '\n')
p = V / 'DESIGN.md'
s = p.read_text()
a, b = '<!-- SEEDTABLE:BEGIN -->', '<!-- SEEDTABLE:END -->'
if a not in s:
    s += f'\n### 9.5 Independently seeded changes and which checks catch them\n\n{a}\n{b}\n'
s = re.sub(re.escape(a) + '.*?' + re.escape(b), a + '\n' + table + b, s, flags=re.S)
p.write_text(s)
print(len(rows), 'seeds tabulated')
