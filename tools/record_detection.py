#!/venv/bin/python -B
"""record_detection.py <eval-output>: reads the 'SEED <id> check=<C> tier=<t> rc=<r> violations=<n>' lines (and the
'key=' lines under them) that eval_seeds.sh / eval_seeds_wt.sh print and stores them as detected_by in the seeds'
meta.json"""
import json
import re
import sys

cur = None
res = {}
for line in open(sys.argv[1]):
    m = re.match(r'SEED (\S+) check=(\S+) tier=(\S+) rc=(\d+) violations=(\d+)', line)
    if m:
        cur = (m.group(1).split('/')[0], m.group(2))
        res[cur] = {'tier': m.group(3), 'detected': m.group(4) == '1' and int(m.group(5)) > 0, 'violation_keys': []}
        continue
    m = re.match(r'\s+key=(.*?) count=', line)
    if m and cur:
        res[cur]['violation_keys'].append(m.group(1)[:80])
for (sid, chk), r in res.items():
    p = f'/verif/seeded/{sid}/meta.json'
    meta = json.load(open(p))
    meta.setdefault('detected_by', {})[chk] = r
    json.dump(meta, open(p, 'w'), indent=1)
    print(sid, chk, 'caught' if r['detected'] else 'MISSED')
