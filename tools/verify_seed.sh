#!/bin/bash
# verify_seed.sh <worktree> <k>: confirm in the scratch worktree that patch<k>.diff (1) applies,
# (2) keeps the 100 tests green, (3) makes demo<k>.py fail, and that (4) the demo passes without it.
wt=$1; k=$2
cd "$wt" || exit 2
git checkout -q -- wn 2>/dev/null
export PYTHONPATH=$wt
echo "--- demo without patch"; timeout 300 /venv/bin/python -B _seed/demo$k.py >/dev/null 2>&1; d0=$?
git apply _seed/patch$k.diff || { echo "PATCH DOES NOT APPLY"; exit 2; }
echo "--- tests with patch"; t=$(timeout 900 /venv/bin/python -B -m pytest -q -p no:cacheprovider --timeout=900 2>&1 | tail -1)
echo "--- demo with patch"; timeout 300 /venv/bin/python -B _seed/demo$k.py >/dev/null 2>&1; d1=$?
git checkout -q -- wn
echo "RESULT wt=$wt k=$k demo_clean_rc=$d0 demo_patched_rc=$d1 tests='$t'"
