#!/bin/bash
# revert_matrix.sh [tier]: for every "fixed: property=<id> <commit>" line of known_findings.txt, revert that one
# repair on top of the current /repo HEAD in the scratch worktree /tmp/wt_eval (never in /repo), run the repository
# tests and the property's check against it.  Every repair that reverts cleanly must make its check report a
# violation again (a repaired defect "reports the violation again if it ever returns").
tier=${1:-quick}
wt=/tmp/wt_eval
[ -d "$wt" ] || git -C /repo worktree add -q --detach "$wt" HEAD   # scratch worktree; remove it afterwards: git -C /repo worktree remove --force $wt
head=$(git -C /repo rev-parse HEAD)
mkdir -p /dev/shm/wnmc_eval_evidence
grep "^fixed:" /verif/known_findings.txt | awk '{print $2, $3}' | sort -u | while read p c; do
  prop=${p#property=}
  cd $wt && git reset -q --hard && git checkout -q --detach $head
  if ! git revert --no-commit $c >/dev/null 2>&1; then
    git revert --abort >/dev/null 2>&1; git reset -q --hard
    echo "REVERT $c $prop CONFLICT (later repairs touch the same lines)"
    continue
  fi
  t=$(PYTHONPATH=$wt /venv/bin/python -m pytest -q -x -p no:cacheprovider 2>&1 | tail -1)
  cd /verif
  out=$(WNMC_EVIDENCE_DIR=/dev/shm/wnmc_eval_evidence PYTHONPATH=$wt ./check $prop --tier $tier 2>&1); r=$?
  n=$(echo "$out" | grep -c "^VIOLATION")
  echo "REVERT $c $prop tests=[$t] rc=$r violations=$n :: $(git -C /repo log --format=%s -1 $c | cut -c1-90)"
  echo "$out" | grep -A1 "^VIOLATION" | grep "key=" | cut -c1-200 | head -2
  cd $wt && git reset -q --hard
done
cd $wt && git reset -q --hard && git checkout -q --detach $head
git -C /verif clean -fdq replays
rm -rf /dev/shm/wnmc_eval_evidence
