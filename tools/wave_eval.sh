#!/bin/bash
# wave_eval.sh <wave-dir> <ID> <k> [tier]: verify seed k of <wave-dir>/<ID>/_seed (applies, tests green, demo fails/passes) and
# run the property's check against the patched scratch worktree through PYTHONPATH (never touches /repo).
wd=$1; id=$2; k=$3; tier=${4:-quick}; wt=$wd/$id
/verif/tools/verify_seed.sh $wt $k 2>&1 | grep -E "RESULT|NOT APPLY"
cd $wt && git checkout -q -- wn && git apply _seed/patch$k.diff || exit 2
cd /verif
out=$(WNMC_EVIDENCE_DIR=/dev/shm/wnmc_eval_evidence_$id PYTHONPATH=$wt ./check $id --tier $tier 2>&1); r=$?
n=$(echo "$out" | grep -c "^VIOLATION")
echo "SEED $id/$k check=$id tier=$tier rc=$r violations=$n"
echo "$out" | grep -A1 "^VIOLATION" | grep "key=" | cut -c1-200 | head -3
echo "$out" | grep -E "HARNESS|NONDET|Traceback" | head -2
cd $wt && git checkout -q -- wn
rm -rf /dev/shm/wnmc_eval_evidence_$id
