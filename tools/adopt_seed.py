#!/venv/bin/python -B
"""adopt_seed.py <worktree> <k> <seed-id> <property> "<what it needs to manifest>" "<verification result line>"
copies patch<k>.diff / demo<k>.py into /verif/seeded/<seed-id>/ and writes meta.json"""
import json
import shutil
import sys
from pathlib import Path

wt, k, sid, prop, needs, verified = sys.argv[1:7]
src = Path(wt) / '_seed'
dst = Path('/verif/seeded') / sid
dst.mkdir(parents=True, exist_ok=True)
shutil.copy(src / f'patch{k}.diff', dst / 'patch.diff')
shutil.copy(src / f'demo{k}.py', dst / 'demo.py')
notes = next(((src / n).read_text() for n in ('NOTES.md', 'NOTES.txt') if (src / n).exists()), '')
meta = {'property': prop, 'origin': 'independent sub-agent given only the property text and a scratch worktree',
        'needs_to_manifest': needs, 'verified_in_scratch_worktree': verified,
        'files_changed': sorted({l.split(' b/')[1].strip() for l in (dst / 'patch.diff').read_text().splitlines()
                                 if l.startswith('diff --git')}),
        'detected_by': {}, 'author_notes': notes[:6000]}
(dst / 'meta.json').write_text(json.dumps(meta, indent=1))
print('adopted', sid)
