#!/bin/bash
# try_seed.sh <patch.diff> <tier> <prop> [<prop>...]: apply the patch to /repo, run the checks, undo.
patch=$1; tier=$2; shift 2
cd /repo || exit 2
[ -n "$(git status --porcelain -- wn)" ] && { echo "/repo not clean"; exit 2; }
git apply "$patch" || { echo "PATCH DOES NOT APPLY to /repo"; exit 2; }
trap 'git -C /repo checkout -q -- .' EXIT
cd /verif
for p in "$@"; do
  out=$(./check $p --tier $tier 2>&1); r=$?
  n=$(echo "$out" | grep -c "^VIOLATION")
  echo "SEED $(basename $(dirname $patch))/$(basename $patch) check=$p tier=$tier rc=$r violations=$n"
  echo "$out" | grep -A1 "^VIOLATION" | grep "key=" | cut -c1-220 | head -4
  echo "$out" | grep -E "HARNESS|NONDET|Traceback" | head -3
done
