"""F6: <Extends/> without id and version (and a LexiconExtension without <Extends>) is accepted.

Clause: "[a file that] omits a required identifying attribute is rejected by load() ...".
_validate() tests `if ext:` on the attribute dict of <Extends>; an attribute-less <Extends/>
is an empty (falsy) dict, so the id/version assertions are skipped and the LexiconExtension is
returned as an ordinary Lexicon.
"""
import sys
sys.path.insert(0, '/tmp/wh/C20/_hunt')
from _common import *  # noqa

for name, inner in {
    '<Extends version="1"/> (one attribute missing)': '<Extends version="1"/>',
    '<Extends/> (both missing)': '<Extends/>',
    'no <Extends> child at all': '',
}.items():
    wn.config.data_directory = tempfile.mkdtemp(dir=TMP)
    p = write('f6.xml', doc(f'<LexiconExtension id="x" version="1" {LEXATTRS}>{inner}{BODY}'
                            '</LexiconExtension>'))
    print(name)
    print('   EXPECTED load(): raises')
    print('   OBSERVED load():', outcome(loaded_infos, p))
    print('   OBSERVED add(): ', outcome(wn.add, p, progress_handler=None), '| db:', db_lexicons())
