"""F7: under `python -O` (or PYTHONOPTIMIZE=1) load() accepts every missing required attribute.

Clause: "[a file that] omits a required identifying attribute is rejected by load()".
All _validate_* checks are `assert` statements.  Run:  python -B -O finding7.py
"""
import sys
sys.path.insert(0, '/tmp/wh/C20/_hunt')
from _common import *  # noqa

print('assertions enabled:', __debug__)
docs = {
    'Lexicon without label': doc(f'<Lexicon id="a" version="1" language="en" email="e" license="l">{BODY}</Lexicon>'),
    'Sense without synset': doc(f'<Lexicon id="a" version="1" {LEXATTRS}>' + BODY.replace(' synset="ss"', '') + '</Lexicon>'),
    'Synset without id': doc(f'<Lexicon id="a" version="1" {LEXATTRS}><Synset ili=""/></Lexicon>'),
    'Lemma without writtenForm': doc(f'<Lexicon id="a" version="1" {LEXATTRS}>' + BODY.replace(' writtenForm="w"', '') + '</Lexicon>'),
}
for name, text in docs.items():
    p = write('f7.xml', text)
    print(name)
    print('   EXPECTED load(): raises')
    print('   OBSERVED load():', outcome(lmf.load, p, progress_handler=None)[:110])
