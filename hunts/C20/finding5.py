"""F5: is_lmf() is True for headers with mismatched quotes, which load() rejects.

Clause: "is_lmf() is true exactly for files whose header load() accepts".
_read_header() replaces every ' by " before comparing, so  version="1.0'  passes the header
check although the XML declaration / DOCTYPE is not well-formed.
"""
import sys
sys.path.insert(0, '/tmp/wh/C20/_hunt')
from _common import *  # noqa

body = doc(f'<Lexicon id="a" version="1" {LEXATTRS}>{BODY}</Lexicon>').split('\n', 2)[2]
for name, head in {
    'xml decl  version="1.0\'':
        '<?xml version="1.0\' encoding="UTF-8"?>\n' + doctype('1.3'),
    'doctype   SYSTEM \'http://...dtd"':
        XMLDECL + doctype('1.3').replace('SYSTEM "', "SYSTEM '"),
}.items():
    p = write('f5.xml', head + body)
    print(name)
    print('   load():', outcome(lmf.load, p, progress_handler=None))
    print('   EXPECTED is_lmf(): returned False (load() rejects the file because of this header)')
    print('   OBSERVED is_lmf():', outcome(lmf.is_lmf, p))
