"""F3: references to undeclared entities are silently dropped by load(), kept raw by scan.

Clause: "scan_lexicons() reports the same ids, versions, labels ... as a full load" (and,
arguably, "not well-formed / invalid XML is rejected": the data is silently truncated).
"""
import sys
sys.path.insert(0, '/tmp/wh/C20/_hunt')
from _common import *  # noqa

for name, text in {
    'label="caf&eacute;"':
        doc(f'<Lexicon id="a" version="1" label="caf&eacute; lexicon" language="en" email="e" '
            f'license="l">{BODY}</Lexicon>'),
    'id="a&nbsp;b"':
        doc(f'<Lexicon id="a&nbsp;b" version="1" {LEXATTRS}>{BODY}</Lexicon>'),
}.items():
    wn.config.data_directory = tempfile.mkdtemp(dir=TMP)
    p = write('f3.xml', text)
    print(name)
    print('   load():           ', outcome(loaded_infos, p))
    print('   EXPECTED scan_lexicons(): same ids/labels as load() (or both reject the file)')
    print('   OBSERVED scan_lexicons():', outcome(lmf.scan_lexicons, p))
    print('   OBSERVED add():          ', outcome(wn.add, p, progress_handler=None),
          '| db:', db_lexicons())
