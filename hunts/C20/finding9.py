"""F9 (adjacent): load() never checks where an element occurs; scan then disagrees with load.

Clause: "scan_lexicons() reports the same ... extension bases ... as a full load of the file"
(and the title "Invalid WN-LMF is rejected as a whole").  650 of 662 single misplacements of a
known element under a parent whose DTD content model forbids it are accepted by load()
(_hunt/t_misplace.py).  Two of them, below, make scan and load disagree.
"""
import sys
sys.path.insert(0, '/tmp/wh/C20/_hunt')
from _common import *  # noqa

cases = {
    '<Extends> inside <Sense>':
        doc(f'<Lexicon id="a" version="1" {LEXATTRS}>'
            + BODY.replace('<Sense id="s" synset="ss"/>',
                           '<Sense id="s" synset="ss"><Extends id="q" version="1"/></Sense>')
            + '</Lexicon>'),
    '<Lexicon> nested inside <Lexicon>':
        doc(f'<Lexicon id="a" version="1" {LEXATTRS}>{BODY}'
            f'<Lexicon id="inner" version="1" {LEXATTRS}></Lexicon></Lexicon>'),
}
for name, text in cases.items():
    wn.config.data_directory = tempfile.mkdtemp(dir=TMP)
    p = write('f9.xml', text)
    print(name)
    print('   load():                  ', outcome(loaded_infos, p))
    print('   EXPECTED scan_lexicons(): same as load() (or load() rejects the misplaced element)')
    print('   OBSERVED scan_lexicons():', outcome(lmf.scan_lexicons, p))
    print('   OBSERVED add():          ', outcome(wn.add, p, progress_handler=None),
          '| db:', db_lexicons())
