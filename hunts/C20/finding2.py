"""F2: scan_lexicons() matches '<Lexicon'/'<Extends' inside comments, CDATA and PIs.

Clause: "scan_lexicons() reports the same ids, versions, labels and extension bases, in the
same order, as a full load of the file" and "every [valid] file ... is accepted".
All documents below are well-formed, DTD-valid WN-LMF 1.3 and load() accepts all of them.
"""
import sys
sys.path.insert(0, '/tmp/wh/C20/_hunt')
from _common import *  # noqa

L = f'<Lexicon id="a" version="1" {LEXATTRS}>{{pre}}{BODY}</Lexicon>'
cases = {
    'comment that mentions <Lexicon> in prose':
        doc('<!-- every <Lexicon> element needs an id -->\n' + L.format(pre='')),
    'commented-out <Extends> inside a Lexicon':
        doc(L.format(pre='<!-- <Extends id="base" version="1"/> -->')),
    'commented-out old lexicon':
        doc('<!-- <Lexicon id="old" version="0" label="Old"></Lexicon> -->\n' + L.format(pre='')),
    'CDATA in a definition':
        doc(f'<Lexicon id="a" version="1" {LEXATTRS}><Synset id="ss" ili=""><Definition>'
            '<![CDATA[see <Lexicon id="q" version="9">]]></Definition></Synset></Lexicon>'),
}
bad = 0
for name, text in cases.items():
    wn.config.data_directory = tempfile.mkdtemp(dir=TMP)
    p = write('f2.xml', text)
    full = loaded_infos(p)
    sc = outcome(lmf.scan_lexicons, p)
    ad = outcome(wn.add, p, progress_handler=None)
    print(name)
    print('   EXPECTED scan_lexicons():', 'returned ' + repr(full))
    print('   OBSERVED scan_lexicons():', sc)
    print('   EXPECTED add(): lexicon a:1 is added')
    print('   OBSERVED add():', ad, '| lexicons in db:', db_lexicons())
    if sc != 'returned ' + repr(full):
        bad += 1
print('VIOLATIONS:', bad, 'of', len(cases))
