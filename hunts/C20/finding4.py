"""F4: is_lmf() raises UnicodeDecodeError instead of returning False.

Clause: "is_lmf() is true exactly for files whose header load() accepts" -- for a file whose
DOCTYPE line is not UTF-8, load() rejects the header, so is_lmf() must be False; it raises.
Consequence: wn.add(<package dir>) crashes if the directory holds such an unrelated XML file.
"""
import sys
sys.path.insert(0, '/tmp/wh/C20/_hunt')
from _common import *  # noqa

p = write('notes.xml', b'<?xml version="1.0" encoding="UTF-8"?>\n<!-- caf\xe9 -->\n<notes/>\n')
print('EXPECTED is_lmf(): returned False')
print('OBSERVED is_lmf():', outcome(lmf.is_lmf, p))
print('         load():  ', outcome(lmf.load, p, progress_handler=None))

pkg = TMP / 'pkg'
pkg.mkdir()
(pkg / 'lex.xml').write_text(doc(f'<Lexicon id="a" version="1" {LEXATTRS}>{BODY}</Lexicon>'))
(pkg / 'notes.xml').write_bytes(p.read_bytes())
print('EXPECTED add(package dir with lex.xml + unrelated notes.xml): adds a:1')
print('OBSERVED add():', outcome(wn.add, pkg, progress_handler=None), '| db:', db_lexicons())
