"""F1: add() silently 'accepts' (no exception) invalid documents that load() rejects.

Clause: "[an invalid file] is rejected by load() and by add() with an exception".
"""
import sys
sys.path.insert(0, '/tmp/wh/C20/_hunt')
from _common import *  # noqa

cases = {
    # (a) single-fault: element renamed (Lexicon -> Lexicom) in a one-lexicon 1.0 document
    'a: <Lexicon> renamed to <Lexicom> (1.0)':
        doc(f'<Lexicom id="a" version="1" {LEXATTRS}>{BODY}</Lexicom>', '1.0'),
    # (b) single-fault: element that does not exist in the declared version (Extends in 1.0)
    'b: <Extends> used in a 1.0 document':
        doc(f'<Lexicon id="a" version="1" {LEXATTRS}>{BODY}'
            '<Extends id="q" version="1"/></Lexicon>', '1.0'),
    # (c) single-fault: unbalanced tag (start tag of Lexicon dropped)
    'c: start tag of <Lexicon> dropped (1.3)':
        doc(f'{BODY}</Lexicon>', '1.3'),
    # (d) single-fault: LexiconExtension renamed; its orphaned <Extends> is credited to the
    #     preceding, perfectly fine <Lexicon>, which is then skipped ("base not available")
    'd: <LexiconExtension> renamed, 1.3':
        doc(f'<Lexicon id="a" version="1" {LEXATTRS}>{BODY}</Lexicon>'
            f'<LexiconExtensionX id="x" version="1" {LEXATTRS}><Extends id="a" version="1"/>'
            '</LexiconExtensionX>', '1.3'),
    # (e) any fault at all inside an extension whose base is not installed
    'e: duplicated <Extends> in extension-only file (1.3)':
        doc(f'<LexiconExtension id="x" version="1" {LEXATTRS}><Extends id="a" version="1"/>'
            '<Extends id="a" version="1"/><Bogus/></LexiconExtension>', '1.3'),
}
bad = 0
for name, text in cases.items():
    p = write('f1.xml', text)
    lo = outcome(lmf.load, p, progress_handler=None)
    ad = outcome(wn.add, p, progress_handler=None)
    print(name)
    print('   load():  ', lo)
    print('   EXPECTED add(): raises an exception (document is invalid)')
    print('   OBSERVED add(): ', ad, '| lexicons in db:', db_lexicons())
    if lo.startswith('raised') and ad.startswith('returned'):
        bad += 1
print('VIOLATIONS:', bad, 'of', len(cases))
