"""Tiny shared helpers for the finding scripts (no project code is modified)."""
import tempfile
from pathlib import Path

import wn
from wn import lmf

TMP = Path(tempfile.mkdtemp(prefix='c20_finding_'))
wn.config.data_directory = tempfile.mkdtemp(dir=TMP)

XMLDECL = '<?xml version="1.0" encoding="UTF-8"?>\n'


def doctype(v):
    return ('<!DOCTYPE LexicalResource SYSTEM '
            f'"http://globalwordnet.github.io/schemas/WN-LMF-{v}.dtd">\n')


DC = {'1.0': 'http://purl.org/dc/elements/1.1/'}
LEXATTRS = 'label="L" language="en" email="e" license="l"'
BODY = ('<LexicalEntry id="e"><Lemma writtenForm="w" partOfSpeech="n"/>'
        '<Sense id="s" synset="ss"/></LexicalEntry><Synset id="ss" ili=""/>')


def doc(inner, v='1.3'):
    dc = DC.get(v, 'https://globalwordnet.github.io/schemas/dc/')
    return (XMLDECL + doctype(v) + f'<LexicalResource xmlns:dc="{dc}">\n'
            + inner + '\n</LexicalResource>\n')


def write(name, text):
    p = TMP / name
    p.write_bytes(text if isinstance(text, bytes) else text.encode('utf-8'))
    return p


def outcome(f, *a, **k):
    try:
        return 'returned ' + repr(f(*a, **k))
    except BaseException as e:  # noqa
        return f'raised {type(e).__name__}: {e}'


def db_lexicons():
    return [(r[0], r[1]) for r in wn._db.connect().execute('SELECT id, version FROM lexicons')]


def loaded_infos(path):
    res = lmf.load(path, progress_handler=None)
    out = []
    for lex in res['lexicons']:
        ext = lex.get('extends')
        out.append({'id': lex['id'], 'version': lex['version'], 'label': lex['label'],
                    'extends': {'id': ext['id'], 'version': ext['version']} if ext else None})
    return out
