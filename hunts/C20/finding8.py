"""F8: dump() output that load() rejects.

Clause: "every file produced by dump() is accepted".
(a) a resource containing a LexiconExtension dumped with lmf_version '1.0': dump() happily
    writes <LexiconExtension> (without <Extends>) into a 1.0 file.
(b) strings with characters that XML 1.0 cannot represent are written raw.
"""
import sys
sys.path.insert(0, '/tmp/wh/C20/_hunt')
from _common import *  # noqa

lex = dict(id='x', version='1', label='L', language='en', email='e', license='l', meta=None,
           extends={'id': 'a', 'version': '1'})
out = TMP / 'dumped.xml'
print('(a) extension dumped as 1.0')
print('   dump():', outcome(lmf.dump, {'lmf_version': '1.0', 'lexicons': [lex]}, out))
print('   EXPECTED load(dumped): accepted (or dump() refuses)')
print('   OBSERVED load(dumped):', outcome(lmf.load, out, progress_handler=None)[:120])
lex2 = dict(lex, label='a\x0bb')
del lex2['extends']
print('(b) label with U+000B')
print('   dump():', outcome(lmf.dump, {'lmf_version': '1.3', 'lexicons': [lex2]}, out))
print('   EXPECTED load(dumped): accepted (or dump() refuses)')
print('   OBSERVED load(dumped):', outcome(lmf.load, out, progress_handler=None)[:120])
