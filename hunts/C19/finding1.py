"""C19 finding 1: a blank (or id-less) line in an ILI file creates a phantom ILI whose id is ''.

Clause: "Adding an interlingual-index file gives every listed ILI the file's
status and definition (creating ILIs not yet known ...) and changes nothing else".
A trailing empty line lists no ILI, yet a new row (id='', status='active') appears.
"""
import tempfile
from pathlib import Path
import wn
wn.config.data_directory = tempfile.mkdtemp()
d = Path(tempfile.mkdtemp())

clean = d / 'clean.tsv'
clean.write_text('ili\tstatus\tdefinition\ni1\tdeprecated\tone\n')
blank = d / 'blank.tsv'          # the same file, saved with one extra newline at the end
blank.write_text('ili\tstatus\tdefinition\ni1\tdeprecated\tone\n\n')

wn.add(blank, progress_handler=None)
got = [(i.id, i.status, i.definition()) for i in wn.ilis()]
print('EXPECTED ilis :', [('i1', 'deprecated', 'one')])
print('OBSERVED ilis :', got)
print('repr of the phantom:', [repr(i) for i in wn.ilis() if not i.id])
print('wn.ilis(status="active") EXPECTED [] OBSERVED',
      [(i.id, i.status) for i in wn.ilis(status='active')])
assert got != [('i1', 'deprecated', 'one')], 'not reproduced'
print('VIOLATION reproduced')
