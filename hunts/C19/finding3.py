"""C19 observation 3 (borderline): ILI.metadata() depends on whether the index was loaded before
or after the lexicon, and after "lexicon, then index" the lexicon's ILIDefinition metadata
(e.g. dc:source) stays attached to a definition that now comes from the index.

The property's last clause only promises order-independence of *statuses and definitions*,
so this is NOT a violation of the text as written; it is the only order-dependent residue found.
"""
import tempfile
from pathlib import Path
import wn
from wn import _db
d = Path(tempfile.mkdtemp())
(d / 'a.xml').write_text('''<?xml version="1.0" encoding="UTF-8"?>
<!DOCTYPE LexicalResource SYSTEM "http://globalwordnet.github.io/schemas/WN-LMF-1.1.dtd">
<LexicalResource xmlns:dc="https://globalwordnet.github.io/schemas/dc/">
  <Lexicon id="a" label="A" language="en" email="a@b.c" license="x" version="1">
    <Synset id="a-1" ili="i1" partOfSpeech="n"><ILIDefinition dc:source="lexicon a">definition by a</ILIDefinition></Synset>
  </Lexicon>
</LexicalResource>''')
(d / 'ili.tsv').write_text('ili\tstatus\tdefinition\ni1\tactive\tdefinition from the index\n')
out = {}
for order in (('a.xml', 'ili.tsv'), ('ili.tsv', 'a.xml')):
    wn.config.data_directory = tempfile.mkdtemp()
    for f in order:
        wn.add(d / f, progress_handler=None)
    i = wn.synset('a-1').ili
    out[order] = (i.status, i.definition(), dict(i.metadata()))
    print(order, '->', out[order])
a, b = out.values()
print('status/definition equal:', a[:2] == b[:2], '| metadata equal:', a[2] == b[2])
