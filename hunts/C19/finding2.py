"""C19 finding 2: an index row whose status is the word 'proposed' yields an ILI that the
library confuses with the lexicons' proposed ILIs.

Clause: "...gives every listed ILI the file's status and definition ... and changes nothing
else: which synsets carry which ILI, proposed ILIs, and all lexicon content stay the same."
(quantifier: statuses "active/provisional/deprecated/other")

 * wn.ilis(status='proposed') does not return the listed ILI although wn.ili(id).status == 'proposed'
 * ILI.metadata() of the listed ILI reads the *proposed_ilis* table by rowid and so returns the
   metadata of an unrelated, lexicon-proposed ILI.
"""
import tempfile
from pathlib import Path
import wn
wn.config.data_directory = tempfile.mkdtemp()
d = Path(tempfile.mkdtemp())
(d / 'a.xml').write_text('''<?xml version="1.0" encoding="UTF-8"?>
<!DOCTYPE LexicalResource SYSTEM "http://globalwordnet.github.io/schemas/WN-LMF-1.1.dtd">
<LexicalResource xmlns:dc="https://globalwordnet.github.io/schemas/dc/">
  <Lexicon id="a" label="A" language="en" email="a@b.c" license="x" version="1">
    <Synset id="a-1" ili="i1" partOfSpeech="n"/>
    <Synset id="a-2" ili="in" partOfSpeech="n"><ILIDefinition dc:source="lexicon a">a brand new concept, proposed by a</ILIDefinition></Synset>
  </Lexicon>
</LexicalResource>''')
(d / 'ili.tsv').write_text('ili\tstatus\tdefinition\ni1\tproposed\tfrom the index\n')
wn.add(d / 'a.xml', progress_handler=None)
wn.add(d / 'ili.tsv', progress_handler=None)

i1 = wn.synset('a-1').ili
print('i1:', i1.id, i1.status, i1.definition())
print('metadata of i1   EXPECTED {}  OBSERVED', i1.metadata())
print("wn.ilis(status='proposed') ids EXPECTED to contain 'i1' (its status is 'proposed')  OBSERVED",
      [i.id for i in wn.ilis(status='proposed')])
assert i1.metadata() != {} and 'i1' not in [i.id for i in wn.ilis(status='proposed')]
print('VIOLATION reproduced')
