"""C04 finding 2: an installed lexicon extension that is outside the selection makes it impossible
to install (and so to query) another extension of the same base: forms has
UNIQUE (entry_rowid, form, script) without the owning lexicon, so the second extension that adds
the same written form + script to a base entry fails with sqlite3.IntegrityError.  Wordnet('a:1 x:2')
therefore depends on whether the unrelated x:1 was added before."""
import os, tempfile
import wn

HEAD = ('<?xml version="1.0" encoding="UTF-8"?>\n'
        '<!DOCTYPE LexicalResource SYSTEM "http://globalwordnet.github.io/schemas/WN-LMF-1.1.dtd">\n'
        '<LexicalResource xmlns:dc="https://globalwordnet.github.io/schemas/dc/">\n')
A = HEAD + '''<Lexicon id="a" label="a" language="ja" email="e" license="l" version="1">
<LexicalEntry id="a-w1"><Lemma writtenForm="情報" partOfSpeech="n" script="Jpan"/><Sense id="a-w1-1" synset="a-s1"/></LexicalEntry>
<Synset id="a-s1" ili="i1" partOfSpeech="n"/>
</Lexicon></LexicalResource>'''


def ext(ver):
    return HEAD + f'''<LexiconExtension id="x" label="x" language="ja" email="e" license="l" version="{ver}">
<Extends id="a" version="1"/>
<ExternalLexicalEntry id="a-w1"><Form writtenForm="じょうほう" script="Hira"/></ExternalLexicalEntry>
</LexiconExtension></LexicalResource>'''


def observe(ext_versions):
    d = tempfile.mkdtemp()
    wn.config.data_directory = d

    def write(name, text):
        p = os.path.join(d, name)
        with open(p, 'w', encoding='utf-8') as f:
            f.write(text)
        return p
    wn.add(write('a.xml', A), progress_handler=None)
    for v in ext_versions:
        try:
            wn.add(write(f'x{v}.xml', ext(v)), progress_handler=None)
        except Exception as exc:
            print(f'   (wn.add of x:{v} raised {type(exc).__name__}: {exc})')
    try:
        return [str(f) for f in wn.Wordnet('a:1 x:2').word('a-w1').forms()]
    except wn.Error as exc:
        return f'wn.Error: {exc}'


print('history 1: add a:1, add x:2')
r1 = observe(['2'])
print('history 2: add a:1, add x:1 (outside S), add x:2')
r2 = observe(['1', '2'])
print('EXPECTED Wordnet("a:1 x:2").word("a-w1").forms() in both histories:', r1)
print('OBSERVED in history 2                                            :', r2)
print('VIOLATION' if r1 != r2 else 'ok')
