"""C04 finding 1: the tag / pronunciation that a selected lexicon extension puts on ITS OWN new
form disappears from Wordnet('a:1 x:2') as soon as an unselected sibling extension (here: the
previous version x:1 of the same extension) is installed, because _add.py:FORM_QUERY matches
"f.id = ?" over the forms of ALL lexicons on the entry and the annotation is attached to the
first match (the other extension's form)."""
import os, tempfile
import wn

HEAD = ('<?xml version="1.0" encoding="UTF-8"?>\n'
        '<!DOCTYPE LexicalResource SYSTEM "http://globalwordnet.github.io/schemas/WN-LMF-1.1.dtd">\n'
        '<LexicalResource xmlns:dc="https://globalwordnet.github.io/schemas/dc/">\n')
A = HEAD + '''<Lexicon id="a" label="a" language="en" email="e" license="l" version="1">
<LexicalEntry id="a-w1"><Lemma writtenForm="colour" partOfSpeech="n"/><Sense id="a-w1-1" synset="a-s1"/></LexicalEntry>
<Synset id="a-s1" ili="i1" partOfSpeech="n"/>
</Lexicon></LexicalResource>'''


def ext(ver):
    return HEAD + f'''<LexiconExtension id="x" label="x" language="en" email="e" license="l" version="{ver}">
<Extends id="a" version="1"/>
<ExternalLexicalEntry id="a-w1">
  <Form id="a-w1-color" writtenForm="color">
    <Pronunciation variety="x-{ver}">kVl@r</Pronunciation>
    <Tag category="source">x:{ver}</Tag>
  </Form>
</ExternalLexicalEntry>
</LexiconExtension></LexicalResource>'''


def observe(ext_versions):
    d = tempfile.mkdtemp()
    wn.config.data_directory = d

    def write(name, text):
        p = os.path.join(d, name)
        with open(p, 'w', encoding='utf-8') as f:
            f.write(text)
        return p
    wn.add(write('a.xml', A), progress_handler=None)
    for v in ext_versions:
        wn.add(write(f'x{v}.xml', ext(v)), progress_handler=None)
    word = wn.Wordnet('a:1 x:2').word('a-w1')      # S = {a:1, x:2}; x:1 is outside S
    return [(str(f), [t.tag for t in f.tags()], [p.variety for p in f.pronunciations()])
            for f in word.forms()]


without = observe(['2'])
with_sibling = observe(['1', '2'])
print('Wordnet("a:1 x:2").word("a-w1").forms() with tags / pronunciation varieties')
print('EXPECTED (same result whether or not x:1, which is outside S, is installed):')
print('   ', without)
print('OBSERVED with the unselected extension x:1 also installed:')
print('   ', with_sibling)
print('VIOLATION' if without != with_sibling else 'ok')
