"""C19 finding 1 (low confidence): ILI *metadata* depends on whether the index is loaded
before or after the lexicon, and after lexicon->index the ILI carries the index's definition
together with the metadata of the lexicon's (overwritten) ILIDefinition.

Self-contained; exits 1 when the order dependence shows.
"""
import shutil
import sys
import tempfile
from pathlib import Path

import wn
from wn import _db

LEX = '''<?xml version="1.0" encoding="UTF-8"?>
<!DOCTYPE LexicalResource SYSTEM "http://globalwordnet.github.io/schemas/WN-LMF-1.1.dtd">
<LexicalResource xmlns:dc="https://globalwordnet.github.io/schemas/dc/">
<Lexicon id="a" label="A" language="en" email="a@b.c" license="lic" version="1">
<LexicalEntry id="a-e1"><Lemma writtenForm="w" partOfSpeech="n"/><Sense id="a-e1-s" synset="a-s1"/></LexicalEntry>
<Synset id="a-s1" ili="i2" partOfSpeech="n">
<Definition>d</Definition>
<ILIDefinition dc:source="the-lexicon-author" confidenceScore="0.5">definition written by the lexicon</ILIDefinition>
</Synset>
</Lexicon>
</LexicalResource>
'''
IDX = 'ili\tstatus\tdefinition\ni2\tactive\tdefinition from the index\n'


def run(order):
    for c in list(_db.pool.values()):
        c.close()
    _db.pool.clear()
    d = tempfile.mkdtemp(prefix='c19_f1_')
    try:
        wn.config.data_directory = d
        lex = Path(d) / 'a.xml'
        lex.write_text(LEX, encoding='utf-8')
        idx = Path(d) / 'cili.tsv'
        idx.write_text(IDX, encoding='utf-8')
        for what in order:
            wn.add(lex if what == 'lex' else idx, progress_handler=None)
        ili = wn.synset('a-s1').ili
        return ili.id, ili.status, ili.definition(), dict(ili.metadata())
    finally:
        for c in list(_db.pool.values()):
            c.close()
        _db.pool.clear()
        shutil.rmtree(d, ignore_errors=True)


first = run(['idx', 'lex'])
last = run(['lex', 'idx'])
print('EXPECTED: the ILI reached from a-s1 is the same whether the index is loaded before or '
      'after the lexicon (status, definition, and the metadata that describes the definition)')
print('OBSERVED  index -> lexicon :', first)
print('OBSERVED  lexicon -> index :', last)
if first[:3] != last[:3]:
    print('status/definition differ (core clause violated)')
    sys.exit(1)
if first[3] != last[3]:
    print('status and definition agree, but ILI.metadata() differs; after lexicon -> index the '
          "metadata of the lexicon's ILIDefinition is attached to the index's definition")
    sys.exit(1)
print('no order dependence')
