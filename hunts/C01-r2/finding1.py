"""C01 finding 1: a Tag / Pronunciation on a NEW form (with an id) that a lexicon
extension adds to a base entry is attached to the form of ANOTHER installed lexicon
that carries the same form id on that entry - e.g. the previous version of the same
extension.  FORM_QUERY (wn/_add.py:39-46) looks the form up by  `f.id = ?`  among all
forms of the entry, whichever lexicon owns them; only the rank alternative was
restricted to the adding lexicon by the earlier repair ff23938.

run:  cd /tmp/wh2/C01 && PYTHONPATH=/tmp/wh2/C01 /venv/bin/python -B _hunt/finding1.py
"""
import os
import tempfile
import wn

wn.config.data_directory = tempfile.mkdtemp()
HEAD = '''<?xml version="1.0" encoding="UTF-8"?>
<!DOCTYPE LexicalResource SYSTEM "http://globalwordnet.github.io/schemas/WN-LMF-1.1.dtd">
<LexicalResource xmlns:dc="https://globalwordnet.github.io/schemas/dc/">
'''


def add(body, name):
    path = os.path.join(wn.config.data_directory, name)
    with open(path, 'w', encoding='utf-8') as f:
        f.write(HEAD + body + '</LexicalResource>\n')
    wn.add(path, progress_handler=None)


BASE = ('<Lexicon id="a" label="A" language="en" email="e" license="l" version="1">'
        '<LexicalEntry id="a-e1"><Lemma writtenForm="wolf" partOfSpeech="n"/></LexicalEntry>'
        '</Lexicon>')
EXT = ('<LexiconExtension id="x" label="X" language="en" email="e" license="l" version="{v}">'
       '<Extends id="a" version="1"/>'
       '<ExternalLexicalEntry id="a-e1">'
       '<Form id="x-a-e1-plural" writtenForm="{form}">'
       '<Pronunciation>{pron}</Pronunciation><Tag category="number">{tag}</Tag>'
       '</Form>'
       '</ExternalLexicalEntry>'
       '</LexiconExtension>')

add(BASE, 'a.xml')
add(EXT.format(v='1', form='wolfs', pron='wUlfs', tag='PL-v1'), 'x1.xml')
add(EXT.format(v='2', form='wolves', pron='wUlvz', tag='PL-v2'), 'x2.xml')


def report(sel):
    word = wn.Wordnet(sel).word('a-e1')
    return [(str(f), f.id, [t.tag for t in f.tags()], [p.value for p in f.pronunciations()])
            for f in word.forms()]


expected = {
    'a:1 x:1': [('wolf', None, [], []), ('wolfs', 'x-a-e1-plural', ['PL-v1'], ['wUlfs'])],
    'a:1 x:2': [('wolf', None, [], []), ('wolves', 'x-a-e1-plural', ['PL-v2'], ['wUlvz'])],
}
ok = True
for sel, exp in expected.items():
    obs = report(sel)
    print(f'Wordnet({sel!r}).word("a-e1").forms()')
    print('   EXPECTED', exp)
    print('   OBSERVED', obs)
    ok = ok and obs == exp
print('PROPERTY HOLDS' if ok else 'VIOLATION: the tag and pronunciation of x:2\'s form are '
      'reported on x:1\'s form, x:2\'s form has none')
