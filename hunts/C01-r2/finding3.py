"""C01 finding 3: Lexicon.describe() (and Wordnet.describe()) raises TypeError for a lexicon
in which one Synset has the optional partOfSpeech attribute and another has not.  Such
documents are accepted since repair 40633d5; _desc_counts (wn/_core.py:252-260) still sorts
the parts of speech and None does not compare with str.

run:  cd /tmp/wh2/C01 && PYTHONPATH=/tmp/wh2/C01 /venv/bin/python -B _hunt/finding3.py
"""
import os
import tempfile
import wn

wn.config.data_directory = tempfile.mkdtemp()
DOC = '''<?xml version="1.0" encoding="UTF-8"?>
<!DOCTYPE LexicalResource SYSTEM "http://globalwordnet.github.io/schemas/WN-LMF-1.0.dtd">
<LexicalResource xmlns:dc="http://purl.org/dc/elements/1.1/">
<Lexicon id="a" label="A" language="en" email="e" license="l" version="1">
<LexicalEntry id="e1"><Lemma writtenForm="w" partOfSpeech="n"/>
<Sense id="s1" synset="ss1"/><Sense id="s2" synset="ss2"/></LexicalEntry>
<Synset id="ss1" ili=""/>
<Synset id="ss2" ili="" partOfSpeech="n"/>
</Lexicon>
</LexicalResource>
'''
path = os.path.join(wn.config.data_directory, 'a.xml')
with open(path, 'w', encoding='utf-8') as f:
    f.write(DOC)
wn.add(path, progress_handler=None)
print('synsets stored:', [(ss.id, ss.pos) for ss in wn.synsets()])
print('EXPECTED  a description that counts 2 synsets (one of them without a part of speech)')
try:
    print('OBSERVED ', wn.lexicons()[0].describe().replace('\n', ' | '))
except Exception as exc:
    print('OBSERVED  Lexicon.describe() raised', repr(exc))
