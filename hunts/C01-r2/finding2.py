"""C01 finding 2: an extension Y of an extension X cannot annotate (Tag / Pronunciation)
the id-carrying form that X itself added to an entry of X's base A: wn.add raises
sqlite3.IntegrityError and Y is not installed.  The parallel annotation of X's new SENSE
on that same entry (Example, Count inside ExternalSense) works, so the two External*
patterns are treated differently: senses are looked up by (id, X), forms by
(entry id, *entry's lexicon* = X, form id) - and the entry belongs to A (FORM_QUERY +
lexidmap in wn/_add.py:39-46, 389-403, 599-661).

run:  cd /tmp/wh2/C01 && PYTHONPATH=/tmp/wh2/C01 /venv/bin/python -B _hunt/finding2.py
"""
import os
import tempfile
import wn

wn.config.data_directory = tempfile.mkdtemp()
HEAD = '''<?xml version="1.0" encoding="UTF-8"?>
<!DOCTYPE LexicalResource SYSTEM "http://globalwordnet.github.io/schemas/WN-LMF-1.1.dtd">
<LexicalResource xmlns:dc="https://globalwordnet.github.io/schemas/dc/">
'''


def add(body, name):
    path = os.path.join(wn.config.data_directory, name)
    with open(path, 'w', encoding='utf-8') as f:
        f.write(HEAD + body + '</LexicalResource>\n')
    wn.add(path, progress_handler=None)


A = ('<Lexicon id="a" label="A" language="en" email="e" license="l" version="1">'
     '<LexicalEntry id="a-e1"><Lemma writtenForm="wolf" partOfSpeech="n"/>'
     '<Sense id="a-s1" synset="a-ss1"/></LexicalEntry><Synset id="a-ss1" ili=""/></Lexicon>')
X = ('<LexiconExtension id="x" label="X" language="en" email="e" license="l" version="1">'
     '<Extends id="a" version="1"/>'
     '<ExternalLexicalEntry id="a-e1">'
     '<Form id="x-f1" writtenForm="wolves"/>'
     '<Sense id="x-s1" synset="a-ss1"/>'
     '</ExternalLexicalEntry><ExternalSynset id="a-ss1"/></LexiconExtension>')
Y = ('<LexiconExtension id="y" label="Y" language="en" email="e" license="l" version="1">'
     '<Extends id="x" version="1"/>'
     '<ExternalLexicalEntry id="a-e1">'
     '{form}'
     '<ExternalSense id="x-s1"><Example>y example</Example><Count>4</Count></ExternalSense>'
     '</ExternalLexicalEntry></LexiconExtension>')
add(A, 'a.xml')
add(X, 'x.xml')

print('EXPECTED  Y is added; in Wordnet("a x y") form "wolves" has tag PL, sense x-s1 has '
      "examples ['y example'] and counts [4]")
for label, form in (('Y annotating only X\'s sense', ''),
                    ('Y annotating X\'s sense and X\'s form',
                     '<ExternalForm id="x-f1"><Tag category="number">PL</Tag></ExternalForm>')):
    try:
        add(Y.format(form=form), 'y.xml')
        w = wn.Wordnet('a x y')
        s = w.sense('x-s1')
        print(f'OBSERVED  [{label}] added;',
              [(str(f), [t.tag for t in f.tags()]) for f in w.word('a-e1').forms()],
              s.examples(), [int(c) for c in s.counts()])
        wn.remove('y:1', progress_handler=None)
    except Exception as exc:
        print(f'OBSERVED  [{label}] wn.add raised {exc!r};',
              'installed:', [lx.specifier() for lx in wn.lexicons()])
