"""C01 finding 4 (related to the not-counted item 'two forms with equal text and script'):
two VERSIONS of one lexicon extension that both add the same written form *with a script*
to a base entry cannot be installed side by side: the second wn.add raises
sqlite3.IntegrityError, because UNIQUE (entry_rowid, form, script) on table forms
(wn/schema.sql:88) ignores forms.lexicon_rowid.  Each document is valid on its own (no
duplicate form inside any document); without the script attribute (NULL) both versions
install and each view reports its own form.

run:  cd /tmp/wh2/C01 && PYTHONPATH=/tmp/wh2/C01 /venv/bin/python -B _hunt/finding4.py
"""
import os
import tempfile
import wn

wn.config.data_directory = tempfile.mkdtemp()
HEAD = '''<?xml version="1.0" encoding="UTF-8"?>
<!DOCTYPE LexicalResource SYSTEM "http://globalwordnet.github.io/schemas/WN-LMF-1.1.dtd">
<LexicalResource xmlns:dc="https://globalwordnet.github.io/schemas/dc/">
'''


def add(body, name):
    path = os.path.join(wn.config.data_directory, name)
    with open(path, 'w', encoding='utf-8') as f:
        f.write(HEAD + body + '</LexicalResource>\n')
    wn.add(path, progress_handler=None)


BASE = ('<Lexicon id="a" label="A" language="en" email="e" license="l" version="1">'
        '<LexicalEntry id="a-e1"><Lemma writtenForm="wolf" partOfSpeech="n"/></LexicalEntry>'
        '</Lexicon>')
EXT = ('<LexiconExtension id="x" label="X" language="en" email="e" license="l" version="{v}">'
       '<Extends id="a" version="1"/>'
       '<ExternalLexicalEntry id="a-e1"><Form writtenForm="wolves" script="Latn"/>'
       '</ExternalLexicalEntry></LexiconExtension>')
add(BASE, 'a.xml')
add(EXT.format(v='1'), 'x1.xml')
print("EXPECTED  x:2 is added; Wordnet('a:1 x:2').word('a-e1').forms() == ['wolf', 'wolves']")
try:
    add(EXT.format(v='2'), 'x2.xml')
    print('OBSERVED ', [lx.specifier() for lx in wn.lexicons()],
          wn.Wordnet('a:1 x:2').word('a-e1').forms())
except Exception as exc:
    print('OBSERVED  wn.add raised', repr(exc), '; installed:',
          [lx.specifier() for lx in wn.lexicons()])
