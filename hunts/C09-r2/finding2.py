"""C09 finding 2 (history; outside the stated quantifier 'inputs x configurations'):
a Wordnet object keeps the row numbers of its lexicons; lexicons.rowid is a plain
INTEGER PRIMARY KEY, so after wn.remove() the next wn.add() re-uses the number and
the existing Wordnet object's words()/senses()/synsets() return entities of a lexicon
that is not in its lexicons()."""
import os, tempfile
import wn
wn.config.data_directory = tempfile.mkdtemp()
def lex(id, form):
    return f'''<?xml version="1.0" encoding="UTF-8"?>
<!DOCTYPE LexicalResource SYSTEM "http://globalwordnet.github.io/schemas/WN-LMF-1.1.dtd">
<LexicalResource xmlns:dc="https://globalwordnet.github.io/schemas/dc/">
<Lexicon id="{id}" label="x" language="en" email="a@b" license="l" version="1">
<LexicalEntry id="{id}-e"><Lemma partOfSpeech="n" writtenForm="{form}"/><Sense id="{id}-s" synset="{id}-ss"/></LexicalEntry>
<Synset id="{id}-ss" ili="" partOfSpeech="n"/>
</Lexicon></LexicalResource>'''
d = tempfile.mkdtemp()
for id in 'BC':
    open(os.path.join(d, id + '.xml'), 'w').write(lex(id, 'berry'))
wn.add(os.path.join(d, 'B.xml'), progress_handler=None)
wb = wn.Wordnet('B')
wn.remove('B', progress_handler=None)
wn.add(os.path.join(d, 'C.xml'), progress_handler=None)
print('wordnet covers           :', wb.lexicons())
print('EXPECTED words("berry")  : [] (B:1 is gone, C:1 was never selected)')
got = wb.words('berry')
print('OBSERVED words("berry")  :', got, [x.lexicon() for x in got])
print('OBSERVED senses/synsets  :', wb.senses('berry'), wb.synsets('berry'))
print('VIOLATION' if got else 'ok')
