"""C09 finding 1: with a lemmatizer, synsets(form) applies the part of speech the
lemmatizer proposes for the WORD to the SYNSET's part of speech.  For an adjective
word (pos 'a') whose sense lies in a satellite synset (pos 's') - or any word whose
pos differs from its synset's - synsets() loses a synset whose word has exactly the
stored form, although words()/senses() of the same Wordnet find the word and the
same query without lemmatizer finds the synset."""
import os, tempfile
import wn
from wn.morphy import Morphy
wn.config.data_directory = tempfile.mkdtemp()
XML = '''<?xml version="1.0" encoding="UTF-8"?>
<!DOCTYPE LexicalResource SYSTEM "http://globalwordnet.github.io/schemas/WN-LMF-1.1.dtd">
<LexicalResource xmlns:dc="https://globalwordnet.github.io/schemas/dc/">
<Lexicon id="A" label="x" language="en" email="a@b" license="l" version="1">
<LexicalEntry id="big-a"><Lemma partOfSpeech="a" writtenForm="big"/>
  <Sense id="big-a-1" synset="ss-s"/></LexicalEntry>
<Synset id="ss-s" ili="" partOfSpeech="s"/>
</Lexicon>
</LexicalResource>'''
p = os.path.join(tempfile.mkdtemp(), 'a.xml')
open(p, 'w').write(XML)
wn.add(p, progress_handler=None)

plain = wn.Wordnet('A')
w = wn.Wordnet('A')
w.lemmatizer = Morphy(w)                      # Morphy initialized, as in the docs
print('lemmatizer proposes        :', w.lemmatizer('big'))
print('no lemmatizer synsets(big) :', plain.synsets('big'))
print('Morphy  words(big)         :', w.words('big'))
print('Morphy  senses(big)        :', w.senses('big'))
print('Morphy  synsets(big)       :', w.synsets('big'))
expected = [s.synset() for s in w.senses('big')]
print('EXPECTED synsets(big) ==', expected, '(the synset of the word that has the stored form "big")')
print('OBSERVED synsets(big) ==', w.synsets('big'))
print('VIOLATION' if w.synsets('big') != expected else 'ok')
