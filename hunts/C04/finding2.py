"""C04 finding 2: the ILI objects obtained from a Wordnet restricted to lexicon A
(definition text, and the order of Wordnet.ilis()) depend on lexicons OUTSIDE the
selection that happened to be added to the database earlier.

Run: cd /tmp/wh/C04 && PYTHONPATH=/tmp/wh/C04 /venv/bin/python -B _hunt/finding2.py
"""
import tempfile
from pathlib import Path
import wn

d = Path(tempfile.mkdtemp())
HEAD = ('<?xml version="1.0" encoding="UTF-8"?>\n'
        '<!DOCTYPE LexicalResource SYSTEM "http://globalwordnet.github.io/schemas/WN-LMF-1.1.dtd">\n'
        '<LexicalResource xmlns:dc="https://globalwordnet.github.io/schemas/dc/">\n')
A = HEAD + '''
<Lexicon id="A" label="A" language="en" email="e" license="l" version="1">
  <LexicalEntry id="a-w1"><Lemma partOfSpeech="n" writtenForm="one"/><Sense id="a-w1-1" synset="a-ss1"/></LexicalEntry>
  <LexicalEntry id="a-w2"><Lemma partOfSpeech="n" writtenForm="two"/><Sense id="a-w2-1" synset="a-ss2"/></LexicalEntry>
  <Synset id="a-ss1" ili="i1" partOfSpeech="n"><ILIDefinition>definition of i1 written by A</ILIDefinition></Synset>
  <Synset id="a-ss2" ili="i2" partOfSpeech="n"/>
</Lexicon>
</LexicalResource>'''
B = HEAD + '''
<Lexicon id="B" label="B" language="de" email="e" license="l" version="1">
  <LexicalEntry id="b-w2"><Lemma partOfSpeech="n" writtenForm="zwei"/><Sense id="b-w2-1" synset="b-ss2"/></LexicalEntry>
  <LexicalEntry id="b-w1"><Lemma partOfSpeech="n" writtenForm="eins"/><Sense id="b-w1-1" synset="b-ss1"/></LexicalEntry>
  <Synset id="b-ss2" ili="i2" partOfSpeech="n"><ILIDefinition>definition of i2 written by B</ILIDefinition></Synset>
  <Synset id="b-ss1" ili="i1" partOfSpeech="n"/>
</Lexicon>
</LexicalResource>'''
(d / 'A.xml').write_text(A)
(d / 'B.xml').write_text(B)


def observe(order, remove=()):
    wn.config.data_directory = tempfile.mkdtemp()
    for x in order:
        wn.add(d / f'{x}.xml', progress_handler=None)
    for x in remove:
        wn.remove(x, progress_handler=None)
    w = wn.Wordnet('A:1')
    return {
        'ilis()': [i.id for i in w.ilis()],
        "ili('i1').definition()": w.ili('i1').definition(),
        "synset('a-ss1').ili.definition()": w.synset('a-ss1').ili.definition(),
        "synset('a-ss2').ili.definition()": w.synset('a-ss2').ili.definition(),
    }


expected = observe(['A'])
histories = {
    'add A, add B': observe(['A', 'B']),
    'add B, add A': observe(['B', 'A']),
    'add B, add A, remove B': observe(['B', 'A'], remove=['B:1']),
}
print('Wordnet("A:1") -- EXPECTED (database holds only A:1):')
for k, v in expected.items():
    print(f'    {k:36} {v!r}')
bad = False
for h, obs in histories.items():
    print(f'OBSERVED with history [{h}]:')
    for k, v in obs.items():
        flag = '' if v == expected[k] else '   <-- differs'
        bad |= bool(flag)
        print(f'    {k:36} {v!r}{flag}')
print('\nPROPERTY', 'VIOLATED' if bad else 'HOLDS')
