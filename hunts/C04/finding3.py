"""C04 finding 3 (default mode): multi-step navigation from an entity of extension X
walks into the SIBLING extension Y (another extension of the same base), although Y
is neither X's own lexicon, nor a lexicon X extends, nor an extension of X.

Run: cd /tmp/wh/C04 && PYTHONPATH=/tmp/wh/C04 /venv/bin/python -B _hunt/finding3.py
"""
import tempfile
from pathlib import Path
import wn

wn.config.data_directory = tempfile.mkdtemp()
d = Path(tempfile.mkdtemp())
HEAD = ('<?xml version="1.0" encoding="UTF-8"?>\n'
        '<!DOCTYPE LexicalResource SYSTEM "http://globalwordnet.github.io/schemas/WN-LMF-1.1.dtd">\n'
        '<LexicalResource xmlns:dc="https://globalwordnet.github.io/schemas/dc/">\n')
BASE = HEAD + '''
<Lexicon id="base" label="base" language="en" email="e" license="l" version="1">
  <LexicalEntry id="b-w1"><Lemma partOfSpeech="n" writtenForm="dog"/><Sense id="b-w1-1" synset="b-dog">
     <SenseRelation relType="similar" target="b-w2-1"/></Sense></LexicalEntry>
  <LexicalEntry id="b-w2"><Lemma partOfSpeech="n" writtenForm="animal"/><Sense id="b-w2-1" synset="b-animal"/></LexicalEntry>
  <Synset id="b-dog" ili="i1" partOfSpeech="n"><SynsetRelation relType="hypernym" target="b-animal"/></Synset>
  <Synset id="b-animal" ili="i2" partOfSpeech="n"/>
</Lexicon></LexicalResource>'''
X = HEAD + '''
<LexiconExtension id="X" label="X" language="en" email="e" license="l" version="1">
  <Extends id="base" version="1"/>
  <ExternalLexicalEntry id="b-w1"><ExternalSense id="b-w1-1"/></ExternalLexicalEntry>
  <LexicalEntry id="x-w1"><Lemma partOfSpeech="n" writtenForm="puppy"/><Sense id="x-w1-1" synset="x-puppy">
     <SenseRelation relType="similar" target="b-w1-1"/></Sense></LexicalEntry>
  <ExternalSynset id="b-dog"/>
  <Synset id="x-puppy" ili="i3" partOfSpeech="n"><SynsetRelation relType="hypernym" target="b-dog"/></Synset>
</LexiconExtension></LexicalResource>'''
Y = HEAD + '''
<LexiconExtension id="Y" label="Y" language="en" email="e" license="l" version="1">
  <Extends id="base" version="1"/>
  <ExternalLexicalEntry id="b-w2"><ExternalSense id="b-w2-1">
     <SenseRelation relType="similar" target="y-w1-1"/></ExternalSense></ExternalLexicalEntry>
  <LexicalEntry id="y-w1"><Lemma partOfSpeech="n" writtenForm="being"/><Sense id="y-w1-1" synset="y-being"/></LexicalEntry>
  <ExternalSynset id="b-animal"><SynsetRelation relType="hypernym" target="y-being"/></ExternalSynset>
  <Synset id="y-being" ili="i4" partOfSpeech="n"/>
</LexiconExtension></LexicalResource>'''
for name, text in (('base', BASE), ('X', X), ('Y', Y)):
    (d / f'{name}.xml').write_text(text)
    wn.add(d / f'{name}.xml', progress_handler=None)


def lex(e):
    return e.lexicon().specifier()


puppy = wn.synset('x-puppy')            # default mode: wn.Wordnet()
sense = wn.sense('x-w1-1')
fam = {'X:1', 'base:1'}
print("family of X:1 per Wordnet default mode (own + bases + extensions of X):", sorted(fam))
results = {
    "wn.synset('x-puppy').closure('hypernym')": list(puppy.closure('hypernym')),
    "wn.synset('x-puppy').hypernym_paths()[0]": puppy.hypernym_paths()[0],
    "wn.synset('x-puppy').max_depth()": puppy.max_depth(),
    "wn.sense('x-w1-1').closure('similar')": list(sense.closure('similar')),
}
ref = wn.Wordnet('base:1 X:1')
expected = {
    "wn.synset('x-puppy').closure('hypernym')": list(ref.synset('x-puppy').closure('hypernym')),
    "wn.synset('x-puppy').hypernym_paths()[0]": ref.synset('x-puppy').hypernym_paths()[0],
    "wn.synset('x-puppy').max_depth()": ref.synset('x-puppy').max_depth(),
    "wn.sense('x-w1-1').closure('similar')": list(ref.sense('x-w1-1').closure('similar')),
}
bad = False
for k, v in results.items():
    print(k)
    show = lambda r: [(x.id, lex(x)) for x in r] if isinstance(r, list) else r
    print('    EXPECTED (stay inside base:1 + X:1):', show(expected[k]))
    print('    OBSERVED                           :', show(v))
    if isinstance(v, list):
        out = [x.id for x in v if lex(x) not in fam]
        if out:
            bad = True
            print('    -> outside the family:', out)
    elif v != expected[k]:
        bad = True
print('\none-step navigation does stay inside:',
      [(x.id, lex(x)) for x in puppy.hypernyms()],
      [(x.id, lex(x)) for x in sense.get_related()])
print('PROPERTY', 'VIOLATED' if bad else 'HOLDS')
