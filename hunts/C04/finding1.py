"""C04 finding 1: tags / pronunciations written by an UNSELECTED lexicon extension
show up on the forms of a Wordnet restricted to the base lexicon -- and stay there
even after the extension has been removed again.

Run: cd /tmp/wh/C04 && PYTHONPATH=/tmp/wh/C04 /venv/bin/python -B _hunt/finding1.py
"""
import tempfile
from pathlib import Path
import wn

wn.config.data_directory = tempfile.mkdtemp()
d = Path(tempfile.mkdtemp())
HEAD = ('<?xml version="1.0" encoding="UTF-8"?>\n'
        '<!DOCTYPE LexicalResource SYSTEM "http://globalwordnet.github.io/schemas/WN-LMF-1.1.dtd">\n'
        '<LexicalResource xmlns:dc="https://globalwordnet.github.io/schemas/dc/">\n')
BASE = HEAD + '''
<Lexicon id="base" label="base" language="en" email="e" license="l" version="1">
  <LexicalEntry id="b-cat-n">
    <Lemma partOfSpeech="n" writtenForm="cat"><Tag category="num">sg</Tag></Lemma>
    <Form id="b-cat-n-pl" writtenForm="cats"><Tag category="num">pl</Tag></Form>
    <Sense id="b-cat-n-1" synset="b-ss1"/>
  </LexicalEntry>
  <Synset id="b-ss1" ili="i1" partOfSpeech="n"/>
</Lexicon>
</LexicalResource>'''
EXT = HEAD + '''
<LexiconExtension id="ext" label="ext" language="en" email="e" license="l" version="1">
  <Extends id="base" version="1"/>
  <ExternalLexicalEntry id="b-cat-n">
    <ExternalLemma>
      <Pronunciation variety="GB">EXT-kat</Pronunciation>
      <Tag category="ext">EXT-lemma-tag</Tag>
    </ExternalLemma>
    <!-- a NEW form owned by the extension, with its own tag -->
    <Form id="x-cat-n-kitty" writtenForm="kitty"><Tag category="ext">EXT-tag-of-kitty</Tag></Form>
    <ExternalForm id="b-cat-n-pl"><Tag category="ext">EXT-plural-tag</Tag></ExternalForm>
  </ExternalLexicalEntry>
</LexiconExtension>
</LexicalResource>'''
(d / 'base.xml').write_text(BASE)
(d / 'ext.xml').write_text(EXT)


def show(w):
    return [(str(f), [(t.tag, t.category) for t in f.tags()],
             [p.value for p in f.pronunciations()])
            for f in w.word('b-cat-n').forms()]


wn.add(d / 'base.xml', progress_handler=None)
before = show(wn.Wordnet('base:1'))
wn.add(d / 'ext.xml', progress_handler=None)
after_add = show(wn.Wordnet('base:1'))
both = show(wn.Wordnet('base:1 ext:1'))
wn.remove('ext:1', progress_handler=None)
after_remove = show(wn.Wordnet('base:1'))
wn.add(d / 'ext.xml', progress_handler=None)
wn.remove('ext:1', progress_handler=None)
after_2nd_cycle = show(wn.Wordnet('base:1'))

print('Wordnet("base:1").word("b-cat-n").forms() -> (form, tags, pronunciations)')
print('EXPECTED (always, ext:1 is never selected):')
print('   ', before)
print('OBSERVED after wn.add(ext):')
print('   ', after_add)
print('OBSERVED after wn.remove("ext:1") (extension is gone from the database):')
print('   ', after_remove)
print('OBSERVED after a second add/remove cycle of ext:1:')
print('   ', after_2nd_cycle)
print()
print('Side effect of the same root cause, with base AND ext selected:')
print('    EXPECTED the tag EXT-tag-of-kitty on the form "kitty"')
print('    OBSERVED', both)
ok = before == after_add == after_remove == after_2nd_cycle
print('\nPROPERTY', 'HOLDS' if ok else 'VIOLATED')
