"""C03 / borderline: export collapses repeated (identical) relations.

A DTD-valid lexicon may state the same relation twice (wn.validate only
*warns*: W403 'redundant relation').  wn.add stores both rows; wn.export
reads relations through SELECT DISTINCT (get_synset_relations,
get_sense_relations, get_sense_synset_relations in wn/_queries.py) and so
writes only one.  The exported file therefore does not hold 'the same ...
relations with their metadata', and re-adding it gives a database with
fewer rows in synset_relations / sense_relations / sense_synset_relations.
"""
import os, sqlite3, tempfile
import wn
from wn import lmf

SRC = '''<?xml version="1.0" encoding="UTF-8"?>
<!DOCTYPE LexicalResource SYSTEM "http://globalwordnet.github.io/schemas/WN-LMF-1.0.dtd">
<LexicalResource xmlns:dc="http://purl.org/dc/elements/1.1/">
  <Lexicon id="a" label="A" language="en" email="e@x" license="l" version="1">
    <LexicalEntry id="e1"><Lemma writtenForm="one" partOfSpeech="n"/>
      <Sense id="s1" synset="ss1">
        <SenseRelation relType="antonym" target="s2"/>
        <SenseRelation relType="antonym" target="s2"/>
        <SenseRelation relType="domain_topic" target="ss2"/>
        <SenseRelation relType="domain_topic" target="ss2"/>
      </Sense>
    </LexicalEntry>
    <LexicalEntry id="e2"><Lemma writtenForm="two" partOfSpeech="n"/>
      <Sense id="s2" synset="ss2"/>
    </LexicalEntry>
    <Synset id="ss1" ili="" partOfSpeech="n">
      <SynsetRelation relType="hypernym" target="ss2"/>
      <SynsetRelation relType="hypernym" target="ss2"/>
    </Synset>
    <Synset id="ss2" ili="" partOfSpeech="n"/>
  </Lexicon>
</LexicalResource>
'''


def counts(res):
    lex = res['lexicons'][0]
    return {
        'sense relations of s1': len(lex['entries'][0]['senses'][0].get('relations', [])),
        'synset relations of ss1': len(lex['synsets'][0].get('relations', [])),
    }


def rows():
    conn = sqlite3.connect(str(wn.config.database_path))
    r = {t: conn.execute(f'SELECT count(*) FROM {t}').fetchone()[0]
         for t in ('synset_relations', 'sense_relations', 'sense_synset_relations')}
    conn.close()
    return r


tmp = tempfile.mkdtemp()
src = os.path.join(tmp, 'src.xml')
open(src, 'w', encoding='utf-8').write(SRC)

wn.config.data_directory = tempfile.mkdtemp()
wn.add(src, progress_handler=None)
rows_before = rows()
for version in ('1.0', '1.3'):
    out = os.path.join(tmp, f'out-{version}.xml')
    wn.export(wn.lexicons(lexicon='a:1'), out, version=version)
    print(f'export version {version}')
    print('  EXPECTED (as in the source document):', counts(lmf.load(src, progress_handler=None)))
    print('  OBSERVED (in the exported document) :', counts(lmf.load(out, progress_handler=None)))

wn.config.data_directory = tempfile.mkdtemp()
wn.add(out, progress_handler=None)
print('relation rows, database built from the source  (EXPECTED):', rows_before)
print('relation rows, database built from the export  (OBSERVED):', rows())
