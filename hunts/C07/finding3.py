"""C07 finding 3: an additional XML file that declares UTF-8 but is not UTF-8 on
its second line crashes package/collection detection with UnicodeDecodeError.

Run:  cd /tmp/wh/C07 && PYTHONPATH=/tmp/wh/C07 /venv/bin/python -B _hunt/finding3.py
"""
import sys, tempfile; sys.path.insert(0, '/tmp/wh/C07/_hunt')
from pathlib import Path
from _common import *
from wn import lmf

wd = Path(tempfile.mkdtemp())
pkg = wd / 'coll' / 'pkg'; pkg.mkdir(parents=True)
(pkg / 'wn.xml').write_bytes(doc(lexicon('a', '1')))
fresh_db(); base = try_add(pkg / 'wn.xml')
# e.g. an editor-produced metadata file saved as Latin-1 with the stock UTF-8 declaration
(pkg / 'metadata.xml').write_bytes(
    b'<?xml version="1.0" encoding="UTF-8"?>\n<!-- caf\xe9 wordnet -->\n<meta/>\n')
fresh_db(); as_pkg = try_add(pkg)
fresh_db(); as_coll = try_add(wd / 'coll')
try:
    is_lmf = lmf.is_lmf(pkg / 'metadata.xml')
except Exception as exc:
    is_lmf = f'raises {type(exc).__name__}'
print('EXPECTED: lmf.is_lmf(metadata.xml) -> False; package and collection ->', base)
print('OBSERVED: lmf.is_lmf(metadata.xml) ->', is_lmf)
print('          package directory        ->', as_pkg)
print('          collection directory     ->', as_coll)
print('VIOLATION REPRODUCED' if as_pkg != base else 'not reproduced')
