"""C07 finding 4: a tar archive of a package is refused when any member name merely
contains the substring '..' (no path traversal involved), while the package
directory itself is accepted.

Run:  cd /tmp/wh/C07 && PYTHONPATH=/tmp/wh/C07 /venv/bin/python -B _hunt/finding4.py
"""
import sys, tempfile, tarfile; sys.path.insert(0, '/tmp/wh/C07/_hunt')
from pathlib import Path
from _common import *

wd = Path(tempfile.mkdtemp())
pkg = wd / 'pkg'; pkg.mkdir()
(pkg / 'wn.xml').write_bytes(doc(lexicon('a', '1')))
(pkg / 'notes..txt').write_text('to do...')        # also e.g. "wn-1.0..beta.xml", "etc...md"
for ext, mode in (('tar', 'w'), ('tar.gz', 'w:gz'), ('tar.xz', 'w:xz')):
    with tarfile.open(wd / f'pkg.{ext}', mode) as t:
        t.add(pkg, arcname='pkg')
fresh_db(); d = try_add(pkg)
print('EXPECTED: every route ->', d)
print('OBSERVED: package directory ->', d)
bad = False
for ext in ('tar', 'tar.gz', 'tar.xz'):
    fresh_db(); r = try_add(wd / f'pkg.{ext}')
    bad = bad or r != d
    print(f'          pkg.{ext:7}->', r)
print('VIOLATION REPRODUCED' if bad else 'not reproduced')
