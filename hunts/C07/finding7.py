"""C07 finding 7 (borderline): a resource that lists a LexiconExtension BEFORE its base
Lexicon (the DTD allows any order) gets only the base installed; the extension is
reported as 'base lexicon not available' although the base is in the same resource.
Adding the very same resource a second time then installs the extension, so
repeating the add is not a no-op.

Run:  cd /tmp/wh/C07 && PYTHONPATH=/tmp/wh/C07 /venv/bin/python -B _hunt/finding7.py
"""
import sys, tempfile; sys.path.insert(0, '/tmp/wh/C07/_hunt')
from pathlib import Path
from _common import *
from wn import lmf

EXT = '''<LexiconExtension id="e" label="E" language="en" email="a@b" license="x" version="1">
<Extends id="b" version="1"/>
<LexicalEntry id="e-e1"><Lemma writtenForm="v" partOfSpeech="n"/><Sense id="e-s1" synset="b-ss1"/></LexicalEntry>
<ExternalSynset id="b-ss1"/>
</LexiconExtension>'''
wd = Path(tempfile.mkdtemp())
be = wd / 'be.xml'; be.write_bytes(doc(lexicon('b', '1'), EXT))
eb = wd / 'eb.xml'; eb.write_bytes(doc(EXT, lexicon('b', '1')))
fresh_db(); r_be = try_add(be)
fresh_db(); r_eb1 = try_add(eb); r_eb2 = try_add(eb)
fresh_db()
res = lmf.load(eb, progress_handler=None)
wn.add_lexical_resource(res, progress_handler=None); m1 = [l.specifier() for l in wn.lexicons()]
wn.add_lexical_resource(res, progress_handler=None); m2 = [l.specifier() for l in wn.lexicons()]
print('EXPECTED: both lexicons installed by one add, a second add changes nothing:', r_be)
print('OBSERVED: file [base, ext]  add once  ->', r_be)
print('          file [ext, base]  add once  ->', r_eb1)
print('          file [ext, base]  add twice ->', r_eb2)
print('          in-memory [ext, base] once / twice ->', m1, '/', m2)
print('VIOLATION REPRODUCED' if r_eb1 != r_be or r_eb1 != r_eb2 else 'not reproduced')
