"""Helpers shared by the finding scripts (no dependency on the exploration harness)."""
import tempfile
from pathlib import Path
import wn, wn._db

HEAD = ('<?xml version="1.0" encoding="UTF-8"?>\n'
        '<!DOCTYPE LexicalResource SYSTEM "http://globalwordnet.github.io/schemas/WN-LMF-1.1.dtd">\n'
        '<LexicalResource xmlns:dc="https://globalwordnet.github.io/schemas/dc/">\n')


def lexicon(id, version, p=None):
    p = p or id.replace(':', '_')
    return f'''<Lexicon id="{id}" label="L" language="en" email="a@b" license="x" version="{version}">
<LexicalEntry id="{p}-e1"><Lemma writtenForm="w" partOfSpeech="n"/><Sense id="{p}-s1" synset="{p}-ss1"/></LexicalEntry>
<Synset id="{p}-ss1" ili="i1" partOfSpeech="n"/>
</Lexicon>'''


def doc(*lexicons):
    return (HEAD + '\n'.join(lexicons) + '\n</LexicalResource>\n').encode()


def fresh_db():
    for c in wn._db.pool.values():
        c.close()
    wn._db.pool.clear()
    wn.config.data_directory = tempfile.mkdtemp()


def try_add(source):
    try:
        wn.add(source, progress_handler=None)
    except Exception as exc:
        return f'raises {type(exc).__name__}: {exc}'
    return 'installed ' + str([lex.specifier() for lex in wn.lexicons()])
