"""C07 finding 6: expanduser() is applied to the children that iterdir() yields.  With
a relative source such as '.', a child whose name starts with '~' (MS-Office lock
file '~$README.docx', '~backup', ...) is tilde-expanded: wn.add('.') raises
RuntimeError although the very same directory is accepted by absolute path.

Run:  cd /tmp/wh/C07 && PYTHONPATH=/tmp/wh/C07 /venv/bin/python -B _hunt/finding6.py
"""
import sys, os, tempfile; sys.path.insert(0, '/tmp/wh/C07/_hunt')
from pathlib import Path
from _common import *

wd = Path(tempfile.mkdtemp())
pkg = wd / 'pkg'; pkg.mkdir()
(pkg / 'wn.xml').write_bytes(doc(lexicon('a', '1')))
(pkg / '~$README.docx').write_text('lock file')
fresh_db(); a = try_add(pkg)
cwd = os.getcwd()
os.chdir(pkg)
try:
    fresh_db(); b = try_add('.')
    os.chdir(wd)
    fresh_db(); c = try_add('pkg')
finally:
    os.chdir(cwd)
print('EXPECTED: the same package directory, however it is named ->', a)
print("OBSERVED: wn.add('/abs/path/pkg')     ->", a)
print("          wn.add('pkg')  (cwd=parent) ->", c)
print("          wn.add('.')    (cwd=pkg)    ->", b)
print('VIOLATION REPRODUCED' if b != a else 'not reproduced')
