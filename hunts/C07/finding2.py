"""C07 finding 2: an additional TSV file whose header starts with 'ili' makes a
valid package directory unusable.

Run:  cd /tmp/wh/C07 && PYTHONPATH=/tmp/wh/C07 /venv/bin/python -B _hunt/finding2.py
"""
import sys, tempfile; sys.path.insert(0, '/tmp/wh/C07/_hunt')
from pathlib import Path
from _common import *

wd = Path(tempfile.mkdtemp())
pkg = wd / 'pkg'; pkg.mkdir()
(pkg / 'wn.xml').write_bytes(doc(lexicon('a', '1')))
(pkg / 'README.md').write_text('readme')
fresh_db(); base = try_add(pkg / 'wn.xml')
fresh_db(); plain = try_add(pkg)
# an extra file documenting the synset <-> ILI mapping of the wordnet
(pkg / 'ili-map.tsv').write_text('ili\tsynset\ni1\ta-ss1\n')
fresh_db(); observed = try_add(pkg)
fresh_db(); xmlroute = try_add(pkg / 'wn.xml')
print('EXPECTED: package directory with the extra file ->', base)
print('OBSERVED: XML file alone                        ->', xmlroute)
print('          package dir, README only              ->', plain)
print('          package dir + ili-map.tsv             ->', observed)
print('VIOLATION REPRODUCED' if observed != base else 'not reproduced')
