"""C07 finding 5: the skip map of the pre-scan is keyed by f"{id}:{version}", so two
different lexicons whose id/version contain ':' collide.  Re-adding an installed
lexicon then raises IntegrityError (and nothing else from the file is added)
instead of being skipped.

Run:  cd /tmp/wh/C07 && PYTHONPATH=/tmp/wh/C07 /venv/bin/python -B _hunt/finding5.py
"""
import sys, tempfile; sys.path.insert(0, '/tmp/wh/C07/_hunt')
from pathlib import Path
from _common import *
from wn import lmf

wd = Path(tempfile.mkdtemp())
one = wd / 'one.xml'; one.write_bytes(doc(lexicon('a:b', '1')))
two = wd / 'two.xml'; two.write_bytes(doc(lexicon('a:b', '1'), lexicon('a', 'b:1')))
print('EXPECTED: add(one.xml); add(two.xml) -> a:b:1 skipped (already installed), the other lexicon added')
fresh_db()
print('OBSERVED: add(one.xml)             ->', try_add(one))
r = try_add(two)
print('          add(two.xml)             ->', r)
print('          lexicons afterwards      ->', [(l.id, l.version) for l in wn.lexicons()])
fresh_db(); wn.add(one, progress_handler=None)
try:
    wn.add_lexical_resource(lmf.load(two, progress_handler=None), progress_handler=None); m = 'ok'
except Exception as exc:
    m = f'raises {type(exc).__name__}: {exc}'
print('          in-memory route          ->', m)
fresh_db()
print('          add(two.xml) on empty db ->', try_add(two))
print('VIOLATION REPRODUCED' if r.startswith('raises') else 'not reproduced')
