"""C07 finding 1: packages of a collection are installed in os.listdir() order.

Two byte-identical collections (or a collection directory and a tar archive of
it) are installed in a different order when the directory listing order differs
(file system, creation order, TMPDIR).  The installation order is observable:
wn.lexicons() order, default-mode result order and - since a bare lexicon id
resolves to the most recently added version - which lexicon wn.Wordnet('a') is.

Run:  cd /tmp/wh/C07 && PYTHONPATH=/tmp/wh/C07 /venv/bin/python -B _hunt/finding1.py
"""
import os, shutil, tarfile, tempfile, filecmp
from pathlib import Path
import wn, wn._db

HEAD = ('<?xml version="1.0" encoding="UTF-8"?>\n'
        '<!DOCTYPE LexicalResource SYSTEM "http://globalwordnet.github.io/schemas/WN-LMF-1.1.dtd">\n'
        '<LexicalResource xmlns:dc="https://globalwordnet.github.io/schemas/dc/">\n')


def xml(version):
    return (HEAD + f'''<Lexicon id="a" label="A {version}" language="en" email="a@b" license="x" version="{version}">
<LexicalEntry id="a-e1"><Lemma writtenForm="w" partOfSpeech="n"/><Sense id="a-s1" synset="a-ss1"/></LexicalEntry>
<Synset id="a-ss1" ili="i1" partOfSpeech="n"/>
</Lexicon></LexicalResource>''').encode()


def make_collection(root: Path, creation_order):
    root.mkdir(parents=True)
    for name in creation_order:
        (root / name).mkdir()
        (root / name / 'wn.xml').write_bytes(xml({'p1': '1', 'p2': '2'}[name]))


def fresh_db():
    for c in wn._db.pool.values():
        c.close()
    wn._db.pool.clear()
    wn.config.data_directory = tempfile.mkdtemp()


def observe(source):
    fresh_db()
    wn.add(source, progress_handler=None)
    return ([lex.specifier() for lex in wn.lexicons()],
            wn.Wordnet('a').lexicons()[0].specifier())


def same_tree(a: Path, b: Path):
    c = filecmp.dircmp(a, b)
    return not (c.left_only or c.right_only or c.diff_files) and all(
        filecmp.cmp(a / d / 'wn.xml', b / d / 'wn.xml', shallow=False) for d in ('p1', 'p2'))


reproduced = False
bases = [b for b in ('/dev/shm', tempfile.gettempdir()) if os.access(b, os.W_OK)]
for base in bases:
    work = Path(tempfile.mkdtemp(dir=base))
    try:
        c1, c2 = work / 'one' / 'coll', work / 'two' / 'coll'
        make_collection(c1, ['p1', 'p2'])
        make_collection(c2, ['p2', 'p1'])
        assert same_tree(c1, c2)
        print(f'--- scratch on {base}: listdir(one)={os.listdir(c1)} listdir(two)={os.listdir(c2)}')
        o1, o2 = observe(c1), observe(c2)
        # tar archive of collection "one"; extracted under the same scratch fs
        tar = work / 'coll.tar.gz'
        with tarfile.open(tar, 'w:gz') as t:
            t.add(c1, arcname='coll')           # members sorted: coll/p1, coll/p2
        old = tempfile.tempdir
        tempfile.tempdir = str(work)             # where wn extracts the archive
        try:
            o3 = observe(tar)
        finally:
            tempfile.tempdir = old
        print('EXPECTED: the three identical collections give the same lexicon order and the same Wordnet("a")')
        print('OBSERVED: directory one     ->', o1)
        print('          directory two     ->', o2, '(same files, created in the other order)')
        print('          tar.gz of dir one ->', o3)
        if len({repr(o1), repr(o2), repr(o3)}) > 1:
            reproduced = True
    finally:
        shutil.rmtree(work, ignore_errors=True)
# the same collection as a directory and as a tar archive of that directory,
# with the archive unpacked on another file system (TMPDIR)
if len(bases) == 2:
    work = Path(tempfile.mkdtemp(dir=bases[1]))
    shm = Path(tempfile.mkdtemp(dir=bases[0]))
    try:
        c = work / 'coll'
        make_collection(c, ['p1', 'p2'])
        tar = work / 'coll.tar'
        with tarfile.open(tar, 'w') as t:
            t.add(c, arcname='coll')
        od = observe(c)
        old = tempfile.tempdir
        tempfile.tempdir = str(shm)
        try:
            ot = observe(tar)
        finally:
            tempfile.tempdir = old
        print(f'--- directory on {bases[1]} vs. tar of it with TMPDIR on {bases[0]}')
        print('EXPECTED: same result for the directory and the tar archive of it')
        print('OBSERVED: directory ->', od)
        print('          tar       ->', ot)
        reproduced = reproduced or od != ot
    finally:
        shutil.rmtree(work, ignore_errors=True)
        shutil.rmtree(shm, ignore_errors=True)
print('VIOLATION REPRODUCED' if reproduced else
      'not reproduced here: this file system lists both directories in the same order')
