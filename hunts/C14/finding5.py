"""Information-content metrics cannot be used on an expanded-mode graph:
wn.ic.compute() and res/jcn/lin die with KeyError('*INFERRED*') as soon as a
hypernym is a placeholder synset.

Expand lexicon pwn:  p2 -> p1 <- p3      (ILIs i2, i3, i1)
Local lexicon  xx :  x2 (i2), x3 (i3), Requires pwn; no relations of its own.
x2 and x3 do have a (lowest) common hypernym: the placeholder for i1;
path/wup/lch work on this pair.
"""
import sys, tempfile
sys.path.insert(0, '/tmp/wh/C14/_hunt')
import hlib, wn, wn.ic
from wn import similarity as sim

wn.config.data_directory = tempfile.mkdtemp()
hlib.add(hlib.lexicon_xml('pwn', [
    {'id': 'p1', 'ili': 'i1', 'lemma': 'p1'},
    {'id': 'p2', 'ili': 'i2', 'lemma': 'p2', 'hyp': ['p1']},
    {'id': 'p3', 'ili': 'i3', 'lemma': 'p3', 'hyp': ['p1']},
]))
hlib.add(hlib.lexicon_xml('xx', [{'id': 'x2', 'ili': 'i2', 'lemma': 'x2'},
                                 {'id': 'x3', 'ili': 'i3', 'lemma': 'x3'}],
                          requires=('pwn', '1'), lang='fr'))
w = wn.Wordnet('xx')
x2, x3 = w.synset('x2'), w.synset('x3')
print('lowest common hypernyms:', x2.lowest_common_hypernyms(x3), ' path =', sim.path(x2, x3),
      ' wup =', sim.wup(x2, x3))

print('wn.ic.compute(["x2","x3"], w): EXPECTED a Freq mapping  OBSERVED ', end='')
try:
    print(wn.ic.compute(['x2', 'x3'], w))
except Exception as e:
    print(f'{type(e).__name__}: {e!r}')

freq = {'n': {'x2': 1.0, 'x3': 2.0, None: 4.0}, 'v': {None: 1.0}, 'a': {None: 1.0}, 'r': {None: 1.0}}
for f in (sim.res, sim.jcn, sim.lin):
    print(f'{f.__name__}(x2, x3, freq): EXPECTED a value (or wn.Error)  OBSERVED ', end='')
    try:
        print(f(x2, x3, freq))
    except wn.Error as e:
        print('wn.Error', e)
    except Exception as e:
        print(f'{type(e).__name__}: {e!r}')
