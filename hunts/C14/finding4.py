"""A placeholder ('*INFERRED*') hypernym is a different node per source lexicon,
so a synset of a lexicon and a synset of its extension (or of a second lexicon
of the same Wordnet) that are siblings under the same ILI are "unconnected".

Expand lexicon pwn:  p2 -> p1 <- p3,  p1 -> p0    (ILIs i2, i3, i1, i0)
Lexicon xx (Requires pwn):          x2 (i2), x3 (i3)
LexiconExtension xe (Extends xx):   e3 (i3)            no relations of their own

x3 and e3 sit at exactly the same place of the graph (ILI i3), so
path(x2, e3) must equal path(x2, x3) = 1/(2+1);  wup 2*2/(1+1+2*2) = 2/3.
"""
import sys, tempfile
sys.path.insert(0, '/tmp/wh/C14/_hunt')
import hlib, wn
from wn import similarity as sim

wn.config.data_directory = tempfile.mkdtemp()
hlib.add(hlib.lexicon_xml('pwn', [
    {'id': 'p0', 'ili': 'i0', 'lemma': 'p0'},
    {'id': 'p1', 'ili': 'i1', 'lemma': 'p1', 'hyp': ['p0']},
    {'id': 'p2', 'ili': 'i2', 'lemma': 'p2', 'hyp': ['p1']},
    {'id': 'p3', 'ili': 'i3', 'lemma': 'p3', 'hyp': ['p1']},
]))
hlib.add(hlib.lexicon_xml('xx', [{'id': 'x2', 'ili': 'i2', 'lemma': 'x2'},
                                 {'id': 'x3', 'ili': 'i3', 'lemma': 'x3'}],
                          requires=('pwn', '1'), lang='fr'))
hlib.add(hlib.lexicon_xml('xe', [{'id': 'e3', 'ili': 'i3', 'lemma': 'e3'}],
                          extends=('xx', '1'), lang='fr'))
hlib.add(hlib.lexicon_xml('yy', [{'id': 'y3', 'ili': 'i3', 'lemma': 'y3'}],
                          requires=('pwn', '1'), lang='fr'))


def show(label, f, a, b, exp, **kw):
    try:
        got = f(a, b, **kw)
    except wn.Error as e:
        got = f'wn.Error({e})'
    print(f'  {label}: EXPECTED {exp!r}  OBSERVED {got!r}')


for label, get, other in (
    ('Wordnet("xx xe") [lexicon + its extension]', wn.Wordnet('xx xe').synset, 'e3'),
    ('default mode wn.synset() [lexicon + its extension]', wn.synset, 'e3'),
    ('Wordnet("xx yy") [two lexicons, same expand lexicon]', wn.Wordnet('xx yy').synset, 'y3'),
):
    x2, x3, o3 = get('x2'), get('x3'), get(other)
    print(label)
    print('  reference (same lexicon): path(x2,x3) =', sim.path(x2, x3), ' wup(x2,x3) =', sim.wup(x2, x3))
    show(f'path(x2,{other})', sim.path, x2, o3, 1 / 3)
    show(f'wup(x2,{other})', sim.wup, x2, o3, 2 / 3)
    show(f'lch(x2,{other},3)', sim.lch, x2, o3, sim.lch(x2, x3, 3), max_depth=3)
    show(f'path(x2,{other},simulate_root=True)', sim.path, x2, o3, 1 / 3, simulate_root=True)

# Variant: the root i0 does have a local synset, so the pair IS connected, but
# through a detour: the two copies of the i1 placeholder are not merged.
hlib.add(hlib.lexicon_xml('pw2', [
    {'id': 'q0', 'ili': 'j0', 'lemma': 'q0'},
    {'id': 'q1', 'ili': 'j1', 'lemma': 'q1', 'hyp': ['q0']},
    {'id': 'q2', 'ili': 'j2', 'lemma': 'q2', 'hyp': ['q1']},
    {'id': 'q3', 'ili': 'j3', 'lemma': 'q3', 'hyp': ['q1']},
]))
hlib.add(hlib.lexicon_xml('zz', [{'id': 'z0', 'ili': 'j0', 'lemma': 'z0'},
                                 {'id': 'z2', 'ili': 'j2', 'lemma': 'z2'},
                                 {'id': 'z3', 'ili': 'j3', 'lemma': 'z3'}],
                          requires=('pw2', '1'), lang='fr'))
hlib.add(hlib.lexicon_xml('ze', [{'id': 'f3', 'ili': 'j3', 'lemma': 'f3'}],
                          extends=('zz', '1'), lang='fr'))
w = wn.Wordnet('zz ze')
z2, z3, f3 = w.synset('z2'), w.synset('z3'), w.synset('f3')
print('variant with a local root: reference path(z2,z3) =', sim.path(z2, z3), ' wup(z2,z3) =', sim.wup(z2, z3))
show('path(z2,f3)', sim.path, z2, f3, sim.path(z2, z3))
show('wup(z2,f3)', sim.wup, z2, f3, sim.wup(z2, z3))
