"""Consequence of finding 4: wup depends on PYTHONHASHSEED.

pwn:  qa -> q1, qb -> q1, qm -> q1, qn -> q1, q1 -> q0   (ILIs ja jb jm jn j1 j0)
A  (Requires pwn):  a1 (ja), a2 (jb)
E  (Extends A)   :  em (jm), en (jn);  ExternalSynset a1 -> em, a2 -> en

The j1 placeholder exists twice (reached from A: distance 1 from a1 and a2;
reached from E: distance 2).  Both copies are "lowest common hypernyms" with the
same sort key, so which one wup() uses depends on set iteration order.
Run with PYTHONHASHSEED=0..9: the observed value flips between 2/3 and 1/2.
"""
import sys, tempfile, os, subprocess
sys.path.insert(0, '/tmp/wh/C14/_hunt')

if len(sys.argv) > 1:
    import hlib, wn
    from wn import similarity as sim
    wn.config.data_directory = tempfile.mkdtemp()
    hlib.add(hlib.lexicon_xml('pwn', [
        {'id': 'q0', 'ili': 'j0', 'lemma': 'q0'},
        {'id': 'q1', 'ili': 'j1', 'lemma': 'q1', 'hyp': ['q0']},
        {'id': 'qa', 'ili': 'ja', 'lemma': 'qa', 'hyp': ['q1']},
        {'id': 'qb', 'ili': 'jb', 'lemma': 'qb', 'hyp': ['q1']},
        {'id': 'qm', 'ili': 'jm', 'lemma': 'qm', 'hyp': ['q1']},
        {'id': 'qn', 'ili': 'jn', 'lemma': 'qn', 'hyp': ['q1']},
    ]))
    hlib.add(hlib.lexicon_xml('A', [{'id': 'a1', 'ili': 'ja', 'lemma': 'a1'},
                                    {'id': 'a2', 'ili': 'jb', 'lemma': 'a2'}],
                              requires=('pwn', '1'), lang='fr'))
    hlib.add(hlib.lexicon_xml('E', [{'id': 'em', 'ili': 'jm', 'lemma': 'em'},
                                    {'id': 'en', 'ili': 'jn', 'lemma': 'en'}],
                              extends=('A', '1'), lang='fr',
                              external=[{'id': 'a1', 'hyp': ['em']}, {'id': 'a2', 'hyp': ['en']}]))
    w = wn.Wordnet('A E')
    a1, a2 = w.synset('a1'), w.synset('a2')
    print(sim.wup(a1, a2), [(s._ili, s._lexid) for s in a1.lowest_common_hypernyms(a2)])
else:
    seen = set()
    for hs in range(10):
        env = dict(os.environ, PYTHONHASHSEED=str(hs), PYTHONPATH='/tmp/wh/C14')
        out = subprocess.run([sys.executable, '-B', __file__, 'child'], env=env,
                             capture_output=True, text=True).stdout.strip()
        print(f'PYTHONHASHSEED={hs}: wup(a1,a2), LCS =', out)
        seen.add(out.split()[0])
    print('EXPECTED one value (2/3: the j1 placeholder is one node at distance 1 from both)')
    print('OBSERVED', sorted(seen))
