r"""res/jcn/lin pick the LEAST informative lowest common hypernym.

Graph (all nouns):      A     B        (two roots, both at depth 0)
                        |\   /|
                        | \ / |
                        |  X  |
                        | / \ |
                        c1   c2       c1 -> A, c1 -> B, c2 -> A, c2 -> B
                  a2 -> A   (a2 only makes A more frequent than B)

A and B are both lowest common hypernyms of c1 and c2 (same depth).
Corpus: 'c1', 'c2', and 'a2' x 8, so freq(A) > freq(B), i.e. IC(B) > IC(A).

Documented (docs/api/wn.similarity.rst):
  res = max_{c in S(c1,c2)} IC(c)            -> IC(B)
  jcn/lin use "the lowest common hypernym ... with the highest information
  content"                                    -> c0 = B
"""
import sys
import tempfile
from math import log

sys.path.insert(0, '/tmp/wh/C14/_hunt')
import hlib
import wn
import wn.ic
from wn import similarity as sim
from wn.ic import information_content as IC

wn.config.data_directory = tempfile.mkdtemp()

S = [
    {'id': 'A', 'lemma': 'a'},
    {'id': 'B', 'lemma': 'b'},
    {'id': 'c1', 'lemma': 'c1', 'hyp': ['A', 'B']},
    {'id': 'c2', 'lemma': 'c2', 'hyp': ['A', 'B']},
    {'id': 'a2', 'lemma': 'a2', 'hyp': ['A']},
]
hlib.add(hlib.lexicon_xml('f1', S))
w = wn.Wordnet('f1')
A, B, c1, c2 = (w.synset(x) for x in ('A', 'B', 'c1', 'c2'))

freq = wn.ic.compute(['c1', 'c2'] + ['a2'] * 8, w)
print('weights:', {k: v for k, v in freq['n'].items()})
print('lowest common hypernyms:', c1.lowest_common_hypernyms(c2))
print('IC(A) =', IC(A, freq), ' IC(B) =', IC(B, freq))

common = c1.common_hypernyms(c2)
exp_res = max(IC(c, freq) for c in common)
exp_jcn = 1 / (IC(c1, freq) + IC(c2, freq) - 2 * exp_res)
exp_lin = 2 * exp_res / (IC(c1, freq) + IC(c2, freq))

ok = True
for name, exp, got in (
    ('res', exp_res, sim.res(c1, c2, freq)),
    ('jcn', exp_jcn, sim.jcn(c1, c2, freq)),
    ('lin', exp_lin, sim.lin(c1, c2, freq)),
):
    print(f'{name}: EXPECTED {exp!r}  OBSERVED {got!r}')
    ok = ok and exp == got
print('OK' if ok else 'VIOLATION: the lcs with the highest *weight* (lowest IC) was used')
