r"""res (and jcn/lin) ignore a more informative common subsumer that is not the
deepest one.

        R
       / \
      A   X
      |   |
      |   Y
      |   |
      |   B -- b2 (frequent word)
      |\ /|
      | X |
      |/ \|
      c1  c2        c1 -> A, c1 -> B, c2 -> A, c2 -> B

Common subsumers of c1,c2: A, B, Y, X, R.  A (depth 1) and B (depth 3) are both
minimal common subsumers (neither subsumes the other), but
Synset.lowest_common_hypernyms keeps only the deepest one: [B].
Corpus: 'c1', 'c2', 'b2' x 20  ->  B is frequent, A is rare -> IC(A) > IC(B).

Documented (docs/api/wn.similarity.rst): res = max_{c in S(c1,c2)} IC(c), with
S = common subsumers, "more efficiently computed using the lowest common
hypernyms instead of all common hypernyms" -- the shortcut is not equivalent.
"""
import sys
import tempfile

sys.path.insert(0, '/tmp/wh/C14/_hunt')
import hlib
import wn
import wn.ic
from wn import similarity as sim
from wn.ic import information_content as IC

wn.config.data_directory = tempfile.mkdtemp()

S = [
    {'id': 'R', 'lemma': 'r'},
    {'id': 'A', 'lemma': 'a', 'hyp': ['R']},
    {'id': 'X', 'lemma': 'x', 'hyp': ['R']},
    {'id': 'Y', 'lemma': 'y', 'hyp': ['X']},
    {'id': 'B', 'lemma': 'b', 'hyp': ['Y']},
    {'id': 'b2', 'lemma': 'b2', 'hyp': ['B']},
    {'id': 'c1', 'lemma': 'c1', 'hyp': ['A', 'B']},
    {'id': 'c2', 'lemma': 'c2', 'hyp': ['A', 'B']},
]
hlib.add(hlib.lexicon_xml('f2', S))
w = wn.Wordnet('f2')
c1, c2 = w.synset('c1'), w.synset('c2')

freq = wn.ic.compute(['c1', 'c2'] + ['b2'] * 20, w)
common = c1.common_hypernyms(c2)
print('common hypernyms       :', [(s.id, round(IC(s, freq), 4)) for s in common])
print('lowest_common_hypernyms:', c1.lowest_common_hypernyms(c2))

exp_res = max(IC(c, freq) for c in common)
exp_jcn = 1 / (IC(c1, freq) + IC(c2, freq) - 2 * exp_res)
exp_lin = 2 * exp_res / (IC(c1, freq) + IC(c2, freq))
ok = True
for name, exp, got in (
    ('res', exp_res, sim.res(c1, c2, freq)),
    ('jcn', exp_jcn, sim.jcn(c1, c2, freq)),
    ('lin', exp_lin, sim.lin(c1, c2, freq)),
):
    print(f'{name}: EXPECTED {exp!r}  OBSERVED {got!r}')
    ok = ok and exp == got
print('OK' if ok else 'VIOLATION: max IC over common subsumers != IC of deepest common hypernym')
