"""Two DIFFERENT placeholder ('*INFERRED*') synsets score as identical.

Expand lexicon pwn:  p2 -> p1 -> p0   (ILIs i2, i1, i0)
Local lexicon  xx :  x2 (ILI i2), no relations of its own, Requires pwn.

x2.hypernyms()[0] is the placeholder for i1, its hypernym the placeholder for
i0: two different nodes of the hypernym graph, one edge apart.
"""
import sys, tempfile
sys.path.insert(0, '/tmp/wh/C14/_hunt')
import hlib, wn
from wn import similarity as sim

wn.config.data_directory = tempfile.mkdtemp()
hlib.add(hlib.lexicon_xml('pwn', [
    {'id': 'p0', 'ili': 'i0', 'lemma': 'p0'},
    {'id': 'p1', 'ili': 'i1', 'lemma': 'p1', 'hyp': ['p0']},
    {'id': 'p2', 'ili': 'i2', 'lemma': 'p2', 'hyp': ['p1']},
]))
hlib.add(hlib.lexicon_xml('xx', [{'id': 'x2', 'ili': 'i2', 'lemma': 'x2'}],
                          requires=('pwn', '1'), lang='fr'))
w = wn.Wordnet('xx')
x2 = w.synset('x2')
n1 = x2.hypernyms()[0]
n0 = n1.hypernyms()[0]
print('nodes:', n1, n1._ili, '|', n0, n0._ili, '| n1.hypernyms() ==', [s._ili for s in n1.hypernyms()])
print('shortest_path(n1, n0):', n1.shortest_path(n0))
for name, exp, got in (
    ('path(n1, n0)', 1 / 2, sim.path(n1, n0)),
    ('wup(n1, n0)', 2 * 1 / (1 + 0 + 2 * 1), sim.wup(n1, n0)),
    ('lch(n1, n0, 3)', 'less than lch(n1, n1, 3) = %r' % sim.lch(n1, n1, 3), sim.lch(n1, n0, 3)),
):
    print(f'{name}: EXPECTED {exp!r}  OBSERVED {got!r}')
try:
    print('path(x2, n1): EXPECTED 0.5  OBSERVED', sim.path(x2, n1))
except wn.Error as e:
    print('path(x2, n1): EXPECTED 0.5  OBSERVED wn.Error:', e)
