"""Zero weights: the documented jcn special case ("synsets did not occur in the
corpus and the smoothing value was set to zero" -> returns 0) and every other
IC metric raise ValueError('math domain error') instead; a part of speech whose
total is 0 (what wn.ic.load() produces for 'a'/'r' with the standard ic-*.dat
files) raises ZeroDivisionError.

Graph:  c1 -> r <- c2 ;  u1 -> r   (nouns);   adj a1 -> a0 <- a2
"""
import sys, tempfile
sys.path.insert(0, '/tmp/wh/C14/_hunt')
import hlib, wn, wn.ic
from wn import similarity as sim

wn.config.data_directory = tempfile.mkdtemp()
hlib.add(hlib.lexicon_xml('z', [
    {'id': 'r', 'lemma': 'r'},
    {'id': 'c1', 'lemma': 'c1', 'hyp': ['r']},
    {'id': 'c2', 'lemma': 'c2', 'hyp': ['r']},
    {'id': 'u1', 'lemma': 'u1', 'hyp': ['r']},
    {'id': 'a0', 'lemma': 'a0', 'pos': 'a'},
    {'id': 'a1', 'lemma': 'a1', 'pos': 'a', 'hyp': ['a0']},
    {'id': 'a2', 'lemma': 'a2', 'pos': 'a', 'hyp': ['a0']},
]))
w = wn.Wordnet('z')
g = w.synset
freq = wn.ic.compute(['c1', 'c2'], w, smoothing=0.0)
print('weights n:', freq['n'], ' a:', freq['a'])


def show(label, exp, f, *args):
    try:
        got = f(*args)
    except wn.Error as e:
        got = f'wn.Error({e})'
    except Exception as e:
        got = f'{type(e).__name__}({e})'
    print(f'{label}: EXPECTED {exp}  OBSERVED {got}')


# u1 did not occur in the corpus, smoothing is 0
show('jcn(u1, u1)', '0 (documented special case 1) or inf', sim.jcn, g('u1'), g('u1'), freq)
show('jcn(u1, c1)', 'a value (NLTK: 0 / 1e-300)', sim.jcn, g('u1'), g('c1'), freq)
show('res(u1, c1)', 'IC(r) = 0.0', sim.res, g('u1'), g('c1'), freq)
show('lin(u1, c1)', '0.0', sim.lin, g('u1'), g('c1'), freq)
# adjectives: total weight 0
show('res(a1, a2)', 'a value or wn.Error', sim.res, g('a1'), g('a2'), freq)
show('jcn(a1, a2)', 'a value or wn.Error', sim.jcn, g('a1'), g('a2'), freq)
