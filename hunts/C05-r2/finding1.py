"""C05 finding 1: two installed versions of one lexicon extension that both add a Form with the
same id to the same base entry: the Tag / Pronunciation of the second version's form are stored on
the FIRST version's form (FORM_QUERY's "f.id = ?" branch is not restricted to the adding lexicon).
Consequences for add/remove histories:
  * remove(x:1) strips x:2's form of its tag and pronunciation (another lexicon's content changes),
  * remove(x:2) leaves x:2's tag and pronunciation behind on x:1's form (residue, duplicated),
  * either way the database differs from a fresh one holding the same installed lexicons.
"""
import os, sqlite3, tempfile
import wn

HEAD = ('<?xml version="1.0" encoding="UTF-8"?>\n'
        '<!DOCTYPE LexicalResource SYSTEM "http://globalwordnet.github.io/schemas/WN-LMF-1.1.dtd">\n'
        '<LexicalResource xmlns:dc="https://globalwordnet.github.io/schemas/dc/">\n')
ATTRS = 'label="l" language="en" email="e@e" license="lic"'

BASE = HEAD + f'''<Lexicon id="a" version="1" {ATTRS}>
  <LexicalEntry id="a-e1"><Lemma partOfSpeech="n" writtenForm="foo"/>
    <Sense id="a-e1-s1" synset="a-ss1"/></LexicalEntry>
  <Synset id="a-ss1" ili="" partOfSpeech="n"/>
</Lexicon></LexicalResource>'''


def EXT(version):
    return HEAD + f'''<LexiconExtension id="x" version="{version}" {ATTRS}>
  <Extends id="a" version="1"/>
  <ExternalLexicalEntry id="a-e1">
    <Form id="x-foos" writtenForm="foos-v{version}">
      <Tag category="number">plural-v{version}</Tag>
      <Pronunciation>fu:z-v{version}</Pronunciation>
    </Form>
  </ExternalLexicalEntry>
</LexiconExtension></LexicalResource>'''


work = tempfile.mkdtemp()
paths = {}
for name, text in [('a:1', BASE), ('x:1', EXT(1)), ('x:2', EXT(2))]:
    paths[name] = os.path.join(work, name.replace(':', '_') + '.xml')
    open(paths[name], 'w', encoding='utf-8').write(text)


def build(ops):
    for c in wn._db.pool.values():
        c.close()
    wn._db.pool.clear()
    wn.config.data_directory = tempfile.mkdtemp(dir=work)
    for op, arg in ops:
        if op == 'add':
            wn.add(paths[arg], progress_handler=None)
        else:
            wn.remove(arg, progress_handler=None)


def observe():
    """forms (with tags / pronunciations) of entry a-e1 as seen through base + each extension"""
    out = {}
    for lex in wn.lexicons():
        if lex.extends() is None:
            continue
        w = wn.Wordnet(f'{lex.specifier()} a:1')
        out[lex.specifier()] = [
            (f.id, str(f), [t.tag for t in f.tags()], [p.value for p in f.pronunciations()])
            for f in w.word('a-e1').forms() if f.id]
    conn = sqlite3.connect(str(wn.config.database_path))
    out['tags table'] = sorted(conn.execute(
        'SELECT l.id || ":" || l.version, f.form, t.tag FROM tags t JOIN forms f ON f.rowid = t.form_rowid'
        ' JOIN lexicons l ON l.rowid = f.lexicon_rowid').fetchall())
    conn.close()
    return out


bad = 0
for title, hist, fresh in [
    ('remove the OTHER version (x:1)',
     [('add', 'a:1'), ('add', 'x:1'), ('add', 'x:2'), ('remove', 'x:1')],
     [('add', 'a:1'), ('add', 'x:2')]),
    ('remove the second version (x:2)',
     [('add', 'a:1'), ('add', 'x:1'), ('add', 'x:2'), ('remove', 'x:2')],
     [('add', 'a:1'), ('add', 'x:1')]),
]:
    build(fresh)
    expected = observe()
    build(hist)
    observed = observe()
    print('==', title)
    print('history :', hist)
    print('EXPECTED (fresh database with the same installed lexicons):')
    for k, v in expected.items():
        print('   ', k, v)
    print('OBSERVED:')
    for k, v in observed.items():
        print('   ', k, v)
    if expected != observed:
        bad += 1
        print('   -> VIOLATION')
print('violations:', bad)
