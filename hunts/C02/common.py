import tempfile, os, json
from pathlib import Path
import wn
wn.config.data_directory = tempfile.mkdtemp()
from wn import lmf

TMP = Path(tempfile.mkdtemp())
DC = {'1.0': 'http://purl.org/dc/elements/1.1/', '1.1': 'https://globalwordnet.github.io/schemas/dc/',
      '1.2': 'https://globalwordnet.github.io/schemas/dc/', '1.3': 'https://globalwordnet.github.io/schemas/dc/'}

def wrap(version, body):
    return (f'<?xml version="1.0" encoding="UTF-8"?>\n'
            f'<!DOCTYPE LexicalResource SYSTEM "http://globalwordnet.github.io/schemas/WN-LMF-{version}.dtd">\n'
            f'<LexicalResource xmlns:dc="{DC[version]}">\n{body}\n</LexicalResource>\n')

LEXATTRS = 'id="x" label="X" language="en" email="e@e" license="lic" version="1"'

def lexicon(body, attrs=LEXATTRS):
    return f'<Lexicon {attrs}>\n{body}\n</Lexicon>'

def extension(body, attrs='id="y" label="Y" language="en" email="e@e" license="lic" version="1"'):
    return f'<LexiconExtension {attrs}>\n<Extends id="x" version="1"/>\n{body}\n</LexiconExtension>'

_n = [0]
def roundtrip(xml, name=None):
    """returns (R1, R2, bytes2, bytes3)"""
    _n[0] += 1
    p1 = TMP / f'f{_n[0]}_1.xml'
    p1.write_text(xml, encoding='utf-8')
    r1 = lmf.load(p1, progress_handler=None)
    p2 = TMP / f'f{_n[0]}_2.xml'
    lmf.dump(r1, p2)
    r2 = lmf.load(p2, progress_handler=None)
    p3 = TMP / f'f{_n[0]}_3.xml'
    lmf.dump(r2, p3)
    b2 = p2.read_bytes(); b3 = p3.read_bytes()
    return r1, r2, b2, b3

def diff(a, b, path=''):
    out = []
    if isinstance(a, dict) and isinstance(b, dict):
        for k in sorted(set(a) | set(b), key=str):
            if k not in a: out.append(f'{path}/{k}: <missing> -> {b[k]!r}')
            elif k not in b: out.append(f'{path}/{k}: {a[k]!r} -> <missing>')
            else: out += diff(a[k], b[k], f'{path}/{k}')
    elif isinstance(a, list) and isinstance(b, list):
        if len(a) != len(b): out.append(f'{path}: len {len(a)} -> {len(b)}')
        for i, (x, y) in enumerate(zip(a, b)):
            out += diff(x, y, f'{path}[{i}]')
    else:
        if a != b or type(a) != type(b): out.append(f'{path}: {a!r} -> {b!r}')
    return out

def check(xml, label=''):
    try:
        r1, r2, b2, b3 = roundtrip(xml)
    except Exception as e:
        return [f'EXC {type(e).__name__}: {e}']
    d = diff(r1, r2)
    if b2 != b3: d.append('BYTES differ')
    return d
