"""C02 finding 3: load() results that carry an explicit default / empty value are not
reproduced by dump -> load ("every optional attribute present or absent" is not kept apart),
and in one case the value changes meaning.

  lexicalized="true", phonemic="true"     True  -> key missing
  optional attribute ""                   ''    -> key missing   (url, citation, logo, script, language,
                                                   sourceSense, adjposition, partOfSpeech, lexfile, Form@id,
                                                   SyntacticBehaviour@id, variety, notation, audio, Requires@url)
  metadata attribute ""                   {'note': ''} -> None
  members/subcat/senses=" "               []    -> key missing
  lexicalized="" / phonemic=""            ''    -> False   (dump writes lexicalized="false")
  xml:space="preserve" on normalised text / xml:space="default"   -> key missing  (1.3 feature)
"""
import tempfile, pathlib
import wn
wn.config.data_directory = tempfile.mkdtemp()
from wn import lmf

tmp = pathlib.Path(tempfile.mkdtemp())
F = tmp / 'F.xml'
F.write_text('''<?xml version="1.0" encoding="UTF-8"?>
<!DOCTYPE LexicalResource SYSTEM "http://globalwordnet.github.io/schemas/WN-LMF-1.3.dtd">
<LexicalResource xmlns:dc="https://globalwordnet.github.io/schemas/dc/">
  <Lexicon id="x" label="X" language="en" email="e@e" license="l" version="1" url="" dc:publisher="">
    <LexicalEntry id="e1">
      <Lemma writtenForm="w" partOfSpeech="n" script=""><Pronunciation phonemic="true">p</Pronunciation></Lemma>
      <Sense id="s1" synset="ss1" lexicalized="true" subcat=" "/>
      <Sense id="s2" synset="ss1" lexicalized=""/>
    </LexicalEntry>
    <Synset id="ss1" ili="" lexicalized="true" members=" " partOfSpeech="">
      <Definition xml:space="preserve" language="">already normalised</Definition>
      <Example xml:space="default" note="">ex</Example>
    </Synset>
  </Lexicon>
</LexicalResource>
''', encoding='utf-8')

def diff(a, b, path=''):
    if isinstance(a, dict) and isinstance(b, dict):
        for k in sorted(set(a) | set(b)):
            if k not in b: yield f'{path}/{k}: {a[k]!r} -> <missing>'
            elif k not in a: yield f'{path}/{k}: <missing> -> {b[k]!r}'
            else: yield from diff(a[k], b[k], f'{path}/{k}')
    elif isinstance(a, list) and isinstance(b, list) and len(a) == len(b):
        for i, (x, y) in enumerate(zip(a, b)): yield from diff(x, y, f'{path}[{i}]')
    elif a != b or type(a) is not type(b):
        yield f'{path}: {a!r} -> {b!r}'

r1 = lmf.load(F, progress_handler=None)
out = tmp / 'out.xml'
lmf.dump(r1, out)
r2 = lmf.load(out, progress_handler=None)
print('EXPECTED: load(dump(R)) == R, no differences')
print('OBSERVED differences (R -> load(dump(R))):')
ds = list(diff(r1['lexicons'][0], r2['lexicons'][0]))
for d in ds: print('   ', d)
print()
print('value flip: <Sense id="s2" lexicalized=""> is re-written as:')
print('   ', [l.strip() for l in out.read_text().splitlines() if 'id="s2"' in l][0])
print('\nVIOLATION' if ds else '\nok')
