"""C02 finding 4: Dublin-Core metadata is silently lost on dump when the file binds the dc:
prefix to any URI other than the single one hard-wired for its LMF version.

wn's own 1.1/1.3 fixtures (tests/data/mini-lmf-1.1.xml, mini-lmf-1.3.xml) declare
xmlns:dc="http://globalwordnet.github.io/schemas/dc/" (http), lmf._DC_URIS expects
"https://..." for 1.1+.  With such a header load() does not recognise dc:* attributes as
metadata (meta stays None, the values are left under raw 'URI name' keys), and dump()
drops them: the metadata does not survive load -> dump -> load.
"""
import tempfile, pathlib
import wn
wn.config.data_directory = tempfile.mkdtemp()
from wn import lmf
tmp = pathlib.Path(tempfile.mkdtemp())
failed = False
for ver, uri in [('1.1', 'http://globalwordnet.github.io/schemas/dc/'),   # as in tests/data/mini-lmf-1.1.xml
                 ('1.3', 'http://globalwordnet.github.io/schemas/dc/'),   # as in tests/data/mini-lmf-1.3.xml
                 ('1.1', 'http://purl.org/dc/elements/1.1/'),             # 1.0 header kept after upgrading DOCTYPE
                 ('1.0', 'https://globalwordnet.github.io/schemas/dc/'),
                 ('1.1', 'https://globalwordnet.github.io/schemas/dc/')]: # control: the expected URI
    F = tmp / 'F.xml'
    F.write_text(f'''<?xml version="1.0" encoding="UTF-8"?>
<!DOCTYPE LexicalResource SYSTEM "http://globalwordnet.github.io/schemas/WN-LMF-{ver}.dtd">
<LexicalResource xmlns:dc="{uri}">
  <Lexicon id="x" label="X" language="en" email="e@e" license="l" version="1" dc:publisher="me">
    <Synset id="ss" ili="" dc:subject="noun.cognition"><Definition dc:source="wikt">d</Definition></Synset>
  </Lexicon>
</LexicalResource>
''', encoding='utf-8')
    r1 = lmf.load(F, progress_handler=None)
    out = tmp / 'out.xml'
    lmf.dump(r1, out)
    r2 = lmf.load(out, progress_handler=None)
    n = out.read_text().count(' dc:')
    print(f'LMF {ver} xmlns:dc={uri}')
    print('   synset as loaded      :', {k: v for k, v in r1['lexicons'][0]['synsets'][0].items() if k != 'definitions'})
    print('   EXPECTED dc:* attributes in dump: 3   OBSERVED:', n, '  equal resource:', r1 == r2)
    if uri.startswith('http://globalwordnet') or 'purl' in uri and ver != '1.0':
        failed |= r1 != r2
print('\nVIOLATION' if failed else '\nok')
