"""C02 finding 1: SyntacticBehaviour data is silently dropped by lmf.dump.

 (a) LMF 1.1/1.2/1.3: <SyntacticBehaviour> inside <LexicalEntry> (still allowed by
     the 1.1+ DTDs, accepted by lmf.load and honoured by wn.add) is not written at all.
 (b) LMF 1.1/1.2/1.3: the `senses` attribute of a (lexicon-level) <SyntacticBehaviour>
     is not written, so the frame loses its senses.
 (c) LMF 1.0: the (optional) `id` attribute of <SyntacticBehaviour> is not written.
"""
import tempfile, pathlib
import wn
wn.config.data_directory = tempfile.mkdtemp()
from wn import lmf

tmp = pathlib.Path(tempfile.mkdtemp())
DC = {'1.0': 'http://purl.org/dc/elements/1.1/'}
DOC = '''<?xml version="1.0" encoding="UTF-8"?>
<!DOCTYPE LexicalResource SYSTEM "http://globalwordnet.github.io/schemas/WN-LMF-{ver}.dtd">
<LexicalResource xmlns:dc="{dc}">
  <Lexicon id="x" label="X" language="en" email="e@e" license="l" version="1">
    <LexicalEntry id="x-give-v">
      <Lemma writtenForm="give" partOfSpeech="v"/>
      <Sense id="x-give-1" synset="x-ss"/>
      <Sense id="x-give-2" synset="x-ss"/>
      <SyntacticBehaviour {sbid} subcategorizationFrame="Somebody ----s something" senses="x-give-1"/>
    </LexicalEntry>
    <Synset id="x-ss" ili=""/>
    {lexlevel}
  </Lexicon>
</LexicalResource>
'''
failed = False
for ver in ['1.0', '1.1', '1.2', '1.3']:
    new = ver != '1.0'
    src = tmp / f'in-{ver}.xml'
    src.write_text(DOC.format(
        ver=ver, dc=DC.get(ver, 'https://globalwordnet.github.io/schemas/dc/'),
        sbid='' if new else 'id="sb-1"',
        lexlevel='<SyntacticBehaviour id="sb-2" subcategorizationFrame="Something ----s" senses="x-give-2"/>' if new else ''))
    r1 = lmf.load(src, progress_handler=None)
    out = tmp / f'out-{ver}.xml'
    lmf.dump(r1, out)
    r2 = lmf.load(out, progress_handler=None)
    lex1, lex2 = r1['lexicons'][0], r2['lexicons'][0]
    print(f'--- LMF {ver}')
    print('EXPECTED entry frames  :', lex1['entries'][0].get('frames'))
    print('OBSERVED entry frames  :', lex2['entries'][0].get('frames'))
    print('EXPECTED lexicon frames:', lex1.get('frames'))
    print('OBSERVED lexicon frames:', lex2.get('frames'))
    ok = r1 == r2
    print('round trip equal:', ok)
    failed |= not ok

    # the data matters: wn itself uses it
    wn.add(src, progress_handler=None)
    before = {s.id: s.frames() for s in wn.Wordnet('x:1').senses('give')}
    wn.remove('x:1', progress_handler=None)
    wn.add(out, progress_handler=None)
    after = {s.id: s.frames() for s in wn.Wordnet('x:1').senses('give')}
    wn.remove('x:1', progress_handler=None)
    print('Sense.frames() from original file :', before)
    print('Sense.frames() from re-dumped file:', after)
print('\nVIOLATION' if failed else '\nok')
