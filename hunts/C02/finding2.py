"""C02 finding 2: a carriage return in whitespace-preserved text content is turned into
a line feed by dump -> load, and dump(load(F)) is not a byte fixed point.

load() can return such a text: <Definition xml:space="preserve">a&#13;b</Definition>.
_set_text() hands the text to ElementTree, whose text escaping (unlike its attribute
escaping) does not escape '\r'; the raw CR byte is then normalised to LF by the XML
parser on the next load (XML 1.0 sect. 2.11).
"""
import tempfile, pathlib
import wn
wn.config.data_directory = tempfile.mkdtemp()
from wn import lmf

tmp = pathlib.Path(tempfile.mkdtemp())
failed = False
for ver, dc in [('1.0', 'http://purl.org/dc/elements/1.1/'),
                ('1.3', 'https://globalwordnet.github.io/schemas/dc/')]:
    F = tmp / f'F-{ver}.xml'
    F.write_text(f'''<?xml version="1.0" encoding="UTF-8"?>
<!DOCTYPE LexicalResource SYSTEM "http://globalwordnet.github.io/schemas/WN-LMF-{ver}.dtd">
<LexicalResource xmlns:dc="{dc}">
  <Lexicon id="x" label="X" language="en" email="e@e" license="l" version="1">
    <LexicalEntry id="e"><Lemma writtenForm="w" partOfSpeech="n"><Tag category="c" xml:space="preserve">t&#13;u</Tag></Lemma>
      <Sense id="s" synset="ss"><Example xml:space="preserve">line1&#13;&#10;line2</Example></Sense></LexicalEntry>
    <Synset id="ss" ili="in"><Definition xml:space="preserve">a&#13;b</Definition>
      <ILIDefinition xml:space="preserve">c&#13;d, long enough</ILIDefinition></Synset>
  </Lexicon>
</LexicalResource>
''', encoding='utf-8')
    r1 = lmf.load(F, progress_handler=None)
    d1, d2, d3 = tmp / 'd1.xml', tmp / 'd2.xml', tmp / 'd3.xml'
    lmf.dump(r1, d1)
    r2 = lmf.load(d1, progress_handler=None)
    lmf.dump(r2, d2)
    r3 = lmf.load(d2, progress_handler=None)
    lmf.dump(r3, d3)

    def texts(r):
        lex = r['lexicons'][0]
        ss = lex['synsets'][0]
        return [ss['definitions'][0]['text'], ss['ili_definition']['text'],
                lex['entries'][0]['senses'][0]['examples'][0]['text'],
                lex['entries'][0]['lemma']['tags'][0]['text']]
    print(f'--- LMF {ver}')
    print('EXPECTED texts after dump+load:', texts(r1))
    print('OBSERVED texts after dump+load:', texts(r2))
    print('EXPECTED dump(load(F)) == dump(load(dump(load(F)))) : True')
    print('OBSERVED                                             :', d1.read_bytes() == d2.read_bytes())
    print('   (third generation stable: %s)' % (d2.read_bytes() == d3.read_bytes()))
    failed |= r1 != r2 or d1.read_bytes() != d2.read_bytes()
print('\nVIOLATION' if failed else '\nok')
