"""finding2: compute() raises KeyError when a hypernym ancestor is not in the same
part-of-speech bucket as the corpus word's synset (other POS, POS outside n/v/a/r, or no POS).

Run: cd /tmp/wh/C15 && PYTHONPATH=/tmp/wh/C15 /venv/bin/python -B _hunt/finding2.py
"""
import os, tempfile
import wn, wn.ic

HEAD = ('<?xml version="1.0" encoding="UTF-8"?>\n'
        '<!DOCTYPE LexicalResource SYSTEM "http://globalwordnet.github.io/schemas/WN-LMF-1.1.dtd">\n'
        '<LexicalResource xmlns:dc="https://globalwordnet.github.io/schemas/dc/">\n')

def lexicon(child_pos, parent_pos_attr):
    return HEAD + f'''
<Lexicon id="en" label="en" language="en" email="a@b" license="l" version="1">
  <LexicalEntry id="en-w1"><Lemma partOfSpeech="{child_pos}" writtenForm="wa"/><Sense id="en-s1" synset="en-a"/></LexicalEntry>
  <Synset id="en-a" ili="" partOfSpeech="{child_pos}"><SynsetRelation relType="hypernym" target="en-b"/></Synset>
  <Synset id="en-b" ili="" {parent_pos_attr}/>
</Lexicon></LexicalResource>'''

violations = 0
for title, child, parent in [
    ('verb whose hypernym is a noun', 'v', 'partOfSpeech="n"'),
    ('noun whose hypernym has pos "x" (not in n/v/a/r)', 'n', 'partOfSpeech="x"'),
    ('noun whose hypernym has no partOfSpeech (attribute is #IMPLIED in the DTD)', 'n', ''),
    ('control: adjective whose hypernym is a satellite adjective', 'a', 'partOfSpeech="s"'),
]:
    wn.config.data_directory = tempfile.mkdtemp()
    fd, path = tempfile.mkstemp(suffix='.xml')
    with os.fdopen(fd, 'w', encoding='utf-8') as f:
        f.write(lexicon(child, parent))
    wn.add(path, progress_handler=None)
    w = wn.Wordnet('en:1')
    print('--', title)
    print('   graph: en-a', w.synset('en-a').pos, '-> hypernyms', [(h.id, h.pos) for h in w.synset('en-a').hypernyms()])
    print('   EXPECTED: a Freq mapping; en-a gets smoothing+1 and no exception (weights defined for all hypernym graphs)')
    try:
        got = wn.ic.compute(['wa'], w, smoothing=1.0)
        print('   OBSERVED:', {p: d for p, d in got.items() if len(d) > 1})
    except KeyError as exc:
        violations += 1
        print('   OBSERVED: compute() raised KeyError(%s)' % exc)
print('VIOLATIONS:', violations)
