"""finding4 (documentation/contract mismatch of load()): documented to raise wn.Error when the
wordnet does not have exactly one lexicon; it raises AssertionError (and nothing under -O).

Run: cd /tmp/wh/C15 && PYTHONPATH=/tmp/wh/C15 /venv/bin/python -B _hunt/finding4.py
"""
import os, tempfile
import wn, wn.ic

wn.config.data_directory = tempfile.mkdtemp()
HEAD = ('<?xml version="1.0" encoding="UTF-8"?>\n'
        '<!DOCTYPE LexicalResource SYSTEM "http://globalwordnet.github.io/schemas/WN-LMF-1.1.dtd">\n'
        '<LexicalResource xmlns:dc="https://globalwordnet.github.io/schemas/dc/">\n')
for lexid in ('en', 'fr'):
    fd, path = tempfile.mkstemp(suffix='.xml')
    with os.fdopen(fd, 'w', encoding='utf-8') as f:
        f.write(HEAD + f'<Lexicon id="{lexid}" label="x" language="{lexid}" email="a@b" license="l" version="1">'
                f'<Synset id="{lexid}-00000001-n" ili="" partOfSpeech="n"/></Lexicon></LexicalResource>')
    wn.add(path, progress_handler=None)
fd, ic = tempfile.mkstemp(suffix='.dat')
os.write(fd, b'wnver::x\n1n 10 ROOT\n'); os.close(fd)
print('EXPECTED: wn.Error ("Raises: wn.Error: If wordnet does not have exactly one lexicon.")')
try:
    print('OBSERVED: returned', wn.ic.load(ic, wn.Wordnet('en:1 fr:1')))
except wn.Error as exc:
    print('OBSERVED: wn.Error', exc)
except AssertionError as exc:
    print('OBSERVED: AssertionError', repr(exc), '(isinstance wn.Error: %s)' % isinstance(exc, wn.Error))
    print('VIOLATION')
