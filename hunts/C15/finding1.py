"""finding1: compute() raises KeyError('*INFERRED*') when a hypernym path of a corpus word
passes through a synset that exists only in the expand lexicon (inferred placeholder).

Run: cd /tmp/wh/C15 && PYTHONPATH=/tmp/wh/C15 /venv/bin/python -B _hunt/finding1.py
"""
import os, tempfile
import wn, wn.ic

wn.config.data_directory = tempfile.mkdtemp()

HEAD = ('<?xml version="1.0" encoding="UTF-8"?>\n'
        '<!DOCTYPE LexicalResource SYSTEM "http://globalwordnet.github.io/schemas/WN-LMF-1.1.dtd">\n'
        '<LexicalResource xmlns:dc="https://globalwordnet.github.io/schemas/dc/">\n')
# expand lexicon: chain  i1 -> i2 -> i3
EN = HEAD + '''
<Lexicon id="en" label="en" language="en" email="a@b" license="l" version="1">
  <Synset id="en-a" ili="i1" partOfSpeech="n"><SynsetRelation relType="hypernym" target="en-b"/></Synset>
  <Synset id="en-b" ili="i2" partOfSpeech="n"><SynsetRelation relType="hypernym" target="en-c"/></Synset>
  <Synset id="en-c" ili="i3" partOfSpeech="n"/>
</Lexicon></LexicalResource>'''
# the wordnet under test: has i1 and i3, but no synset for i2; relations come from 'en'
XX = HEAD + '''
<Lexicon id="xx" label="xx" language="xx" email="a@b" license="l" version="1">
  <Requires id="en" version="1"/>
  <LexicalEntry id="xx-w1"><Lemma partOfSpeech="n" writtenForm="xa"/><Sense id="xx-s1" synset="xx-a"/></LexicalEntry>
  <LexicalEntry id="xx-w2"><Lemma partOfSpeech="n" writtenForm="xc"/><Sense id="xx-s2" synset="xx-c"/></LexicalEntry>
  <Synset id="xx-a" ili="i1" partOfSpeech="n"/>
  <Synset id="xx-c" ili="i3" partOfSpeech="n"/>
</Lexicon></LexicalResource>'''
for text in (EN, XX):
    fd, path = tempfile.mkstemp(suffix='.xml')
    with os.fdopen(fd, 'w', encoding='utf-8') as f:
        f.write(text)
    wn.add(path, progress_handler=None)

w = wn.Wordnet('xx:1')  # single lexicon + its expand lexicon (documented as supported)
a = w.synset('xx-a')
print('lexicons:', w.lexicons(), 'expand:', w.expanded_lexicons())
print('xx-a hypernyms:', a.hypernyms(), '-> their hypernyms:', [h.hypernyms() for h in a.hypernyms()])

corpus = ['xa', 'xa', 'xc', 'unknown']
expected = {'xx-a': 1.0 + 2.0, 'xx-c': 1.0 + 2.0 + 1.0, None: 1.0 + 3.0}
print('EXPECTED freq["n"] =', expected, '(xx-c is a hypernym ancestor of xx-a: weights never decrease going up)')
try:
    got = wn.ic.compute(corpus, w, distribute_weight=True, smoothing=1.0)
    print('OBSERVED freq["n"] =', got['n'])
    print('VIOLATION' if got['n'] != expected else 'ok')
except KeyError as exc:
    print('OBSERVED: compute() raised KeyError(%s)' % exc)
    print('VIOLATION')

# same thing with the repository's own fixture (tests/data/mini-lmf-1.0.xml)
fixture = os.path.join(os.path.dirname(os.path.abspath(__file__)), '..', 'tests', 'data', 'mini-lmf-1.0.xml')
if os.path.exists(fixture):
    wn.add(fixture, progress_handler=None)
    es = wn.Wordnet('test-es', expand='test-en')
    print('fixture: muestra aleatoria hypernyms:', es.synsets('muestra aleatoria')[0].hypernyms())
    try:
        print('OBSERVED (fixture):', wn.ic.compute(['muestra aleatoria', 'ejemplo'], es)['n'])
    except KeyError as exc:
        print('EXPECTED (fixture): test-es-0002-n == 3.0, test-es-0001-n == 3.0, test-es-0005-n == 2.0, total 3.0')
        print('OBSERVED (fixture): compute() raised KeyError(%s)' % exc)
