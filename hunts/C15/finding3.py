"""finding3 (low confidence, outside the documented precondition): with more than one lexicon in
the Wordnet, weights are keyed by the bare synset id, so two versions of one lexicon are
conflated and a hypernym ends up with LESS weight than its hyponym. compute() does not reject
such a Wordnet (load() does).

Run: cd /tmp/wh/C15 && PYTHONPATH=/tmp/wh/C15 /venv/bin/python -B _hunt/finding3.py
"""
import os, tempfile
import wn, wn.ic

wn.config.data_directory = tempfile.mkdtemp()
HEAD = ('<?xml version="1.0" encoding="UTF-8"?>\n'
        '<!DOCTYPE LexicalResource SYSTEM "http://globalwordnet.github.io/schemas/WN-LMF-1.1.dtd">\n'
        '<LexicalResource xmlns:dc="https://globalwordnet.github.io/schemas/dc/">\n')
def lexicon(version, rel):
    return HEAD + f'''
<Lexicon id="en" label="en" language="en" email="a@b" license="l" version="{version}">
  <LexicalEntry id="en-w1"><Lemma partOfSpeech="n" writtenForm="wa"/><Sense id="en-s1" synset="en-a"/></LexicalEntry>
  <Synset id="en-a" ili="" partOfSpeech="n">{rel}</Synset>
  <Synset id="en-b" ili="" partOfSpeech="n"/>
</Lexicon></LexicalResource>'''
for text in (lexicon('1', '<SynsetRelation relType="hypernym" target="en-b"/>'), lexicon('2', '')):
    fd, path = tempfile.mkstemp(suffix='.xml')
    with os.fdopen(fd, 'w', encoding='utf-8') as f:
        f.write(text)
    wn.add(path, progress_handler=None)

w = wn.Wordnet('en:*')   # en:1 (en-a -> en-b) and en:2 (no relation); wn.Wordnet() behaves the same
print('lexicons:', w.lexicons())
a1 = next(s for s in w.synsets('wa') if s.hypernyms())
b1 = a1.hypernyms()[0]
freq = wn.ic.compute(['wa'], w, distribute_weight=False, smoothing=1.0)
print('freq["n"] =', freq['n'])
print('EXPECTED: weight(hypernym en-b of en:1) >= weight(hyponym en-a of en:1); IC(en-b) <= IC(en-a)')
print('OBSERVED: weight(en-b) = %s, weight(en-a) = %s; IC(en-b) = %.4f, IC(en-a) = %.4f' % (
    freq['n'][b1.id], freq['n'][a1.id],
    wn.ic.information_content(b1, freq), wn.ic.information_content(a1, freq)))
print('VIOLATION' if freq['n'][b1.id] < freq['n'][a1.id] else 'ok')
