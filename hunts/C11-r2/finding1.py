"""C11 finding 1 (low severity, cross-cutting): the confidenceScore of a relation read from a
WN-LMF file is returned as a string, not as the float the library declares/documents.

Clause: "... each with the right name, source, target, defining lexicon and metadata".

wn.lmf.Metadata declares `confidenceScore: float`, docs/guides/wordnet.rst lists the
confidence value as float, lmf.dump() converts it with str(), and an in-memory resource
with a float is stored and returned as a float.  But wn.lmf.load() never converts the
attribute: the helper that does it, wn/lmf.py:_validate_metadata(), is dead code (no caller).
So the same declared relation has metadata {'confidenceScore': 0.8} or {'confidenceScore': '0.8'}
depending on whether it was added from a dict or from XML.
"""
import os, tempfile
import wn
wn.config.data_directory = tempfile.mkdtemp()
xml = '''<?xml version="1.0" encoding="UTF-8"?>
<!DOCTYPE LexicalResource SYSTEM "http://globalwordnet.github.io/schemas/WN-LMF-1.3.dtd">
<LexicalResource xmlns:dc="https://globalwordnet.github.io/schemas/dc/">
<Lexicon id="t" version="1" label="t" language="en" email="e" license="l">
<LexicalEntry id="t-e1"><Lemma writtenForm="a" partOfSpeech="n"/>
  <Sense id="t-s1" synset="t-1"><SenseRelation relType="antonym" target="t-s2" confidenceScore="0.8"/></Sense></LexicalEntry>
<LexicalEntry id="t-e2"><Lemma writtenForm="b" partOfSpeech="n"/><Sense id="t-s2" synset="t-2"/></LexicalEntry>
<Synset id="t-1" ili="" partOfSpeech="n"><SynsetRelation relType="hypernym" target="t-2" confidenceScore="0.8" dc:type="x"/></Synset>
<Synset id="t-2" ili="" partOfSpeech="n"/>
</Lexicon></LexicalResource>'''
p = os.path.join(wn.config.data_directory, 't.xml')
open(p, 'w').write(xml)
wn.add(p, progress_handler=None)
w = wn.Wordnet('t:1')
ok = True
for label, obj in (('synset t-1', w.synset('t-1')), ('sense t-s1', w.sense('t-s1'))):
    (rel, tgt), = obj.relation_map().items()
    got = rel.metadata().get('confidenceScore')
    good = got == 0.8
    ok &= good
    print(f'{label}: relation {rel.name} -> {tgt.id}\n   EXPECTED confidenceScore 0.8 (float)\n'
          f'   OBSERVED confidenceScore {got!r} ({type(got).__name__})   {"ok" if good else "<-- VIOLATION"}')
print('PROPERTY HOLDS' if ok else 'PROPERTY VIOLATED')
