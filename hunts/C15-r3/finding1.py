"""C15 finding 1 (low confidence, robustness class): a corpus token that is a
Python str but cannot be encoded as UTF-8 (a lone surrogate, as produced by
reading text with errors='surrogateescape') is an unknown word, yet compute()
raises UnicodeEncodeError instead of ignoring it.

Clause: "unknown words are ignored".
"""
import os, shutil, sys, tempfile
import wn, wn.ic

XML = '''<?xml version="1.0" encoding="UTF-8"?>
<!DOCTYPE LexicalResource SYSTEM "http://globalwordnet.github.io/schemas/WN-LMF-1.0.dtd">
<LexicalResource xmlns:dc="http://purl.org/dc/elements/1.1/">
<Lexicon id="lx" label="lx" language="en" email="a@b" license="l" version="1">
<LexicalEntry id="lx-e0"><Lemma writtenForm="dog" partOfSpeech="n"/><Sense id="lx-s0" synset="lx-2-n"/></LexicalEntry>
<LexicalEntry id="lx-e1"><Lemma writtenForm="a" partOfSpeech="n"/><Sense id="lx-s1" synset="lx-1-n"/></LexicalEntry>
<Synset id="lx-1-n" ili="" partOfSpeech="n"/>
<Synset id="lx-2-n" ili="" partOfSpeech="n"><SynsetRelation relType="hypernym" target="lx-1-n"/></Synset>
</Lexicon>
</LexicalResource>
'''

d = tempfile.mkdtemp(prefix='c15_f1_')
status = 0
try:
    wn.config.data_directory = d
    path = os.path.join(d, 'lx.xml')
    with open(path, 'w', encoding='utf-8') as f:
        f.write(XML)
    wn.add(path, progress_handler=None)
    w = wn.Wordnet('lx:1')
    # the token as it comes out of bytes b'caf\xe9' read with surrogateescape
    token = b'caf\xe9'.decode('utf-8', errors='surrogateescape')
    expected = wn.ic.compute(['dog'], w)
    print('EXPECTED: the unknown token is ignored ->', expected['n'])
    # control: other odd unknown tokens are ignored
    assert wn.ic.compute(['dog', 'a\x00b', '', ' ', '%', '_'], w) == expected
    try:
        observed = wn.ic.compute(['dog', token], w)
    except Exception as exc:
        print('OBSERVED: compute() raises', type(exc).__name__ + ':', exc)
        status = 1
    else:
        print('OBSERVED:', observed['n'])
        if observed != expected:
            status = 1
finally:
    for c in wn._db.pool.values():
        c.close()
    wn._db.pool.clear()
    shutil.rmtree(d, ignore_errors=True)
sys.exit(status)
