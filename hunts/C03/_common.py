"""Small helpers shared by finding3..7 (finding1/2 are self-contained)."""
import os
import tempfile

import wn
from wn import lmf


def header(version):
    return ('<?xml version="1.0" encoding="UTF-8"?>\n'
            f'<!DOCTYPE LexicalResource SYSTEM "{lmf._SCHEMAS[version]}">\n'
            f'<LexicalResource xmlns:dc="{lmf._DC_URIS[version]}">\n')


def lexicon(version, body, attrs=''):
    return (header(version)
            + f'<Lexicon id="x" label="L" language="en" email="e" license="l" version="1" {attrs}>\n'
            + body + '\n</Lexicon>\n</LexicalResource>\n')


def write(text):
    path = os.path.join(tempfile.mkdtemp(), 'src.xml')
    with open(path, 'w', encoding='utf-8') as f:
        f.write(text)
    return path


def new_db():
    wn.config.data_directory = tempfile.mkdtemp()


def roundtrip(source, version, observe):
    """add *source* (path or resource dict), observe, export, re-add into an
    empty database, observe again; return (before, after, exported_path)"""
    new_db()
    if isinstance(source, dict):
        wn.add_lexical_resource(source, progress_handler=None)
    else:
        wn.add(source, progress_handler=None)
    before = observe()
    out = os.path.join(tempfile.mkdtemp(), f'export-{version}.xml')
    wn.export(wn.lexicons(), out, version=version)
    new_db()
    wn.add(out, progress_handler=None)
    return before, observe(), out
