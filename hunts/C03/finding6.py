"""C03 finding 6: a confidenceScore given as a float (the type lmf.Metadata
declares) comes back as a string; lmf._validate_metadata(), which would convert
it, is never called by lmf.load().

Run:  cd /tmp/wh/C03 && PYTHONPATH=/tmp/wh/C03 /venv/bin/python -B _hunt/finding6.py
"""
import sys, os
sys.path.insert(0, os.path.dirname(os.path.abspath(__file__)))
from _common import *

META = {'confidenceScore': 0.5}
RES = {'lmf_version': '1.1', 'lexicons': [{
    'id': 'x', 'label': 'L', 'language': 'en', 'email': 'e', 'license': 'l', 'version': '1', 'meta': META,
    'entries': [{'id': 'e1', 'meta': META, 'lemma': {'writtenForm': 'w', 'partOfSpeech': 'n'},
                 'senses': [{'id': 's1', 'synset': 'ss1', 'meta': META}]}],
    'synsets': [{'id': 'ss1', 'ili': '', 'partOfSpeech': 'n', 'meta': META}],
}]}


def observe():
    return {
        'lexicon': wn.lexicons()[0].metadata(),
        'word': wn.word('e1').metadata(),
        'sense': wn.sense('s1').metadata(),
        'synset': wn.synset('ss1').metadata(),
    }


n = 0
for version in ('1.0', '1.1'):
    before, after, out = roundtrip(RES, version, observe)
    for key in before:
        ok = before[key] == after[key]
        n += not ok
        print(f'export as {version}: {key}.metadata(): {"ok" if ok else "VIOLATION"}  EXPECTED {before[key]!r}  OBSERVED {after[key]!r}')
print('violations:', n)
