"""C03 finding 1: sense-frame links of id-less syntactic behaviours are lost
in every WN-LMF >= 1.1 export.

Run:  cd /tmp/wh/C03 && PYTHONPATH=/tmp/wh/C03 /venv/bin/python -B _hunt/finding1.py

Clause: "sense-frame links ... in each LMF version able to express them".
Code:   wn/_export.py:201-202 (subcat skips frames whose id is NULL),
        wn/_export.py:330-337 (lexicon-level frame gets id '' and no senses),
        wn/lmf.py:798-800 (entry-level frames only written for version < 1.1).
Boundary (probes9.py, 432 round trips): links are lost iff the frame has no id
and the export version is >= 1.1.  No test pins this.  Confidence: high.

Part A uses the repository's own tests/data/mini-lmf-1.0.xml (a 1.0 document,
frames on the lexical entry, no ids).  Part B uses a WN-LMF 1.1 document whose
frames are written on the LexicalEntry (still allowed by the 1.1-1.3 DTDs).
"""
import os
import tempfile

import wn

HERE = os.path.dirname(os.path.abspath(__file__))
MINI_1_0 = os.path.join(HERE, '..', 'tests', 'data', 'mini-lmf-1.0.xml')

SRC_1_1 = '''<?xml version="1.0" encoding="UTF-8"?>
<!DOCTYPE LexicalResource SYSTEM "http://globalwordnet.github.io/schemas/WN-LMF-1.1.dtd">
<LexicalResource xmlns:dc="https://globalwordnet.github.io/schemas/dc/">
  <Lexicon id="x" label="L" language="en" email="e" license="l" version="1">
    <LexicalEntry id="e1">
      <Lemma writtenForm="give" partOfSpeech="v"/>
      <Sense id="s1" synset="ss1"/>
      <Sense id="s2" synset="ss2"/>
      <SyntacticBehaviour subcategorizationFrame="Somebody ----s something" senses="s1"/>
      <SyntacticBehaviour subcategorizationFrame="Somebody ----s"/>
    </LexicalEntry>
    <Synset id="ss1" ili="" partOfSpeech="v"/>
    <Synset id="ss2" ili="" partOfSpeech="v"/>
  </Lexicon>
</LexicalResource>
'''


def new_db():
    wn.config.data_directory = tempfile.mkdtemp()


def frames(sense_ids):
    return {sid: wn.sense(sid).frames() for sid in sense_ids}


def check(title, source, lexicon, sense_ids):
    failures = 0
    new_db()
    wn.add(source, progress_handler=None)
    expected = frames(sense_ids)
    outdir = tempfile.mkdtemp()
    outs = {}
    for version in ('1.0', '1.1', '1.2', '1.3'):
        outs[version] = os.path.join(outdir, f'export-{version}.xml')
        wn.export(wn.lexicons(lexicon=lexicon), outs[version], version=version)
    for version, out in outs.items():
        new_db()
        wn.add(out, progress_handler=None)
        observed = frames(sense_ids)
        ok = observed == expected
        failures += not ok
        print(f'{title}: export as {version}: {"ok" if ok else "VIOLATION"}')
        if not ok:
            print('   EXPECTED', expected)
            print('   OBSERVED', observed)
            with open(out, encoding='utf-8') as f:
                sb = [ln.strip() for ln in f if 'SyntacticBehaviour' in ln or 'subcat' in ln]
            print('   frame-related lines in the exported file:', sb)
    return failures


n = check('A (tests/data/mini-lmf-1.0.xml, test-en)', MINI_1_0, 'test-en',
          ['test-en-illustrate-v-0003-01', 'test-en-exemplify-v-0003-01'])

src = os.path.join(tempfile.mkdtemp(), 'src-1.1.xml')
with open(src, 'w', encoding='utf-8') as f:
    f.write(SRC_1_1)
n += check('B (1.1 document with entry-level frames)', src, 'x', ['s1', 's2'])

print('violations:', n)
