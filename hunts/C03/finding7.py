"""C03 finding 7 (minor): WN-LMF 1.0 -> 1.0.  (a) the order of Sense.frames()
changes, because the 1.0 exporter emits the frames of an entry in the order its
senses use them, not in their stored order; (b) a frame written on an entry
without senses disappears from the exported document.

Run:  cd /tmp/wh/C03 && PYTHONPATH=/tmp/wh/C03 /venv/bin/python -B _hunt/finding7.py
"""
import sys, os
sys.path.insert(0, os.path.dirname(os.path.abspath(__file__)))
from _common import *

SRC = lexicon('1.0', '''
<LexicalEntry id="e1"><Lemma writtenForm="give" partOfSpeech="v"/>
  <Sense id="s1" synset="ss1"/><Sense id="s2" synset="ss1"/>
  <SyntacticBehaviour subcategorizationFrame="f1" senses="s2"/>
  <SyntacticBehaviour subcategorizationFrame="f2" senses="s1 s2"/>
</LexicalEntry>
<LexicalEntry id="e0"><Lemma writtenForm="nosense" partOfSpeech="v"/>
  <SyntacticBehaviour subcategorizationFrame="f3"/>
</LexicalEntry>
<Synset id="ss1" ili="" partOfSpeech="v"/>''')


def observe():
    return {'s1.frames()': wn.sense('s1').frames(), 's2.frames()': wn.sense('s2').frames()}


def all_frames(path):
    lex = lmf.load(path, progress_handler=None)['lexicons'][0]
    return sorted(f['subcategorizationFrame'] for e in lex['entries'] for f in e.get('frames', []))


src = write(SRC)
before, after, out = roundtrip(src, '1.0', observe)
n = 0
for key in before:
    ok = before[key] == after[key]
    n += not ok
    print(f'{key}: {"ok" if ok else "VIOLATION"}  EXPECTED {before[key]!r}  OBSERVED {after[key]!r}')
a, b = all_frames(src), all_frames(out)
n += a != b
print(f'frames in document: {"ok" if a == b else "VIOLATION"}  EXPECTED {a}  OBSERVED {b}')
print('violations:', n)
