"""C03 finding 5: a carriage return in element text (definition, example, ILI
definition, tag, pronunciation) comes back as a line feed: lmf.dump writes the
character raw and XML line-end normalisation turns it into "\\n" on load.

Run:  cd /tmp/wh/C03 && PYTHONPATH=/tmp/wh/C03 /venv/bin/python -B _hunt/finding5.py
"""
import sys, os
sys.path.insert(0, os.path.dirname(os.path.abspath(__file__)))
from _common import *

SRC = lexicon('1.3', '''
<LexicalEntry id="e1"><Lemma writtenForm="a" partOfSpeech="n"><Tag category="c" xml:space="preserve">t&#13;t</Tag></Lemma>
  <Sense id="s1" synset="ss1"><Example xml:space="preserve">ex 1&#13;ex 2</Example></Sense></LexicalEntry>
<Synset id="ss1" ili="in" partOfSpeech="n">
  <Definition xml:space="preserve">line 1&#13;&#10;line 2</Definition>
  <ILIDefinition xml:space="preserve">an ili definition&#13;with a carriage return</ILIDefinition>
</Synset>''')


def observe():
    ss = wn.synset('ss1')
    return {
        'definition': ss.definition(),
        'ili definition': ss.ili.definition(),
        'sense example': wn.sense('s1').examples(),
        'lemma tag': [t.tag for t in wn.word('e1').lemma().tags()],
    }


n = 0
for version in ('1.0', '1.3'):
    before, after, out = roundtrip(write(SRC), version, observe)
    for key in before:
        ok = before[key] == after[key]
        n += not ok
        print(f'export as {version}: {key}: {"ok" if ok else "VIOLATION"}  EXPECTED {before[key]!r}  OBSERVED {after[key]!r}')
print('violations:', n)
