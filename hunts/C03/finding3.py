"""C03 finding 3: the ILIDefinition (text + metadata) of a synset with a
presupposed ILI (ili="i77") is stored by wn.add but never exported.

Run:  cd /tmp/wh/C03 && PYTHONPATH=/tmp/wh/C03 /venv/bin/python -B _hunt/finding3.py
"""
import sys, os
sys.path.insert(0, os.path.dirname(os.path.abspath(__file__)))
from _common import *

SRC = lexicon('1.0', '''
<LexicalEntry id="e1"><Lemma writtenForm="a" partOfSpeech="n"/><Sense id="s1" synset="ss1"/></LexicalEntry>
<Synset id="ss1" ili="i77" partOfSpeech="n">
  <Definition>d</Definition>
  <ILIDefinition dc:creator="me">a definition given for the presupposed ili</ILIDefinition>
</Synset>''')


def observe():
    ili = wn.synset('ss1').ili
    return (ili.id, ili.status, ili.definition(), ili.metadata())


n = 0
for version in ('1.0', '1.1', '1.3'):
    before, after, out = roundtrip(write(SRC), version, observe)
    ss = lmf.load(out, progress_handler=None)['lexicons'][0]['synsets'][0]
    ok = before == after
    n += not ok
    print(f'export as {version}: {"ok" if ok else "VIOLATION"}')
    print('   EXPECTED ili (id, status, definition, metadata):', before)
    print('   OBSERVED after re-import                       :', after)
    print('   ili_definition in lmf.load(export)             :', ss.get('ili_definition'))
print('violations:', n)
