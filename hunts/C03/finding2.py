"""C03 finding 2: the export of a (non-extension) lexicon contains the tags and
pronunciations that a lexicon EXTENSION attached to its word forms -- even after
the extension has been removed again.

Clause: "yields a resource equivalent to the one that was added: the same
        entries, forms, tags, pronunciations ...".
Code:   tags / pronunciations tables have no lexicon_rowid (wn/schema.sql:94-109);
        get_form_tags / get_form_pronunciations (wn/_queries.py:759-776, both
        "TODO: restrict by lexicon ids") select by form_rowid only, so
        _export_tags / _export_pronunciations (wn/_export.py:164-180) cannot
        restrict to the exported lexicon; the rows also survive wn.remove(ext).
        Scenario 3 also involves FORM_QUERY "f.id = ? OR f.rank = ?"
        (wn/_add.py:39-46) matching the base form of the same rank.
No test pins this (primary_query_test.py:249 selects base AND extension).
Confidence: high.

Run:  cd /tmp/wh/C03 && PYTHONPATH=/tmp/wh/C03 /venv/bin/python -B _hunt/finding2.py
"""
import os
import tempfile

import wn
from wn import lmf

HEAD = '''<?xml version="1.0" encoding="UTF-8"?>
<!DOCTYPE LexicalResource SYSTEM "http://globalwordnet.github.io/schemas/WN-LMF-1.1.dtd">
<LexicalResource xmlns:dc="https://globalwordnet.github.io/schemas/dc/">
'''
BASE = HEAD + '''
  <Lexicon id="base" label="Base" language="en" email="e" license="l" version="1">
    <LexicalEntry id="e1">
      <Lemma writtenForm="alpha" partOfSpeech="n"><Tag category="c">base-tag</Tag></Lemma>
      <Form id="e1-f1" writtenForm="alphas"/>
      <Sense id="s1" synset="ss1"/>
    </LexicalEntry>
    <Synset id="ss1" ili="" partOfSpeech="n"/>
  </Lexicon>
</LexicalResource>
'''
# (1) adds a tag + pronunciation to the base lemma and to a base form
EXT1 = HEAD + '''
  <LexiconExtension id="ext" label="Ext" language="en" email="e" license="l" version="1">
    <Extends id="base" version="1"/>
    <ExternalLexicalEntry id="e1">
      <ExternalLemma><Pronunciation>EXT-PRON</Pronunciation><Tag category="c">EXT-TAG</Tag></ExternalLemma>
      <ExternalForm id="e1-f1"><Pronunciation>EXT-PRON-F</Pronunciation><Tag category="c">EXT-TAG-F</Tag></ExternalForm>
    </ExternalLexicalEntry>
  </LexiconExtension>
</LexicalResource>
'''
# (2) adds a NEW form (with a tag) to the base entry
EXT2 = HEAD + '''
  <LexiconExtension id="ext" label="Ext" language="en" email="e" license="l" version="1">
    <Extends id="base" version="1"/>
    <ExternalLexicalEntry id="e1">
      <Form writtenForm="extform"><Tag category="c">TAG-OF-EXTFORM</Tag></Form>
    </ExternalLexicalEntry>
  </LexiconExtension>
</LexicalResource>
'''

tmp = tempfile.mkdtemp()


def write(name, text):
    path = os.path.join(tmp, name)
    with open(path, 'w', encoding='utf-8') as f:
        f.write(text)
    return path


def new_db():
    wn.config.data_directory = tempfile.mkdtemp()


def observe():
    """tags / pronunciations of every form of base:1, via the public API"""
    w = wn.Wordnet(lexicon='base:1')
    return {
        str(f): ([(t.tag, t.category) for t in f.tags()],
                  [p.value for p in f.pronunciations()])
        for f in w.word('e1').forms()
    }


def loaded_forms(path):
    e = lmf.load(path, progress_handler=None)['lexicons'][0]['entries'][0]
    forms = [e['lemma']] + e.get('forms', [])
    return {f['writtenForm']: ([t['text'] for t in f.get('tags', [])],
                               [p['text'] for p in f.get('pronunciations', [])])
            for f in forms}


base, ext1, ext2 = write('base.xml', BASE), write('ext1.xml', EXT1), write('ext2.xml', EXT2)

new_db()
wn.add(base, progress_handler=None)
expected = observe()
print('EXPECTED (what was added as base:1)      ', expected)
print('EXPECTED lmf.load(source)                ', loaded_forms(base))
violations = 0

scenarios = [
    ('extension installed', [ext1], False),
    ('extension added and REMOVED again', [ext1], True),
    ('extension adds a new form with a tag', [ext2], False),
]
for title, exts, remove in scenarios:
    new_db()
    wn.add(base, progress_handler=None)
    for x in exts:
        wn.add(x, progress_handler=None)
    if remove:
        wn.remove('ext:1', progress_handler=None)
    assert [lex.specifier() for lex in wn.lexicons(lexicon='base')] == ['base:1']
    out = write(f'export-{len(os.listdir(tmp))}.xml', '')
    wn.export(wn.lexicons(lexicon='base:1'), out, version='1.1')
    in_file = loaded_forms(out)
    new_db()
    wn.add(out, progress_handler=None)
    observed = observe()
    ok = observed == expected
    violations += not ok
    print(f'--- {title}: {"ok" if ok else "VIOLATION"}')
    print('   OBSERVED lmf.load(export)             ', in_file)
    print('   OBSERVED after re-import into empty db', observed)

print('violations:', violations)
