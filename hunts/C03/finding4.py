"""C03 finding 4: attributes / metadata whose value is the empty string are
exported as if they were missing ('' becomes None, {'note': ''} becomes {}).

Run:  cd /tmp/wh/C03 && PYTHONPATH=/tmp/wh/C03 /venv/bin/python -B _hunt/finding4.py
"""
import sys, os
sys.path.insert(0, os.path.dirname(os.path.abspath(__file__)))
from _common import *

SRC = lexicon('1.1', '''
<LexicalEntry id="e1" note=""><Lemma writtenForm="a" partOfSpeech="n" script=""/>
  <Sense id="s1" synset="ss1" dc:source=""/></LexicalEntry>
<Synset id="ss1" ili="" partOfSpeech="n"><SynsetRelation target="ss1" relType="also" status=""/></Synset>
''', attrs='url="" citation="" logo=""')


def observe():
    lex = wn.lexicons()[0]
    w = wn.word('e1')
    return {
        'lexicon.url/citation/logo': (lex.url, lex.citation, lex.logo),
        'word.metadata()': w.metadata(),
        'lemma.script': w.lemma().script,
        'sense.metadata()': wn.sense('s1').metadata(),
        'relation metadata': [r.metadata() for r in wn.synset('ss1').relation_map()]
        if hasattr(wn.synset('ss1'), 'relation_map') else None,
    }


n = 0
for version in ('1.1',):
    before, after, out = roundtrip(write(SRC), version, observe)
    for key in before:
        ok = before[key] == after[key]
        n += not ok
        print(f'{key}: {"ok" if ok else "VIOLATION"}  EXPECTED {before[key]!r}  OBSERVED {after[key]!r}')
print('violations:', n)
