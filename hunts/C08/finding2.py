"""C08 finding 2: wn.remove() resolves the specifiers of a space-separated list
lazily, one after the other, *after* the lexicons matched by the previous
specifiers have already been deleted.  A bare id later in the list is therefore
resolved against the shrunken database and selects (and deletes) a lexicon that
none of the specifiers selects on the database the call was made on.

Clauses: "a bare 'id' exactly one lexicon with that id (the most recently added
one)", "a space-separated list the union", "a lexicon matched by none of the
given specifiers is never selected"  (observe_at: wn.remove(specifier) selection)
"""
import tempfile
import wn

def lex(id, version):
    return dict(id=id, version=version, label=id, language='en', email='a@b.c',
                license='x', entries=[], synsets=[], meta=None)

def setup():
    for c in list(wn._db.pool.values()):
        c.close()
    wn._db.pool.clear()
    wn.config.data_directory = tempfile.mkdtemp()
    for id, v in [('ewn', '2020'), ('ewn', '2019'), ('other', '2019')]:   # ewn:2019 is the most recent ewn
        wn.add_lexical_resource({'lmf_version': '1.0', 'lexicons': [lex(id, v)]},
                                progress_handler=None)

bad = 0
for spec in ['ewn:2019 ewn', 'ewn ewn', '*:2019 ewn']:
    setup()
    before = [l.specifier() for l in wn.lexicons()]
    selected = {l.specifier() for l in wn.lexicons(lexicon=spec)}      # what the specifier selects
    wn.remove(spec, progress_handler=None)
    after = [l.specifier() for l in wn.lexicons()]
    expected = [s for s in before if s not in selected]
    ok = expected == after
    bad += not ok
    print(f'wn.remove({spec!r})   selection per wn.lexicons(): {sorted(selected)}\n'
          f'  EXPECTED remaining {expected}\n  OBSERVED remaining {after}  {"ok" if ok else "VIOLATION"}')
print('violations:', bad)
