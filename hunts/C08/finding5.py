"""C08 finding 5 (outside the stated quantifier: versions with whitespace or glob
metacharacters): 'id:version' does not select "exactly that lexicon" when the
version contains a blank, '*', '?' or '['.  The library feeds its own
Lexicon.specifier() strings back into find_lexicons (Relation.lexicon(), the
expand list built from <Requires>), so it returns a wrong lexicon or raises.

Clause: "'id:version' exactly that lexicon"; "a lexicon matched by none of the
given specifiers is never selected".
"""
import tempfile
import wn

def L(id, ver):
    return dict(id=id, version=ver, label=id, language='en', email='a@b.c', license='x', meta=None,
      entries=[],
      synsets=[dict(id=f'{id}-ss1', ili='i1', partOfSpeech='n', members=[], definitions=[], examples=[], meta=None,
                    relations=[dict(target=f'{id}-ss2', relType='hypernym', meta=None)]),
               dict(id=f'{id}-ss2', ili='i2', partOfSpeech='n', members=[], definitions=[], relations=[], examples=[], meta=None)])
bad = 0
for ver in ['1.0 beta', '1.0[beta]', '1.*']:
    for c in list(wn._db.pool.values()):
        c.close()
    wn._db.pool.clear()
    wn.config.data_directory = tempfile.mkdtemp()
    for id, v in [('x', '1.0'), ('x', ver), ('beta', '7')]:
        wn.add_lexical_resource({'lmf_version': '1.0', 'lexicons': [L(id, v)]}, progress_handler=None)
    own = f'x:{ver}'
    got = [l.specifier() for l in wn.lexicons(lexicon=own)]
    ss = [s for s in wn.Wordnet('x:1*').synsets() if s.id == 'x-ss1' and s.lexicon().version == ver][0]
    rel = next(iter(ss.relation_map()))
    try:
        rl = rel.lexicon().specifier()
    except Exception as e:
        rl = f'{type(e).__name__}: {e}'
    ok = got == [own] and rl == own
    bad += not ok
    print(f'version {ver!r}\n  wn.lexicons(lexicon={own!r}): EXPECTED {[own]} OBSERVED {got}\n'
          f'  Relation.lexicon() of a relation defined in {own!r}: EXPECTED {own!r} OBSERVED {rl!r}  {"ok" if ok else "VIOLATION"}')
print('violations:', bad)
