"""C08 finding 1: a glob pattern that contains no '*' (only '?' or '[...]') is
silently truncated to ONE lexicon (the most recently added match).

Clause: "glob patterns by matching 'id:version'" / "'*:version' ... all" (a glob
selects every lexicon whose 'id:version' matches the pattern).
"""
import tempfile, fnmatch
import wn
wn.config.data_directory = tempfile.mkdtemp()

def lex(id, version, lang):
    return dict(id=id, version=version, label=id, language=lang, email='a@b.c',
                license='x', entries=[], synsets=[], meta=None)

rows = [('omw-en', '1.4', 'en'), ('omw-nb', '1.4', 'nb'), ('omw-sq', '1.4', 'sq'),
        ('omw-en31', '1.4', 'en'), ('ewn', '2019', 'en'), ('ewn', '2020', 'en')]
for r in rows:
    wn.add_lexical_resource({'lmf_version': '1.0', 'lexicons': [lex(*r)]},
                            progress_handler=None)

bad = 0
for pattern in ['omw-??:1.4', 'omw-[ens][nbq]:1.4', 'ewn:20??', 'ewn:20[12][09]',
                '???:2020 omw-??:1.4']:
    expected = sorted({f'{i}:{v}' for p in pattern.split() for i, v, _ in rows
                       if fnmatch.fnmatchcase(f'{i}:{v}', p)})
    observed = sorted(l.specifier() for l in wn.lexicons(lexicon=pattern))
    w_obs = sorted(l.specifier() for l in wn.Wordnet(pattern).lexicons())
    ok = expected == observed == w_obs
    bad += not ok
    print(f'{pattern!r}\n  EXPECTED {expected}\n  OBSERVED {observed} (Wordnet: {w_obs})'
          f'  {"ok" if ok else "VIOLATION"}')

# the same pattern with a star somewhere behaves as documented
print("control 'omw-??:1.*' ->", sorted(l.specifier() for l in wn.lexicons(lexicon='omw-??:1.*')))

# consequence for wn.remove(): only one of the three matching lexicons is removed
wn.remove('omw-??:1.4', progress_handler=None)
left = sorted(l.specifier() for l in wn.lexicons(lexicon='omw-*'))
print("after wn.remove('omw-??:1.4')\n  EXPECTED ['omw-en31:1.4']\n  OBSERVED", left,
      'ok' if left == ['omw-en31:1.4'] else 'VIOLATION')
print('violations:', bad + (left != ['omw-en31:1.4']))
