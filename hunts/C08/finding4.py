"""C08 finding 4 (low confidence): with lang=..., a bare id (and any other
star-less specifier) does not select "the most recently added lexicon with that
id" and then restrict by language; the language filter is applied *before* the
most-recent pick, so an older version is selected.

Clauses: "a bare 'id' exactly one lexicon with that id (the most recently added
one)"; "a language code further restricts to lexicons of that language"; "a
request that matches no lexicon at all is an error for Wordnet and an empty list
for wn.lexicons()".
"""
import tempfile
import wn
wn.config.data_directory = tempfile.mkdtemp()

def lex(id, version, lang):
    return dict(id=id, version=version, label=id, language=lang, email='a@b.c',
                license='x', entries=[], synsets=[], meta=None)
# the project changed its language tag between releases (zh -> cmn)
for r in [('omw-cmn', '1.3', 'zh'), ('omw-cmn', '1.4', 'cmn')]:
    wn.add_lexical_resource({'lmf_version': '1.0', 'lexicons': [lex(*r)]}, progress_handler=None)

print("wn.lexicons(lexicon='omw-cmn')            ->", [l.specifier() for l in wn.lexicons(lexicon='omw-cmn')])
obs = [l.specifier() for l in wn.lexicons(lexicon='omw-cmn', lang='zh')]
print("wn.lexicons(lexicon='omw-cmn', lang='zh')\n  EXPECTED [] ('omw-cmn' is omw-cmn:1.4, which is not 'zh')\n  OBSERVED", obs)
try:
    w = wn.Wordnet('omw-cmn', lang='zh')
    print("wn.Wordnet('omw-cmn', lang='zh')\n  EXPECTED wn.Error\n  OBSERVED", [l.specifier() for l in w.lexicons()])
except wn.Error as e:
    print('Wordnet raised', e)
print('violations:', int(obs != []))
