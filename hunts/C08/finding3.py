"""C08 finding 3: a space-separated list is a concatenation, not a union: a
lexicon matched by two specifiers is selected twice.

Clause: "a space-separated list the union".
"""
import tempfile, os
import wn
wn.config.data_directory = tempfile.mkdtemp()

def lex(id, version):
    return dict(id=id, version=version, label=id, language='en', email='a@b.c',
                license='x', synsets=[], meta=None,
                entries=[dict(id=f'{id}-{version}-w', meta=None, forms=[], senses=[],
                              lemma=dict(writtenForm='w', partOfSpeech='n'))])

for id, v in [('ewn', '2020'), ('ewn', '2019'), ('omw-en', '1.4')]:
    wn.add_lexical_resource({'lmf_version': '1.0', 'lexicons': [lex(id, v)]},
                            progress_handler=None)
bad = 0
for spec in ['ewn ewn:*', 'ewn:2019 ewn', 'omw-en *:1.4', '* *']:
    observed = [l.specifier() for l in wn.Wordnet(spec).lexicons()]
    assert observed == [l.specifier() for l in wn.lexicons(lexicon=spec)]
    expected = list(dict.fromkeys(observed))
    ok = expected == observed
    bad += not ok
    print(f'{spec!r}\n  EXPECTED {expected}\n  OBSERVED {observed}  {"ok" if ok else "VIOLATION"}')

# downstream: the documented way to export a selection breaks
path = os.path.join(tempfile.mkdtemp(), 'out.xml')
try:
    wn.export(wn.lexicons(lexicon='omw-en *:1.4'), path)
    print('export: EXPECTED one <Lexicon>, OBSERVED', open(path).read().count('<Lexicon '))
except wn.Error as e:
    bad += 1
    print("export(wn.lexicons(lexicon='omw-en *:1.4')): EXPECTED a file with omw-en:1.4, OBSERVED wn.Error:", e)
print('violations:', bad)
