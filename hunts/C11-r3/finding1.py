"""finding1 (VERY LOW confidence - same root cause as the excluded round-1 C11 F3):
Relation.lexicon() returns the wrong defining lexicon when two installed lexicons have the same
'id:version' concatenation, which is possible with a colon in the id or in the version
(id='a', version='b:1'  vs  id='a:b', version='1' - the lexicons table is UNIQUE(id, version), so
both can be installed).  A Relation only remembers the string 'a:b:1' and re-resolves it with
find_lexicons(), which returns the most recently added match.  Relation.__eq__/__hash__ also use that
string, so relations declared by the two lexicons compare equal.
"""
import shutil
import sys
import tempfile

import wn

tmp = tempfile.mkdtemp()
wn.config.data_directory = tmp


def lex(id, version):
    return dict(id=id, version=version, label=id, language='en', email='a@b.c',
                license='x', meta=None, entries=[],
                synsets=[dict(id='s0', ili='', partOfSpeech='n', meta=None,
                              relations=[dict(target='s1', relType='hypernym', meta=None)]),
                         dict(id='s1', ili='', partOfSpeech='n', meta=None, relations=[])])


try:
    for id, ver in [('a', 'b:1'), ('a:b', '1')]:
        wn.add_lexical_resource(dict(lmf_version='1.1', lexicons=[lex(id, ver)]),
                                progress_handler=None)
    bad = False
    for s in wn.synsets():
        own = s.lexicon()
        for r in s.relation_map():
            got = r.lexicon()
            print(f'relation of {s.id} declared in lexicon (id={own.id!r}, version={own.version!r})')
            print(f'  EXPECTED Relation.lexicon(): id={own.id!r} version={own.version!r}')
            print(f'  OBSERVED Relation.lexicon(): id={got.id!r} version={got.version!r}')
            if (got.id, got.version) != (own.id, own.version):
                bad = True
finally:
    from wn import _db
    for c in _db.pool.values():
        c.close()
    shutil.rmtree(tmp, ignore_errors=True)
sys.exit(1 if bad else 0)
