"""C10 finding 1 (low confidence): a default-mode entity obtained BEFORE a lexicon
extension is added lists the extension's senses (family computed live) but cannot
navigate from them (Sense.word()/synset() search the Wordnet's lexicon ids frozen at
creation): word.synsets(), synset.words(), synset.lemmas(), word.translate() raise wn.Error.

run: cd /tmp/wh2/C10 && PYTHONPATH=/tmp/wh2/C10 /venv/bin/python -B _hunt/finding1.py
"""
import os, tempfile, warnings
import wn
warnings.simplefilter('ignore')
wn.config.data_directory = tempfile.mkdtemp()

HEAD = ('<?xml version="1.0" encoding="UTF-8"?>\n'
        '<!DOCTYPE LexicalResource SYSTEM "http://globalwordnet.github.io/schemas/WN-LMF-1.1.dtd">\n'
        '<LexicalResource xmlns:dc="https://globalwordnet.github.io/schemas/dc/">\n')
A = '''<Lexicon id="A" label="A" language="en" email="e" license="l" version="1">
<LexicalEntry id="w1"><Lemma partOfSpeech="n" writtenForm="one"/><Sense id="s1" synset="ss1"/></LexicalEntry>
<Synset id="ss1" ili="i1" partOfSpeech="n"/>
</Lexicon>'''
X = '''<LexiconExtension id="X" label="X" language="en" email="e" license="l" version="1">
<Extends id="A" version="1"/>
<ExternalLexicalEntry id="w1"><Sense id="xs1" synset="xss1"/></ExternalLexicalEntry>
<LexicalEntry id="xw1"><Lemma partOfSpeech="n" writtenForm="xone"/><Sense id="xs2" synset="ss1"/></LexicalEntry>
<Synset id="xss1" ili="i2" partOfSpeech="n"/>
<ExternalSynset id="ss1"/>
</LexiconExtension>'''


def add(name, body):
    p = os.path.join(wn.config.data_directory, name)
    with open(p, 'w') as f:
        f.write(HEAD + body + '\n</LexicalResource>\n')
    wn.add(p, progress_handler=None)


add('a.xml', A)
word = wn.word('w1')        # default mode (no lexicon, no lang)
synset = wn.synset('ss1')
add('x.xml', X)             # an extension of A:1 is installed afterwards

print('word.senses()   =', word.senses())
print('synset.senses() =', synset.senses())
print("EXPECTED: word.synsets() == [s.synset() for s in word.senses()] == [Synset('ss1'), Synset('xss1')]")
print("          synset.words() == [Word('w1'), Word('xw1')]   (or the X senses not listed at all)")
for label, call in (('word.synsets()', word.synsets), ('synset.words()', synset.words),
                    ('synset.lemmas()', synset.lemmas), ('word.translate()', word.translate)):
    try:
        print('OBSERVED:', label, '=', call())
    except wn.Error as exc:
        print('OBSERVED:', label, 'raised wn.Error:', exc)
# the same entities fetched after the add navigate fine:
print('fresh   :', wn.word('w1').synsets(), wn.synset('ss1').words())
