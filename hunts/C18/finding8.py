"""With a duplicated synset id (itself E101) other checks become inexact: W403 spurious, W501 missed."""
from _common import items
w403 = ('<Synset id="ss1" ili=""><SynsetRelation relType="also" target="ss2"/></Synset>'
        '<Synset id="ss1" ili=""><SynsetRelation relType="also" target="ss2"/></Synset><Synset id="ss2" ili=""/>')
print('W403 EXPECTED: {} (no synset element has the same relation twice)')
print('W403 OBSERVED:', items(w403, 'W403'))
w501 = ('<Synset id="ss1" ili="" partOfSpeech="n"><SynsetRelation relType="hypernym" target="ss2"/></Synset>'
        '<Synset id="ss2" ili="" partOfSpeech="v"/><Synset id="ss2" ili="" partOfSpeech="n"/>')
print("W501 EXPECTED: ss1 (one of the synsets called ss2 is a verb)")
print('W501 OBSERVED:', items(w501, 'W501'))
