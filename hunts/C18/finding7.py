"""select given as a single code string runs a whole category instead of exactly that check."""
from _common import load
from wn.validate import validate
lex = load('')['lexicons'][0]
for sel in ('E101', 'W305'):
    got = list(validate(lex, select=sel, progress_handler=None))
    print(f'select={sel!r}: EXPECTED [{sel!r}]  OBSERVED {got}', '-> VIOLATION' if got != [sel] else '')
print("select=['e401', 'E999'] (unknown codes are silently dropped):", validate(lex, select=['e401', 'E999'], progress_handler=None))
