"""Shared helper for the finding scripts (kept tiny; each finding passes its own XML)."""
import os, tempfile
import wn
wn.config.data_directory = tempfile.mkdtemp()
from wn import lmf
from wn.validate import validate

HEAD = ('<?xml version="1.0" encoding="UTF-8"?>\n'
        '<!DOCTYPE LexicalResource SYSTEM "http://globalwordnet.github.io/schemas/WN-LMF-1.1.dtd">\n'
        '<LexicalResource xmlns:dc="https://globalwordnet.github.io/schemas/dc/">\n')


def load(body, lexid='L'):
    xml = (HEAD + f'<Lexicon id="{lexid}" label="L" language="en" email="a@b" '
           f'license="x" version="1">\n{body}\n</Lexicon>\n</LexicalResource>\n')
    path = os.path.join(tempfile.mkdtemp(), 'lex.xml')
    with open(path, 'w', encoding='utf-8') as f:
        f.write(xml)
    return lmf.load(path, progress_handler=None)


def items(body, code):
    lex = load(body)['lexicons'][0]
    return validate(lex, select=[code], progress_handler=None)[code]['items']
