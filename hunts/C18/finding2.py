"""W404 lists an entity that does not exist when a synset relation is dangling (sense branch filters, synset branch does not)."""
from _common import items
syn = '<Synset id="ss1" ili="" partOfSpeech="n"><SynsetRelation relType="hypernym" target="nope"/></Synset>'
sen = ('<LexicalEntry id="e1"><Lemma writtenForm="cat" partOfSpeech="n"/>'
       '<Sense id="s1" synset="ss1"><SenseRelation relType="antonym" target="nope"/></Sense></LexicalEntry>'
       '<Synset id="ss1" ili="" partOfSpeech="n"/>')
print('E401 (synset case)', items(syn, 'E401'))
got = items(syn, 'W404')
print('EXPECTED W404 items (synset relation to missing target): {}  -- "nope" is not an entity of the lexicon; E401 already covers it')
print('OBSERVED W404 items:', got)
print('W404 items for the same situation with a SENSE relation (filtered, as expected):', items(sen, 'W404'))
print('VIOLATION' if 'nope' in got else 'ok')
