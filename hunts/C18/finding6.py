"""Items are keyed by one id only, so several violations on the same key collapse into one: violations are missed."""
from _common import items
two = ('<LexicalEntry id="e1"><Lemma writtenForm="cat" partOfSpeech="n"/><Sense id="s1" synset="ss1"/><Sense id="s2" synset="ss2"/></LexicalEntry>'
       '<LexicalEntry id="e2"><Lemma writtenForm="cat" partOfSpeech="n"/><Sense id="s3" synset="ss1"/><Sense id="s4" synset="ss2"/></LexicalEntry>'
       '<Synset id="ss1" ili="" partOfSpeech="n"/><Synset id="ss2" ili="" partOfSpeech="n"/>')
print('W203 EXPECTED: both (cat, ss1) and (cat, ss2) reported')
print('W203 OBSERVED:', items(two, 'W203'))
dang = '<Synset id="ss1" ili=""><SynsetRelation relType="hypernym" target="x"/><SynsetRelation relType="also" target="y"/></Synset>'
print('E401 EXPECTED: both dangling targets x and y of ss1 reported')
print('E401 OBSERVED:', items(dang, 'E401'))
red = ('<Synset id="ss1" ili=""><SynsetRelation relType="hypernym" target="ss2"/><SynsetRelation relType="hypernym" target="ss2"/>'
       '<SynsetRelation relType="also" target="ss2"/><SynsetRelation relType="also" target="ss2"/></Synset><Synset id="ss2" ili=""/>')
print('W403 EXPECTED: both redundant relations (hypernym->ss2, also->ss2) reported')
print('W403 OBSERVED:', items(red, 'W403'))
rev = ('<Synset id="ss1" ili=""><SynsetRelation relType="hypernym" target="ss3"/></Synset>'
       '<Synset id="ss2" ili=""><SynsetRelation relType="hypernym" target="ss3"/></Synset><Synset id="ss3" ili=""/>')
print('W404 EXPECTED: ss3 lacks hyponym->ss1 AND hyponym->ss2')
print('W404 OBSERVED:', items(rev, 'W404'))
