"""W304 context field is misspelt ('ili_definitin') and carries the raw element dict rather than the text."""
from _common import items
body = '<Synset id="ss1" ili="i1" partOfSpeech="n"><ILIDefinition>foo</ILIDefinition></Synset>'
got = items(body, 'W304')
print("EXPECTED W304 items: {'ss1': {'ili_definition': ...}}")
print('OBSERVED W304 items:', got)
print('VIOLATION' if 'ili_definition' not in got.get('ss1', {}) else 'ok')
