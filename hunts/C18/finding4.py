"""W303 'Proposed ILI is missing a definition' is not reported when the <ILIDefinition> is present but blank."""
from _common import items
body = '''
<Synset id="ss1" ili="in" partOfSpeech="n"><ILIDefinition></ILIDefinition></Synset>
<Synset id="ss2" ili="in" partOfSpeech="n"><ILIDefinition>   </ILIDefinition></Synset>
<Synset id="ss3" ili="in" partOfSpeech="n"/>
<Synset id="ss4" ili="in" partOfSpeech="n"><ILIDefinition>a real definition of some length</ILIDefinition></Synset>
'''
got = items(body, 'W303')
print("EXPECTED W303 items: ss1, ss2, ss3 (none of them gives the proposed ILI any definition text)")
print('OBSERVED W303 items:', got)
print('VIOLATION' if set(got) != {'ss1', 'ss2', 'ss3'} else 'ok')
