"""E101 misses non-unique ids carried by entry-level <SyntacticBehaviour> elements (id is an XML ID in WN-LMF >= 1.1)."""
from _common import items
dup_lexlevel = '''
<LexicalEntry id="e1"><Lemma writtenForm="run" partOfSpeech="v"/><Sense id="s1" synset="ss1"/></LexicalEntry>
<Synset id="ss1" ili="" partOfSpeech="v"/>
<SyntacticBehaviour id="sb1" subcategorizationFrame="a"/>
<SyntacticBehaviour id="sb1" subcategorizationFrame="b"/>
'''
dup_entrylevel = '''
<LexicalEntry id="e1"><Lemma writtenForm="run" partOfSpeech="v"/><Sense id="s1" synset="ss1"/>
  <SyntacticBehaviour id="sb1" subcategorizationFrame="a"/>
  <SyntacticBehaviour id="sb1" subcategorizationFrame="b"/>
  <SyntacticBehaviour id="ss1" subcategorizationFrame="c"/>
</LexicalEntry>
<Synset id="ss1" ili="" partOfSpeech="v"/>
'''
print('lexicon-level frames, OBSERVED:', items(dup_lexlevel, 'E101'))
got = items(dup_entrylevel, 'E101')
print("entry-level frames, EXPECTED: {'sb1': {'count': 2}, 'ss1': {'count': 2}}")
print('entry-level frames, OBSERVED:', got)
print('VIOLATION' if set(got) != {'sb1', 'ss1'} else 'ok')
