"""W203 'Redundant lexical entry with the same lemma and synset' fires when there is only ONE lexical entry."""
from _common import items
body = '''
<LexicalEntry id="e1"><Lemma writtenForm="cat" partOfSpeech="n"/>
  <Sense id="s1" synset="ss1"/><Sense id="s2" synset="ss1"/>
</LexicalEntry>
<Synset id="ss1" ili="" partOfSpeech="n"/>
'''
print('W202 (correctly reports the redundant senses):', items(body, 'W202'))
got = items(body, 'W203')
print('EXPECTED W203 items: {}   (one entry only; no second entry with lemma "cat" exists)')
print('OBSERVED W203 items:', got)
print('VIOLATION' if got else 'ok')
