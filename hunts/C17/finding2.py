"""C17 finding 2: the exception map of an initialized Morphy is keyed by wn.Form
objects, whose __eq__ also compares the `script` attribute (while __hash__ does
not).  When two words list the same additional form with different `script`
values (e.g. one lexicon annotates script="Latn", another leaves it out), the map
gets several "equal-looking" keys and the lookup with the plain query string hits
only the first one: lemmas of the other words are never returned.
"""
import os, tempfile
import wn
from wn.morphy import Morphy

wn.config.data_directory = tempfile.mkdtemp()
XML = '''<?xml version="1.0" encoding="UTF-8"?>
<!DOCTYPE LexicalResource SYSTEM "http://globalwordnet.github.io/schemas/WN-LMF-1.1.dtd">
<LexicalResource xmlns:dc="http://globalwordnet.github.io/schemas/dc/">
<Lexicon id="la" label="la" language="en" email="a@b.c" license="x" version="1">
  <LexicalEntry id="la-datum-n"><Lemma partOfSpeech="n" writtenForm="datum"/>
    <Form writtenForm="data" script="Latn"/>
    <Sense id="la-datum-n-1" synset="la-1-n"/></LexicalEntry>
  <Synset id="la-1-n" ili="" partOfSpeech="n"/>
</Lexicon>
<Lexicon id="lb" label="lb" language="en" email="a@b.c" license="x" version="1">
  <LexicalEntry id="lb-data_point-n"><Lemma partOfSpeech="n" writtenForm="data point"/>
    <Form writtenForm="data"/>
    <Sense id="lb-data_point-n-1" synset="lb-1-n"/></LexicalEntry>
  <Synset id="lb-1-n" ili="" partOfSpeech="n"/>
</Lexicon>
</LexicalResource>
'''
path = os.path.join(tempfile.mkdtemp(), 'l.xml')
with open(path, 'w', encoding='utf-8') as f:
    f.write(XML)
wn.add(path, progress_handler=None)

plain = wn.Wordnet('la lb')
m = Morphy(plain)
ids = lambda xs: sorted(x.id for x in xs)

print("words listing 'data' as an additional form:",
      [(w.id, w.lemma()) for w in plain.words() if 'data' in w.forms()[1:]])
print("EXPECTED m('data', 'n') = {'n': {'datum', 'data point'}}")
print("OBSERVED m('data', 'n') =", m('data', 'n'))
print("EXPECTED m('data')      = {'n': {'datum', 'data point'}}")
print("OBSERVED m('data')      =", m('data'))
print('internal exception map :', m._exceptions['n'])

init = wn.Wordnet('la lb'); init.lemmatizer = m
uninit = wn.Wordnet('la lb', lemmatizer=Morphy())
print("no lemmatizer        words('data') =", ids(plain.words('data')))
print("uninitialized Morphy words('data') =", ids(uninit.words('data')))
print("initialized Morphy   words('data') =", ids(init.words('data')), ' <-- OBSERVED')
exp = {'datum', 'data point'}
obs = set(map(str, m('data', 'n').get('n', ())))
print('EXPECTED', sorted(exp)); print('OBSERVED', sorted(obs))
print('VIOLATION' if exp != obs else 'ok')

