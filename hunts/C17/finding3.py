"""C17 finding 3 (low confidence): with a lemmatizer, the normalisation fallback of
_find_helper is applied to the whole proposal set, not per (pos, form) pair.  As soon
as one proposed pair has an exact hit, pairs that would only hit through query-side
normalisation contribute nothing, so the result is NOT the union of what each
proposed pair finds on the same Wordnet.
"""
import sys; sys.path.insert(0, '/tmp/wh/C17/_hunt')
from _mk import build, wn
from wn.morphy import Morphy

build([('n', 'Ares', [], 'n'), ('n', 'are', [], 'n'), ('v', 'are', [], 'v')])
plain = wn.Wordnet('lx')
lem = wn.Wordnet('lx', lemmatizer=Morphy())
ids = lambda xs: sorted(x.id for x in xs)
prop = Morphy()('Ares')
print('proposed pairs:', prop)
union = set()
for pos, forms in prop.items():
    for f in forms:
        got = ids(plain.words(f, pos))
        print(f'  pair ({pos!r}, {f!r}) alone finds', got)
        union |= set(got)
obs = ids(lem.words('Ares'))
print('EXPECTED (union of pairs):', sorted(union))
print("OBSERVED words('Ares')   :", obs)
print('VIOLATION' if sorted(union) != obs else 'ok')
