import os, tempfile, itertools
from xml.sax.saxutils import quoteattr
import wn

HEAD = '''<?xml version="1.0" encoding="UTF-8"?>
<!DOCTYPE LexicalResource SYSTEM "http://globalwordnet.github.io/schemas/WN-LMF-1.1.dtd">
<LexicalResource xmlns:dc="http://globalwordnet.github.io/schemas/dc/">
'''


def fresh():
    d = tempfile.mkdtemp(prefix='c17_')
    wn.config.data_directory = d
    return d


def lexicon_xml(lexid, entries, version='1', lang='en', sspos=None):
    """entries: list of (pos, lemma, [other forms]) ; one synset per entry."""
    out = [f'<Lexicon id="{lexid}" label="{lexid}" language="{lang}" '
           f'email="a@b.c" license="x" version="{version}">']
    syn = []
    for i, e in enumerate(entries):
        pos, lemma, forms = e[:3]
        spos = e[3] if len(e) > 3 else pos
        eid = f'{lexid}-e{i}'
        out.append(f'<LexicalEntry id="{eid}">')
        out.append(f'<Lemma partOfSpeech="{pos}" writtenForm={quoteattr(lemma)} />')
        for f in forms:
            if isinstance(f, tuple):
                out.append(f'<Form writtenForm={quoteattr(f[0])} script="{f[1]}" />')
            else:
                out.append(f'<Form writtenForm={quoteattr(f)} />')
        out.append(f'<Sense id="{eid}-s" synset="{lexid}-ss{i}" />')
        out.append('</LexicalEntry>')
        syn.append(f'<Synset id="{lexid}-ss{i}" ili="" partOfSpeech="{spos}" />')
    out.extend(syn)
    out.append('</Lexicon>')
    return '\n'.join(out)


def add_xml(body, name='lex.xml'):
    d = tempfile.mkdtemp(prefix='c17x_')
    p = os.path.join(d, name)
    with open(p, 'w', encoding='utf-8') as fh:
        fh.write(HEAD + body + '\n</LexicalResource>\n')
    wn.add(p, progress_handler=None)
    return p
