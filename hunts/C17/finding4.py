"""C17 finding 4 (low severity): Morphy(wordnet) raises KeyError when the wordnet
contains a word whose partOfSpeech is not in wn.constants.PARTS_OF_SPEECH.  wn.add()
accepts such lexicons and every other query works on them.
"""
import sys; sys.path.insert(0, '/tmp/wh/C17/_hunt')
from _mk import build, wn
from wn.morphy import Morphy

build([('n', 'wolf', ['wolves'], 'n'), ('z', 'zed', [], 'z')])
w = wn.Wordnet('lx')
print('words load fine:', [(x.id, x.pos) for x in w.words()])
print("EXPECTED Morphy(w)('wolves', 'n') == {'n': {'wolf'}}")
try:
    print('OBSERVED', Morphy(w)('wolves', 'n'))
except Exception as e:
    print('OBSERVED', type(e).__name__, e, '-> VIOLATION (initialized Morphy cannot be built)')
