"""C17 observation 5 (a/s entries; low confidence): initialized Morphy proposes the
WORD's part of speech, but Wordnet.synsets(form, pos) filters on the SYNSET's part of
speech.  For an adjective word (pos a) whose synset is a satellite (pos s), or vice
versa, synsets(q) with an initialized Morphy finds nothing although the same Wordnet
without a lemmatizer, or with an uninitialized Morphy, finds the synset.
"""
import sys; sys.path.insert(0, '/tmp/wh/C17/_hunt')
from _mk import build, wn
from wn.morphy import Morphy

build([('a', 'tall', [], 's'), ('n', 'dog', [], 'n')])
plain = wn.Wordnet('lx')
init = wn.Wordnet('lx'); init.lemmatizer = Morphy(init)
uninit = wn.Wordnet('lx', lemmatizer=Morphy())
for q in ('tall', 'tallest'):
    print(q, 'proposals', init.lemmatizer(q))
    print('  words   plain/uninit/init:', plain.words(q), uninit.words(q), init.words(q))
    print('  synsets plain/uninit/init:', plain.synsets(q), uninit.synsets(q), init.synsets(q))
print("EXPECTED init.synsets('tall') == plain.synsets('tall') ==", plain.synsets('tall'))
print("OBSERVED init.synsets('tall') ==", init.synsets('tall'))
print('DISCREPANCY' if init.synsets('tall') != plain.synsets('tall') else 'ok')
