import os, tempfile
import wn

HEAD = '''<?xml version="1.0" encoding="UTF-8"?>
<!DOCTYPE LexicalResource SYSTEM "http://globalwordnet.github.io/schemas/WN-LMF-1.1.dtd">
<LexicalResource xmlns:dc="http://globalwordnet.github.io/schemas/dc/">
<Lexicon id="lx" label="lx" language="en" email="a@b.c" license="x" version="1">
'''


def build(entries):
    """entries: (word pos, lemma, [forms], synset pos). Fresh DB, lexicon 'lx'."""
    wn.config.data_directory = tempfile.mkdtemp()
    body, syn = [], []
    for i, (pos, lemma, forms, sspos) in enumerate(entries):
        body.append(f'<LexicalEntry id="lx-e{i}"><Lemma partOfSpeech="{pos}" writtenForm="{lemma}"/>'
                    + ''.join(f'<Form writtenForm="{f}"/>' for f in forms)
                    + f'<Sense id="lx-e{i}-s" synset="lx-ss{i}"/></LexicalEntry>')
        syn.append(f'<Synset id="lx-ss{i}" ili="" partOfSpeech="{sspos}"/>')
    path = os.path.join(tempfile.mkdtemp(), 'lx.xml')
    with open(path, 'w', encoding='utf-8') as f:
        f.write(HEAD + '\n'.join(body + syn) + '\n</Lexicon>\n</LexicalResource>\n')
    wn.add(path, progress_handler=None)
