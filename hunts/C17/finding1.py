"""C17 finding 1: an initialized Morphy ignores every part of speech other than
n/v/a/r/s, so it does not return the query itself (nor lemmas reached through
additional forms) for words whose pos is c, p, x, u or t.  With pos=None this
silently removes those words from Wordnet.words()/senses()/synsets().
"""
import os, tempfile
import wn
from wn.morphy import Morphy

wn.config.data_directory = tempfile.mkdtemp()
XML = '''<?xml version="1.0" encoding="UTF-8"?>
<!DOCTYPE LexicalResource SYSTEM "http://globalwordnet.github.io/schemas/WN-LMF-1.1.dtd">
<LexicalResource xmlns:dc="http://globalwordnet.github.io/schemas/dc/">
<Lexicon id="lx" label="lx" language="en" email="a@b.c" license="x" version="1">
  <LexicalEntry id="lx-but-n"><Lemma partOfSpeech="n" writtenForm="but"/>
    <Sense id="lx-but-n-1" synset="lx-1-n"/></LexicalEntry>
  <LexicalEntry id="lx-but-c"><Lemma partOfSpeech="c" writtenForm="but"/>
    <Sense id="lx-but-c-1" synset="lx-2-c"/></LexicalEntry>
  <LexicalEntry id="lx-till-p"><Lemma partOfSpeech="p" writtenForm="till"/>
    <Form writtenForm="but"/>
    <Sense id="lx-till-p-1" synset="lx-3-p"/></LexicalEntry>
  <Synset id="lx-1-n" ili="" partOfSpeech="n"/>
  <Synset id="lx-2-c" ili="" partOfSpeech="c"/>
  <Synset id="lx-3-p" ili="" partOfSpeech="p"/>
</Lexicon>
</LexicalResource>
'''
path = os.path.join(tempfile.mkdtemp(), 'lx.xml')
with open(path, 'w', encoding='utf-8') as f:
    f.write(XML)
wn.add(path, progress_handler=None)

plain = wn.Wordnet('lx')
m = Morphy(plain)

print('--- Morphy level')
print("EXPECTED m('but')      ⊇ {'n': {'but'}, 'c': {'but'}, 'p': {'till'}}")
print("OBSERVED m('but')      =", m('but'))
print("EXPECTED m('but', 'c') ⊇ {'c': {'but'}}   ('but' is a lemma of a pos-c word)")
print("OBSERVED m('but', 'c') =", m('but', 'c'))
print("EXPECTED m('but', 'p') ⊇ {'p': {'till'}}  ('till' lists 'but' as an additional form)")
print("OBSERVED m('but', 'p') =", m('but', 'p'))

print('--- Wordnet level (pos=None)')
init = wn.Wordnet('lx'); init.lemmatizer = m
uninit = wn.Wordnet('lx', lemmatizer=Morphy())
ids = lambda xs: sorted(x.id for x in xs)
for kind in ('words', 'senses', 'synsets'):
    print(f'{kind:8s} no lemmatizer      :', ids(getattr(plain, kind)('but')))
    print(f'{kind:8s} uninitialized Morphy:', ids(getattr(uninit, kind)('but')))
    print(f'{kind:8s} initialized Morphy  :', ids(getattr(init, kind)('but')), ' <-- OBSERVED')
exp = ids(plain.words('but'))
obs = ids(init.words('but'))
print('EXPECTED', exp)
print('OBSERVED', obs)
print('VIOLATION' if exp != obs else 'ok')
