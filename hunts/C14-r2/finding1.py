"""C14 finding 1: res / jcn / lin raise KeyError('') as soon as one common hypernym of the two
synsets is an *INFERRED* placeholder (a concept that exists only in an expand lexicon).

Run:  cd /tmp/wh2/C14 && PYTHONPATH=/tmp/wh2/C14 /venv/bin/python -B _hunt/finding1.py
"""
import math, os, tempfile
import wn, wn.ic
from wn.similarity import res, jcn, lin, path, wup

wn.config.data_directory = tempfile.mkdtemp()

HEAD = ('<?xml version="1.0" encoding="UTF-8"?>\n'
        '<!DOCTYPE LexicalResource SYSTEM "http://globalwordnet.github.io/schemas/WN-LMF-1.1.dtd">\n'
        '<LexicalResource xmlns:dc="https://globalwordnet.github.io/schemas/dc/">\n')

def entry(lex, ss, form):
    return (f'<LexicalEntry id="{lex}-w-{ss}"><Lemma partOfSpeech="n" writtenForm="{form}"/>'
            f'<Sense id="{lex}-s-{ss}" synset="{ss}"/></LexicalEntry>\n')

# expand lexicon E:  E-3 -> E-2 -> E-1 ,  E-4 -> E-2        (ILIs i3 -> i2 -> i1, i4 -> i2)
E = (HEAD + '<Lexicon id="E" label="E" language="en" email="a@b.c" license="x" version="1">\n'
     + entry('E', 'E-1', 'e1') + entry('E', 'E-2', 'e2') + entry('E', 'E-3', 'e3') + entry('E', 'E-4', 'e4')
     + '<Synset id="E-1" ili="i1" partOfSpeech="n"/>\n'
     + '<Synset id="E-2" ili="i2" partOfSpeech="n"><SynsetRelation relType="hypernym" target="E-1"/></Synset>\n'
     + '<Synset id="E-3" ili="i3" partOfSpeech="n"><SynsetRelation relType="hypernym" target="E-2"/></Synset>\n'
     + '<Synset id="E-4" ili="i4" partOfSpeech="n"><SynsetRelation relType="hypernym" target="E-2"/></Synset>\n'
     + '</Lexicon></LexicalResource>\n')
# L has the concepts i1, i3, i4 but NOT i2; it has no relations of its own and requires E
L = (HEAD + '<Lexicon id="L" label="L" language="en" email="a@b.c" license="x" version="1">\n'
     + '<Requires id="E" version="1"/>\n'
     + entry('L', 'L-1', 'root') + entry('L', 'L-3', 'three') + entry('L', 'L-4', 'four')
     + '<Synset id="L-1" ili="i1" partOfSpeech="n"/>\n'
     + '<Synset id="L-3" ili="i3" partOfSpeech="n"/>\n'
     + '<Synset id="L-4" ili="i4" partOfSpeech="n"/>\n'
     + '</Lexicon></LexicalResource>\n')
d = tempfile.mkdtemp()
for name, text in (('E.xml', E), ('L.xml', L)):
    with open(os.path.join(d, name), 'w') as f:
        f.write(text)
    wn.add(os.path.join(d, name), progress_handler=None)

w = wn.Wordnet('L:1')                       # E:1 is expanded automatically (Requires)
a, b, r = w.synset('L-3'), w.synset('L-4'), w.synset('L-1')
print('hypernym paths of L-3     :', a.hypernym_paths())
print('common hypernyms(L-3,L-4) :', a.common_hypernyms(b))
print('path, wup work            :', path(a, b), wup(a, b))

# weights computed by the library itself for this wordnet (ic.compute supports placeholders)
ic = wn.ic.compute(['three', 'four', 'four'], w)
print('ic =', ic['n'])
IC = lambda ss: -math.log(ic['n'][ss.id] / ic['n'][None])

def show(f, x, y):
    try:
        return repr(f(x, y, ic))
    except wn.Error as e:
        return 'wn.Error: ' + str(e)
    except Exception as e:
        return 'RAISES ' + type(e).__name__ + '(' + str(e) + ')'

# The stored common subsumers of (L-3, L-4) are {L-1}; of (L-3, L-3) they are {L-3, L-1}.
exp = {
    ('res', 'L-3', 'L-4'): IC(r),
    ('res', 'L-3', 'L-3'): max(IC(a), IC(r)),
    ('jcn', 'L-3', 'L-4'): 1 / (IC(a) + IC(b) - 2 * IC(r)),
    ('jcn', 'L-3', 'L-3'): float('inf'),
    ('lin', 'L-3', 'L-4'): 2 * IC(r) / (IC(a) + IC(b)),
    ('lin', 'L-3', 'L-3'): 1.0,
}
failed = False
for (nm, x, y), e in exp.items():
    f = {'res': res, 'jcn': jcn, 'lin': lin}[nm]
    got = show(f, w.synset(x), w.synset(y))
    print(f'{nm}({x},{y}):  EXPECTED {e!r} (or at least a wn.Error)   OBSERVED {got}')
    failed |= got.startswith('RAISES')
# control: pair whose common hypernyms are all stored works
print('control res(L-3, L-1) =', show(res, a, r))

# the same in default mode without any Requires: merely having another lexicon installed
a2 = wn.synset('L-3')
print('default mode: res(wn.synset(L-3), wn.synset(L-3)) EXPECTED', max(IC(a), IC(r)), 'OBSERVED', show(res, a2, a2))
print('VIOLATION' if failed else 'ok')
