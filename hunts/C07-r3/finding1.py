"""C07 finding 1 (LOW confidence - probably outside the quantifier, see FINDINGS.txt).

_precheck() keys its skip map by the string "id:version".  Two different lexicons of ONE resource whose
(id, version) pairs join to the same string - ('a', 'b:1') and ('a:b', '1') - share one skip-map entry, so the
decision taken for the later one overwrites the decision for the earlier one.

History: add p.xml  = [ a:b / 1 ]
         add qp.xml = [ a / b:1 (new) , a:b / 1 (already installed) ]
EXPECTED (statement): the installed lexicon changes nothing, the new lexicon ('a','b:1') is stored - as it is when
         the same lexicon is supplied in a file of its own.
OBSERVED: wn.add returns silently and ('a','b:1') is NOT stored (its skip flag was overwritten with True).
         With the two lexicons in the opposite order the add raises sqlite3.IntegrityError instead.
"""
import sys, tempfile, shutil
from pathlib import Path
import wn

HEAD = ('<?xml version="1.0" encoding="UTF-8"?>\n'
        '<!DOCTYPE LexicalResource SYSTEM "http://globalwordnet.github.io/schemas/WN-LMF-1.1.dtd">\n'
        '<LexicalResource xmlns:dc="https://globalwordnet.github.io/schemas/dc/">\n')
TAIL = '</LexicalResource>\n'


def lex(i, v):
    e = (i + '_' + v).replace(':', '_')
    return (f'<Lexicon id="{i}" version="{v}" label="l" language="en" email="e" license="l">'
            f'<LexicalEntry id="{e}-e"><Lemma writtenForm="w" partOfSpeech="n"/></LexicalEntry></Lexicon>\n')


def installed():
    return sorted((l.id, l.version) for l in wn.lexicons())


def run(docs):
    d = tempfile.mkdtemp()
    w = Path(tempfile.mkdtemp())
    wn.config.data_directory = d
    err = None
    try:
        for n, body in enumerate(docs):
            p = w / f'r{n}.xml'
            p.write_text(HEAD + body + TAIL)
            try:
                wn.add(p, progress_handler=None)
            except Exception as exc:  # noqa
                err = f'{type(exc).__name__}: {exc}'
        return installed(), err
    finally:
        from wn import _db
        for c in _db.pool.values():
            c.close()
        _db.pool.clear()
        shutil.rmtree(d)
        shutil.rmtree(w)


P, Q = lex('a:b', '1'), lex('a', 'b:1')
expected, _ = run([P, Q])            # every lexicon in a file of its own
observed, err = run([P, Q + P])      # the new lexicon together with the installed one
observed2, err2 = run([P, P + Q])    # other order
print('EXPECTED installed lexicons:', expected)
print('OBSERVED [P] then [Q,P]    :', observed, '| error:', err)
print('OBSERVED [P] then [P,Q]    :', observed2, '| error:', err2)
sys.exit(1 if (observed != expected or observed2 != expected) else 0)
