"""C10 finding 1: an extension selected without its base cannot navigate.

Clause: "sense.word() is the word under which the sense was declared and
sense.synset() the synset it references; ... sense and word translation are
its [synset.translate()'s] images" -- for "extensions whose senses attach to
base entries or base synsets" x "Wordnet selections (default mode, single
lexicon, several lexicons, lang)".

Uses only the repository's own fixtures tests/data/mini-lmf-1.0.xml + 1.1.xml.
"""
import tempfile
import wn

wn.config.data_directory = tempfile.mkdtemp()
wn.add('/tmp/wh/C10/tests/data/mini-lmf-1.0.xml', progress_handler=None)
wn.add('/tmp/wh/C10/tests/data/mini-lmf-1.1.xml', progress_handler=None)


def attempt(label, expected, fn):
    try:
        observed = repr(fn())
    except Exception as exc:  # noqa
        observed = f'raised {type(exc).__name__}: {exc}'
    flag = 'ok  ' if observed == expected else 'FAIL'
    print(f'{flag} {label}\n       EXPECTED {expected}\n       OBSERVED {observed}')
    return observed == expected


ok = True
# (a) single-lexicon selection = the extension
ext = wn.Wordnet('test-en-ext')
s = ext.sense('test-en-ext-info-n-0001-01')       # new entry, BASE synset
ok &= attempt("Wordnet('test-en-ext').sense('test-en-ext-info-n-0001-01').synset()",
              "Synset('test-en-0001-n')", s.synset)
s = ext.sense('test-en-ext-illustrate-v-0008-01')  # BASE entry, new synset
ok &= attempt("Wordnet('test-en-ext').sense('test-en-ext-illustrate-v-0008-01').word()",
              "Word('test-en-illustrate-v')", s.word)
ss = ext.synset('test-en-ext-0008-v')
ok &= attempt("Wordnet('test-en-ext').synset('test-en-ext-0008-v').lemmas()",
              "['illustrate']", ss.lemmas)
w = ext.word('test-en-ext-info-n')
ok &= attempt("Wordnet('test-en-ext').word('test-en-ext-info-n').synsets()",
              "[Synset('test-en-0001-n')]", w.synsets)

# (b) the caller is in DEFAULT mode; only the translation target is the extension
w = wn.word('test-en-illustrate-v')   # default mode, base word
senses = w.senses()
print('   word senses (default mode):', senses)
ok &= attempt("wn.word('test-en-illustrate-v').senses()[-1].translate(lexicon='test-en-ext')",
              "[Sense('test-en-ext-illustrate-v-0008-01')]",
              lambda: senses[-1].translate(lexicon='test-en-ext'))
ok &= attempt("wn.word('test-en-illustrate-v').translate(lexicon='test-en-ext')   # image of the above",
              "{Sense('test-en-illustrate-v-0003-01'): [], "
              "Sense('test-en-ext-illustrate-v-0008-01'): [Word('test-en-illustrate-v')]}",
              lambda: w.translate(lexicon='test-en-ext'))
ok &= attempt("wn.synset('test-en-ext-0008-v').translate(lexicon='test-en-ext')[0].words()",
              "[Word('test-en-illustrate-v')]",
              lambda: wn.synset('test-en-ext-0008-v').translate(lexicon='test-en-ext')[0].words())
print('PROPERTY HOLDS' if ok else 'PROPERTY VIOLATED')
