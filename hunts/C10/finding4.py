"""C10 finding 4: wn.Form defines __eq__ (script-sensitive) but inherits
str.__ne__, so two forms can be neither == nor !=.

Clause: "objects reached by different routes that denote the same stored
entity are equal and hash alike while different entities are unequal"
(anchor: Form.__eq__/__hash__, wn/_core.py:340-346).

For a str subclass Python does NOT derive != from the overridden __eq__:
str.__ne__ is found first in the MRO and compares the bare strings.
"""
import os
import tempfile
import wn

wn.config.data_directory = tempfile.mkdtemp()
XML = '''<?xml version="1.0" encoding="UTF-8"?>
<!DOCTYPE LexicalResource SYSTEM "http://globalwordnet.github.io/schemas/WN-LMF-1.1.dtd">
<LexicalResource xmlns:dc="https://globalwordnet.github.io/schemas/dc/">
<Lexicon id="lx" label="lx" language="sr" email="a@b.c" license="x" version="1">
  <LexicalEntry id="w1"><Lemma writtenForm="a" partOfSpeech="n" script="Latn" />
    <Sense id="s1" synset="ss1" /></LexicalEntry>
  <LexicalEntry id="w2"><Lemma writtenForm="a" partOfSpeech="n" script="Cyrl" />
    <Sense id="s2" synset="ss1" /></LexicalEntry>
  <Synset id="ss1" ili="i1" partOfSpeech="n" members="s1 s2" />
</Lexicon>
</LexicalResource>
'''
path = os.path.join(wn.config.data_directory, 'lx.xml')
open(path, 'w').write(XML)
wn.add(path, progress_handler=None)

f1, f2 = wn.synset('ss1').lemmas()
print('lemmas:', [(str(f), f.script) for f in (f1, f2)])
print(f'f1 == f2   EXPECTED False            OBSERVED {f1 == f2}')
print(f'f1 != f2   EXPECTED True             OBSERVED {f1 != f2}')
print(f'not (f1 == f2) == (f1 != f2)   EXPECTED True   OBSERVED {(not (f1 == f2)) == (f1 != f2)}')
print('PROPERTY VIOLATED' if (f1 == f2) == (f1 != f2) else 'PROPERTY HOLDS')
