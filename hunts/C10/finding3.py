"""C10 finding 3: an existing ILI and a proposed ILI compare (and hash) equal.

Clause: "objects reached by different routes that denote the same stored
entity are equal and hash alike while different entities are unequal."

wn.ILI derives from _DatabaseEntity but never sets _ENTITY_TYPE (it stays
_EntityType.UNSET), and its _id is the rowid in table `ilis` for an existing
ILI but the rowid in table `proposed_ilis` for a proposed one.  The two rowid
sequences both start at 1, so ILI number k and proposed ILI number k are "the
same entity" for ==, hash(), set() and dict keys.
"""
import os
import tempfile
import wn

wn.config.data_directory = tempfile.mkdtemp()
XML = '''<?xml version="1.0" encoding="UTF-8"?>
<!DOCTYPE LexicalResource SYSTEM "http://globalwordnet.github.io/schemas/WN-LMF-1.0.dtd">
<LexicalResource xmlns:dc="http://purl.org/dc/elements/1.1/">
<Lexicon id="lx" label="lx" language="en" email="a@b.c" license="x" version="1">
  <LexicalEntry id="w1"><Lemma writtenForm="one" partOfSpeech="n" />
    <Sense id="s1" synset="ss1" /><Sense id="s2" synset="ss2" /></LexicalEntry>
  <Synset id="ss1" ili="i1" partOfSpeech="n" />
  <Synset id="ss2" ili="in" partOfSpeech="n"><ILIDefinition>a brand new concept, proposed here</ILIDefinition></Synset>
</Lexicon>
</LexicalResource>
'''
path = os.path.join(wn.config.data_directory, 'lx.xml')
open(path, 'w').write(XML)
wn.add(path, progress_handler=None)

a = wn.synset('ss1').ili     # ILI('i1'), status presupposed
b = wn.synset('ss2').ili     # proposed ILI of ss2
print('a =', a, a.status, '| b =', b, b.status)
print(f'EXPECTED a == b: False      OBSERVED: {a == b}')
print(f'EXPECTED len({{a, b}}): 2     OBSERVED: {len({a, b})}')
ilis = wn.ilis()
print(f'EXPECTED len(set(wn.ilis())) == len(wn.ilis()) == 2   OBSERVED: {len(set(ilis))} vs {len(ilis)}')
d = {a: 'existing'}
print(f'EXPECTED b in {{a: ...}}: False   OBSERVED: {b in d}')
print('PROPERTY VIOLATED' if a == b else 'PROPERTY HOLDS')
