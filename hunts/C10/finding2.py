"""C10 finding 2: Sense.word()/Sense.synset() return the BASE lexicon's entity
when a lexicon extension declares its own entry / synset under an identifier
that the base lexicon also uses.

Clause: "sense.word() is the word under which the sense was declared and
sense.synset() the synset it references; the inverse navigations agree (the
sense is in word.senses() and in synset.senses()), word.synsets(),
synset.words() and synset.lemmas() are the images of those sense lists".

wn.add() accepts the resource silently and stores the sense with the right
entry_rowid / synset_rowid (the extension's own rows); only the id-based
re-lookup in Sense.word()/Sense.synset() picks the wrong row, because the
accepted "family" = {own lexicon} + {lexicons it extends} and the first hit
(lowest rowid = the base) wins.
"""
import os
import tempfile
import wn

wn.config.data_directory = tempfile.mkdtemp()

XML = '''<?xml version="1.0" encoding="UTF-8"?>
<!DOCTYPE LexicalResource SYSTEM "http://globalwordnet.github.io/schemas/WN-LMF-1.1.dtd">
<LexicalResource xmlns:dc="https://globalwordnet.github.io/schemas/dc/">
{body}
</LexicalResource>
'''
BASE = '''
<Lexicon id="base" label="base" language="en" email="a@b.c" license="x" version="1">
  <LexicalEntry id="w-bank">
    <Lemma writtenForm="bank" partOfSpeech="n" />
    <Sense id="base-bank-1" synset="ss-1" />
  </LexicalEntry>
  <Synset id="ss-1" ili="i1" partOfSpeech="n" />
</Lexicon>'''
EXT = '''
<LexiconExtension id="ext" label="ext" language="en" email="a@b.c" license="x" version="1">
  <Extends id="base" version="1" />
  <!-- new (not External) entry and synset, ids coincide with ids of the base -->
  <LexicalEntry id="w-bank">
    <Lemma writtenForm="riverbank" partOfSpeech="n" />
    <Sense id="ext-riverbank-1" synset="ss-1" />
  </LexicalEntry>
  <Synset id="ss-1" ili="i2" partOfSpeech="n" />
</LexiconExtension>'''
for name, body in (('base.xml', BASE), ('ext.xml', EXT)):
    path = os.path.join(wn.config.data_directory, name)
    with open(path, 'w') as fh:
        fh.write(XML.format(body=body))
    wn.add(path, progress_handler=None)


def desc(x):
    return f'{type(x).__name__}({x.id!r}) of {x.lexicon().specifier()}'


ok = True
for label, w in (('default mode', wn.Wordnet()),
                 ("Wordnet('base ext')", wn.Wordnet('base ext')),
                 ("Wordnet('ext base')", wn.Wordnet('ext base'))):
    print(f'--- {label}')
    s = next(x for x in w.senses() if x.id == 'ext-riverbank-1')
    # ground truth straight from the database row of the sense
    row = wn._db.connect().execute(
        'SELECT e.lexicon_rowid, ss.lexicon_rowid FROM senses s '
        'JOIN entries e ON e.rowid = s.entry_rowid '
        'JOIN synsets ss ON ss.rowid = s.synset_rowid WHERE s.rowid = ?', (s._id,)
    ).fetchone()
    print('   stored: entry and synset of the sense live in lexicon rowids', row,
          '(ext has rowid', s._lexid, ')')
    word, synset = s.word(), s.synset()
    print("   EXPECTED s.word()   = Word('w-bank') of ext:1   lemma 'riverbank'")
    print(f"   OBSERVED s.word()   = {desc(word)}   lemma {word.lemma()!r}")
    print("   EXPECTED s.synset() = Synset('ss-1') of ext:1   ili i2")
    print(f"   OBSERVED s.synset() = {desc(synset)}   ili {synset._ili}")
    print(f'   s in s.word().senses()   EXPECTED True OBSERVED {s in word.senses()}')
    print(f'   s in s.synset().senses() EXPECTED True OBSERVED {s in synset.senses()}')
    ext_ss = next(x for x in w.synsets() if x.lexicon().id == 'ext')
    print(f"   ext synset .senses() = {ext_ss.senses()}  .lemmas() EXPECTED ['riverbank'] "
          f"OBSERVED {ext_ss.lemmas()}")
    print(f"   s.translate(lexicon='base') EXPECTED [] (i2 is not in base) "
          f"OBSERVED {s.translate(lexicon='base')}")
    ok &= (word.lexicon().id == 'ext' and synset.lexicon().id == 'ext'
           and ext_ss.lemmas() == ['riverbank'])
print('PROPERTY HOLDS' if ok else 'PROPERTY VIOLATED')
