"""C05 finding 3: wn.remove('id:version') treats the specifier as a GLOB pattern
even when it has no star, and splits it on whitespace.  When the version string of
an installed lexicon contains '?', '[...]' or a blank, removing that lexicon by
its own specifier (Lexicon.specifier()) removes a DIFFERENT lexicon and leaves the
requested one installed.

Run:  cd /tmp/wh/C05 && PYTHONPATH=/tmp/wh/C05 /venv/bin/python -B _hunt/finding3.py
"""
import tempfile
import wn


def lex(id, ver):
    return {'lmf_version': '1.3', 'lexicons': [{
        'id': id, 'version': ver, 'label': f'{id} {ver}', 'language': 'en',
        'email': 'e', 'license': 'l', 'meta': None, 'entries': [],
        'synsets': [{'id': f'{id}-1', 'ili': 'i1', 'partOfSpeech': 'n', 'meta': None}]}]}


def case(installed, target):
    for c in wn._db.pool.values():
        c.close()
    wn._db.pool.clear()
    wn.config.data_directory = tempfile.mkdtemp()
    for id, ver in installed:
        wn.add_lexical_resource(lex(id, ver), progress_handler=None)
    before = [lx.specifier() for lx in wn.lexicons()]
    victim = next(lx for lx in wn.lexicons() if lx.specifier() == target)
    try:
        wn.remove(victim.specifier(), progress_handler=None)
        err = None
    except wn.Error as e:
        err = e
    after = [lx.specifier() for lx in wn.lexicons()]
    expected = [s for s in before if s != target]
    print(f'installed {before}; wn.remove({target!r})')
    print('  EXPECTED:', expected)
    print('  OBSERVED:', after, f'(raised {err})' if err else '',
          '' if after == expected else '  <-- VIOLATION')


case([('x', '1?'), ('x', '1a')], 'x:1?')           # '?' matches any character
case([('x', '2[b]'), ('x', '2b')], 'x:2[b]')       # '[b]' is a character class
case([('x', '2[b]')], 'x:2[b]')                    # ... alone: cannot be removed at all
case([('x', '3.0 beta'), ('beta', '1')], 'x:3.0 beta')   # specifier is split on blanks
