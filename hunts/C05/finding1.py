"""C05 finding 1: tags and pronunciations contributed by a lexicon extension
(ExternalLemma / ExternalForm children) survive the removal of the extension,
and are duplicated when the extension is added again.

Run:  cd /tmp/wh/C05 && PYTHONPATH=/tmp/wh/C05 /venv/bin/python -B _hunt/finding1.py
"""
import sqlite3, tempfile
from pathlib import Path
import wn

HDR = '''<?xml version="1.0" encoding="UTF-8"?>
<!DOCTYPE LexicalResource SYSTEM "http://globalwordnet.github.io/schemas/WN-LMF-1.1.dtd">
<LexicalResource xmlns:dc="https://globalwordnet.github.io/schemas/dc/">
'''
BASE = HDR + '''
<Lexicon id="B" version="1" label="Base" language="en" email="a@b.c" license="L">
  <LexicalEntry id="B-cat-n">
    <Lemma partOfSpeech="n" writtenForm="cat"/>
    <Form id="B-cat-n-pl" writtenForm="cats"/>
    <Sense id="B-cat-n-1" synset="B-1-n"/>
  </LexicalEntry>
  <Synset id="B-1-n" ili="i1" partOfSpeech="n" members="B-cat-n-1"/>
</Lexicon>
</LexicalResource>
'''
EXT = HDR + '''
<LexiconExtension id="E" version="1" label="Ext" language="en" email="a@b.c" license="L">
  <Extends id="B" version="1"/>
  <ExternalLexicalEntry id="B-cat-n">
    <ExternalLemma>
      <Pronunciation variety="US">kaet</Pronunciation>
      <Tag category="ext">E-LEMMA-TAG</Tag>
    </ExternalLemma>
    <ExternalForm id="B-cat-n-pl">
      <Pronunciation>kaets</Pronunciation>
      <Tag category="ext">E-FORM-TAG</Tag>
    </ExternalForm>
  </ExternalLexicalEntry>
</LexiconExtension>
</LexicalResource>
'''
tmp = Path(tempfile.mkdtemp())
(tmp / 'B.xml').write_text(BASE, encoding='utf-8')
(tmp / 'E.xml').write_text(EXT, encoding='utf-8')


def observe():
    """What the public API says about B:1's word, restricted to B:1 only."""
    w = wn.Wordnet('B:1').word('B-cat-n')
    return {str(f): ([(t.tag, t.category) for t in f.tags()],
                     [(p.value, p.variety) for p in f.pronunciations()])
            for f in w.forms()}


def table_counts():
    c = sqlite3.connect(str(wn.config.database_path))
    r = {t: c.execute(f'select count(*) from {t}').fetchone()[0] for t in ('tags', 'pronunciations')}
    c.close()
    return r


def fresh(*files):
    for conn in wn._db.pool.values():
        conn.close()
    wn._db.pool.clear()
    wn.config.data_directory = tempfile.mkdtemp()
    for f in files:
        wn.add(tmp / f, progress_handler=None)


# reference: what adding just the installed lexicons to an empty database gives
fresh('B.xml')
expected_B = (observe(), table_counts())
fresh('B.xml', 'E.xml')
expected_BE = (observe(), table_counts())

# history: add B, add E, remove E
fresh('B.xml', 'E.xml')
wn.remove('E:1', progress_handler=None)
assert [lx.specifier() for lx in wn.lexicons()] == ['B:1']
observed_B = (observe(), table_counts())
print('history: add B:1, add E:1, remove E:1     (installed: B:1)')
print('  EXPECTED (fresh db with B:1 only):', expected_B)
print('  OBSERVED                         :', observed_B)
print('  ->', 'OK' if expected_B == observed_B else 'VIOLATION: extension tags/pronunciations survive removal of the extension')

# history continued: add E again
wn.add(tmp / 'E.xml', progress_handler=None)
observed_BE = (observe(), table_counts())
print('history: ... then add E:1 again           (installed: B:1, E:1)')
print('  EXPECTED (fresh db with B:1, E:1):', expected_BE)
print('  OBSERVED                         :', observed_BE)
print('  ->', 'OK' if expected_BE == observed_BE else 'VIOLATION: re-adding the extension duplicates its tags/pronunciations')
