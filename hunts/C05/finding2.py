"""C05 finding 2: a Tag/Pronunciation on a *new* <Form> that an extension adds to
an existing (external) entry is attached to the BASE lexicon's form of the same
rank (FORM_QUERY matches "f.id = ? OR f.rank = ?" within the base entry), so it is
owned by a base row, survives the removal of the extension and piles up on re-add.

Run:  cd /tmp/wh/C05 && PYTHONPATH=/tmp/wh/C05 /venv/bin/python -B _hunt/finding2.py
"""
import sqlite3, tempfile
from pathlib import Path
import wn

HDR = '''<?xml version="1.0" encoding="UTF-8"?>
<!DOCTYPE LexicalResource SYSTEM "http://globalwordnet.github.io/schemas/WN-LMF-1.1.dtd">
<LexicalResource xmlns:dc="https://globalwordnet.github.io/schemas/dc/">
'''
BASE = HDR + '''
<Lexicon id="B" version="1" label="Base" language="en" email="a@b.c" license="L">
  <LexicalEntry id="B-cat-n">
    <Lemma partOfSpeech="n" writtenForm="cat"/>
    <Form id="B-cat-n-pl" writtenForm="cats"/>
    <Sense id="B-cat-n-1" synset="B-1-n"/>
  </LexicalEntry>
  <Synset id="B-1-n" ili="i1" partOfSpeech="n" members="B-cat-n-1"/>
</Lexicon>
</LexicalResource>
'''
EXT = HDR + '''
<LexiconExtension id="E" version="1" label="Ext" language="en" email="a@b.c" license="L">
  <Extends id="B" version="1"/>
  <ExternalLexicalEntry id="B-cat-n">
    <Form id="E-cat-n-kitties" writtenForm="kitties">
      <Pronunciation>kitiz</Pronunciation>
      <Tag category="ext">TAG-OF-KITTIES</Tag>
    </Form>
  </ExternalLexicalEntry>
</LexiconExtension>
</LexicalResource>
'''
tmp = Path(tempfile.mkdtemp())
(tmp / 'B.xml').write_text(BASE, encoding='utf-8')
(tmp / 'E.xml').write_text(EXT, encoding='utf-8')
wn.config.data_directory = tempfile.mkdtemp()


def rows():
    c = sqlite3.connect(str(wn.config.database_path))
    q = '''select 'tag', t.tag, f.form, l.id from tags t join forms f on f.rowid=t.form_rowid
             join lexicons l on l.rowid=f.lexicon_rowid
           union all
           select 'pron', p.value, f.form, l.id from pronunciations p join forms f on f.rowid=p.form_rowid
             join lexicons l on l.rowid=f.lexicon_rowid'''
    r = sorted(c.execute(q).fetchall())
    c.close()
    return r


wn.add(tmp / 'B.xml', progress_handler=None)
wn.add(tmp / 'E.xml', progress_handler=None)
print('installed: B:1, E:1')
print('  EXPECTED (kind, value, attached to form, form owner):',
      [('pron', 'kitiz', 'kitties', 'E'), ('tag', 'TAG-OF-KITTIES', 'kitties', 'E')])
print('  OBSERVED                                            :', rows())

wn.remove('E:1', progress_handler=None)
print('after remove("E:1")  (installed: %s)' % [lx.specifier() for lx in wn.lexicons()])
print('  EXPECTED: []   (everything the extension contributed is gone)')
print('  OBSERVED:', rows())
w = wn.Wordnet('B:1').word('B-cat-n')
print('  public API, B:1 only:', {str(f): [t.tag for t in f.tags()] for f in w.forms()})

wn.add(tmp / 'E.xml', progress_handler=None)
print('after adding E:1 again')
print('  OBSERVED:', rows())
