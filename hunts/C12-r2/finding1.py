"""C12 finding 1: in default mode an *INFERRED* placeholder reached from a synset of a
lexicon extension X1 resolves its own borrowed relations against the SIBLING extension X2
(placeholder carries the base's lexicon id since commit 3af4525), so one ILI is resolved
in two different ways inside one traversal that started in X1."""
import os, tempfile, warnings
import wn
wn.config.data_directory = tempfile.mkdtemp()

HEAD = ('<?xml version="1.0" encoding="UTF-8"?>\n'
        '<!DOCTYPE LexicalResource SYSTEM "http://globalwordnet.github.io/schemas/WN-LMF-1.1.dtd">\n'
        '<LexicalResource xmlns:dc="https://globalwordnet.github.io/schemas/dc/">\n')
ATTR = 'language="en" email="a@b" license="x" version="1"'
XML = HEAD + f'''
<Lexicon id="E" label="E" {ATTR}>
  <Synset id="E-1" ili="i1" partOfSpeech="n">
    <SynsetRelation relType="hypernym" target="E-2"/>
    <SynsetRelation relType="hypernym" target="E-3"/>
  </Synset>
  <Synset id="E-2" ili="i2" partOfSpeech="n">
    <SynsetRelation relType="hypernym" target="E-3"/>
  </Synset>
  <Synset id="E-3" ili="i3" partOfSpeech="n"/>
</Lexicon>
<Lexicon id="B" label="B" {ATTR}>
  <Synset id="B-0" ili="" partOfSpeech="n"/>
</Lexicon>
<LexiconExtension id="X1" label="X1" {ATTR}>
  <Extends id="B" version="1"/>
  <Synset id="X1-1" ili="i1" partOfSpeech="n"/>
</LexiconExtension>
<LexiconExtension id="X2" label="X2" {ATTR}>
  <Extends id="B" version="1"/>
  <Synset id="X2-3" ili="i3" partOfSpeech="n"/>
</LexiconExtension>
</LexicalResource>
'''
p = os.path.join(wn.config.data_directory, 'f1.xml')
open(p, 'w', encoding='utf-8').write(XML)
wn.add(p, progress_handler=None)


def key(ss):
    return f'*INFERRED*[{ss.ili.id}]' if ss.id == '*INFERRED*' else ss.id


w = wn.Wordnet()            # unrestricted: expands over all lexicons
x = w.synset('X1-1')        # synset of extension X1; its lexicons are X1 and its base B
direct = [key(s) for s in x.hypernyms()]
paths = sorted([key(s) for s in path] for path in x.hypernym_paths())
closure = sorted(key(s) for s in x.closure('hypernym'))

print('direct hypernyms of X1-1      :', direct)
print('EXPECTED hypernym_paths(X1-1) :', [['*INFERRED*[i2]', '*INFERRED*[i3]'], ['*INFERRED*[i3]']])
print('OBSERVED hypernym_paths(X1-1) :', paths)
print('EXPECTED closure              :', ['*INFERRED*[i2]', '*INFERRED*[i3]'])
print('OBSERVED closure              :', closure)
bad = paths != [['*INFERRED*[i2]', '*INFERRED*[i3]'], ['*INFERRED*[i3]']]
print('VIOLATION' if bad else 'ok',
      '- ILI i3 is a placeholder when reached from X1-1 directly but the sibling '
      "extension's synset X2-3 when reached through the placeholder for i2")
