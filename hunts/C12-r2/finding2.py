"""C12 finding 2 (low confidence, literal reading): a synset that is itself in an expand
lexicon never gets its own relations back-mapped by ILI, although every OTHER synset with
the same ILI does - the owner of a relation reports fewer targets than its ILI twin."""
import os, tempfile
import wn
wn.config.data_directory = tempfile.mkdtemp()
HEAD = ('<?xml version="1.0" encoding="UTF-8"?>\n'
        '<!DOCTYPE LexicalResource SYSTEM "http://globalwordnet.github.io/schemas/WN-LMF-1.1.dtd">\n'
        '<LexicalResource xmlns:dc="https://globalwordnet.github.io/schemas/dc/">\n')
ATTR = 'language="en" email="a@b" license="x" version="1"'
XML = HEAD + f'''
<Lexicon id="E" label="E" {ATTR}>
  <Synset id="E-1" ili="i1" partOfSpeech="n">
    <SynsetRelation relType="hypernym" target="E-2"/>
  </Synset>
  <Synset id="E-2" ili="i2" partOfSpeech="n"/>
</Lexicon>
<Lexicon id="L" label="L" {ATTR}>
  <Requires id="E" version="1"/>
  <Synset id="L-1" ili="i1" partOfSpeech="n"/>
  <Synset id="L-2" ili="i2" partOfSpeech="n"/>
</Lexicon>
</LexicalResource>
'''
p = os.path.join(wn.config.data_directory, 'f2.xml')
open(p, 'w', encoding='utf-8').write(XML)
wn.add(p, progress_handler=None)

w = wn.Wordnet('L E')       # both selected; default expand = declared dependency E
print('lexicons', [l.specifier() for l in w.lexicons()],
      'expand', [l.specifier() for l in w.expanded_lexicons()])
l1 = sorted(s.id for s in w.synset('L-1').hypernyms())
e1 = sorted(s.id for s in w.synset('E-1').hypernyms())
print('hypernyms(L-1): EXPECTED', ['E-2', 'L-2'], 'OBSERVED', l1)
print('hypernyms(E-1): EXPECTED', ['E-2', 'L-2'], 'OBSERVED', e1,
      '  <- E-1 is a synset of E sharing its own ILI i1; target ILI i2 is carried by E-2 and L-2')
print('VIOLATION (literal reading)' if e1 != ['E-2', 'L-2'] else 'ok')
