"""C13 finding 1: the 'same synset' shortcut of _shortest_hyp_paths (repair 3c640a6)
compares placeholders by ILI only, while every other taxonomy function tells them
apart by hash (ILI *and* lexicon id).  In default mode (wn.Wordnet()) the *INFERRED*
placeholder of one ILI is a different graph node for every lexicon family it is
reached from.  For two such placeholders shortest_path() answers [] ("same synset")
and lowest_common_hypernyms() answers [a], although common_hypernyms() says that
they share nothing.

Run:  cd /tmp/wh2/C13 && PYTHONPATH=/tmp/wh2/C13 /venv/bin/python -B _hunt/finding1.py
"""
import os
import tempfile
import warnings

import wn
import wn.taxonomy as T

warnings.simplefilter('ignore')
wn.config.data_directory = tempfile.mkdtemp()

HEAD = ('<?xml version="1.0" encoding="UTF-8"?>\n'
        '<!DOCTYPE LexicalResource SYSTEM "http://globalwordnet.github.io/schemas/WN-LMF-1.1.dtd">\n'
        '<LexicalResource xmlns:dc="https://globalwordnet.github.io/schemas/dc/">\n')


def lexicon(id, lang, body):
    return (f'<Lexicon id="{id}" label="{id}" language="{lang}" email="a@b.c" '
            f'license="l" version="1">\n{body}</Lexicon>\n')


DOC = HEAD + lexicon('E', 'en', '''
  <Synset id="e0" ili="i1" partOfSpeech="n"><SynsetRelation relType="hypernym" target="e1"/></Synset>
  <Synset id="e1" ili="i2" partOfSpeech="n"><SynsetRelation relType="hypernym" target="e2"/></Synset>
  <Synset id="e2" ili="i3" partOfSpeech="n"/>
''') + lexicon('L', 'fr', '''
  <Synset id="l0" ili="i1" partOfSpeech="n"/>
''') + lexicon('M', 'de', '''
  <Synset id="m0" ili="i1" partOfSpeech="n"/>
''') + '</LexicalResource>\n'

path = os.path.join(wn.config.data_directory, 'doc.xml')
with open(path, 'w', encoding='utf-8') as f:
    f.write(DOC)
wn.add(path, progress_handler=None)

w = wn.Wordnet()                       # default mode: every lexicon is an expand lexicon
l0, m0 = w.synset('l0'), w.synset('m0')
p = l0.hypernyms()[0]                  # placeholder for i2 seen from lexicon L
q = m0.hypernyms()[0]                  # placeholder for i2 seen from lexicon M
print('p:', p, p._ili, 'lexicon rowid', p._lexid, '| q:', q, q._ili, 'lexicon rowid', q._lexid)
print('hash(p) == hash(q):', hash(p) == hash(q), '  {p, q} has', len({p, q}), 'members')

bad = 0
for sr in (False, True):
    ch = T.common_hypernyms(p, q, simulate_root=sr)
    lch = T.lowest_common_hypernyms(p, q, simulate_root=sr)
    try:
        sp = T.shortest_path(p, q, simulate_root=sr)
    except wn.Error as e:
        sp = f'wn.Error({e})'
    print(f'\nsimulate_root={sr}')
    print('  common_hypernyms(p, q)        =', [(s.id, s._ili) for s in ch])
    print('  lowest_common_hypernyms(p, q) =', [(s.id, s._ili, s._lexid) for s in lch])
    print('  shortest_path(p, q)           =', sp)
    # the property: LCH is a subset of the common hypernyms; shortest_path is an error
    # when nothing is shared, and otherwise has length min_c dist(p,c)+dist(q,c);
    # it is empty iff p is q (then p would have to be a common hypernym).
    if not set(lch) <= set(ch):
        bad += 1
        print('  VIOLATION: lowest_common_hypernyms is not a subset of common_hypernyms')
    if not ch and not isinstance(sp, str):
        bad += 1
        print('  VIOLATION: EXPECTED wn.Error (nothing shared)  OBSERVED', sp)
    if ch and sp == [] and p not in set(ch):   # a list would compare with ==, true for any placeholder
        bad += 1
        print('  VIOLATION: EXPECTED a path of length 4 through *ROOT* (i3-placeholder, *ROOT*, i3-placeholder, q) '
              'OBSERVED [] although p is not a common hypernym')

# what the same functions say about the two real synsets directly below p and q
print('\nfor comparison, the real synsets below them:')
for sr in (False, True):
    try:
        sp = [(s.id, s._ili) for s in T.shortest_path(l0, m0, simulate_root=sr)]
    except wn.Error as e:
        sp = f'wn.Error({e})'
    print(f'  shortest_path(l0, m0, simulate_root={sr}) =', sp)
print('\nRESULT:', 'VIOLATION x%d' % bad if bad else 'ok')
