"""C13 finding 2 (cyclic graphs only): lowest_common_hypernyms() does not return
"the common hypernyms of greatest depth" when the hypernym graph has a cycle: the
depth it assigns to a common hypernym c is the longest tail *behind c inside the
chains that start at the two arguments* (and those chains may not revisit the
arguments), not the depth of c (max_depth(c), or min_depth(c)).

Graph (3 synsets, hypernym edges):  s0 -> s2,  s1 -> s2,  s2 -> s0,  s2 -> s1
   chains from s0: [s2, s1]      max_depth(s0) = min_depth(s0) = 2
   chains from s1: [s2, s0]      max_depth(s1) = min_depth(s1) = 2
   chains from s2: [s0], [s1]    max_depth(s2) = min_depth(s2) = 1
common_hypernyms(s2, s1) = {s0, s1, s2}; the deepest of them are s0 and s1 (depth 2).

Run:  cd /tmp/wh2/C13 && PYTHONPATH=/tmp/wh2/C13 /venv/bin/python -B _hunt/finding2.py
"""
import os
import tempfile

import wn
import wn.taxonomy as T

wn.config.data_directory = tempfile.mkdtemp()
DOC = '''<?xml version="1.0" encoding="UTF-8"?>
<!DOCTYPE LexicalResource SYSTEM "http://globalwordnet.github.io/schemas/WN-LMF-1.1.dtd">
<LexicalResource xmlns:dc="https://globalwordnet.github.io/schemas/dc/">
<Lexicon id="g" label="g" language="en" email="a@b.c" license="l" version="1">
  <Synset id="s0" ili="" partOfSpeech="n">
    <SynsetRelation relType="hypernym" target="s2"/><SynsetRelation relType="hyponym" target="s2"/></Synset>
  <Synset id="s1" ili="" partOfSpeech="n">
    <SynsetRelation relType="hypernym" target="s2"/><SynsetRelation relType="hyponym" target="s2"/></Synset>
  <Synset id="s2" ili="" partOfSpeech="n">
    <SynsetRelation relType="hypernym" target="s0"/><SynsetRelation relType="hypernym" target="s1"/>
    <SynsetRelation relType="hyponym" target="s0"/><SynsetRelation relType="hyponym" target="s1"/></Synset>
</Lexicon>
</LexicalResource>
'''
path = os.path.join(wn.config.data_directory, 'g.xml')
with open(path, 'w', encoding='utf-8') as f:
    f.write(DOC)
wn.add(path, progress_handler=None)
w = wn.Wordnet('g')
s = {i: w.synset(f's{i}') for i in range(3)}
for i in range(3):
    print(f's{i}: hypernym_paths =', [[x.id for x in p] for p in T.hypernym_paths(s[i])],
          ' max_depth =', T.max_depth(s[i]), ' min_depth =', T.min_depth(s[i]))

bad = 0
for a, b in [(2, 1), (1, 2), (2, 0), (0, 2)]:
    common = T.common_hypernyms(s[a], s[b])
    for name, depth in (('max_depth', T.max_depth), ('min_depth', T.min_depth)):
        m = max(depth(c) for c in common)
        expected = sorted(c.id for c in common if depth(c) == m)
        observed = sorted(c.id for c in T.lowest_common_hypernyms(s[a], s[b]))
        flag = 'ok' if expected == observed else 'VIOLATION'
        bad += expected != observed
        print(f'lowest_common_hypernyms(s{a}, s{b}): common = {sorted(c.id for c in common)}  '
              f'EXPECTED (greatest {name}) {expected}  OBSERVED {observed}  {flag}')
print('RESULT:', f'VIOLATION x{bad}' if bad else 'ok')
