"""C19 candidate finding 2 (borderline): after an index file has replaced an ILI's
definition, ILI.metadata() still returns the metadata of the lexicon's replaced
<ILIDefinition> - but only when the lexicon was added BEFORE the index.  The final
ILI row therefore depends on the interleaving of add(lexicon) and add(index).

Run:  cd /tmp/wh2/C19 && PYTHONPATH=/tmp/wh2/C19 /venv/bin/python -B _hunt/finding2.py
"""
import os, tempfile
import wn

LEX = '''<?xml version="1.0" encoding="UTF-8"?>
<!DOCTYPE LexicalResource SYSTEM "http://globalwordnet.github.io/schemas/WN-LMF-1.0.dtd">
<LexicalResource xmlns:dc="http://purl.org/dc/elements/1.1/">
<Lexicon id="a" label="a" language="en" email="a@b" license="x" version="1">
<LexicalEntry id="a-w1"><Lemma writtenForm="w" partOfSpeech="n"/><Sense id="a-s1" synset="a-1"/></LexicalEntry>
<Synset id="a-1" ili="i1" partOfSpeech="n">
  <ILIDefinition dc:source="lexicon a">definition written by lexicon a</ILIDefinition>
</Synset>
</Lexicon></LexicalResource>
'''
IDX = 'ili\tstatus\tdefinition\ni1\tactive\tdefinition from the index\n'

src = tempfile.mkdtemp()
lex = os.path.join(src, 'a.xml'); open(lex, 'w').write(LEX)
idx = os.path.join(src, 'cili.tsv'); open(idx, 'w').write(IDX)

out = {}
for name, hist in (('lexicon, index', [lex, idx]), ('index, lexicon', [idx, lex])):
    wn.config.data_directory = tempfile.mkdtemp()
    for p in hist:
        wn.add(p, progress_handler=None)
    i = wn.synset('a-1').ili
    out[name] = (i.id, i.status, i.definition(), i.metadata())

print('EXPECTED: the same ILI (status, definition, metadata) for both interleavings;')
print('          the definition is the index\'s, so no dc:source "lexicon a" on it')
print('OBSERVED:')
for k, v in out.items():
    print(f'  [{k}] -> {v}')
print('SAME' if len(set(map(repr, out.values()))) == 1 else 'DIFFERENT')
