"""C19 candidate finding 1: an ILI that an index file creates ("creating ILIs not
yet known") cannot be observed through wn.ili()/wn.ilis() as soon as any lexicon
is installed, and an ILI that WAS observable disappears when an unrelated lexicon
is added afterwards.

Run:  cd /tmp/wh2/C19 && PYTHONPATH=/tmp/wh2/C19 /venv/bin/python -B _hunt/finding1.py
"""
import os, tempfile
import wn

LEX = '''<?xml version="1.0" encoding="UTF-8"?>
<!DOCTYPE LexicalResource SYSTEM "http://globalwordnet.github.io/schemas/WN-LMF-1.0.dtd">
<LexicalResource xmlns:dc="http://purl.org/dc/elements/1.1/">
<Lexicon id="a" label="a" language="en" email="a@b" license="x" version="1">
<LexicalEntry id="a-w1"><Lemma writtenForm="w" partOfSpeech="n"/><Sense id="a-s1" synset="a-1"/></LexicalEntry>
<Synset id="a-1" ili="i1" partOfSpeech="n"/>
</Lexicon></LexicalResource>
'''
IDX = 'ili\tstatus\tdefinition\ni1\tactive\tone\ni9\tdeprecated\tnine\n'

src = tempfile.mkdtemp()
lex = os.path.join(src, 'a.xml'); open(lex, 'w').write(LEX)
idx = os.path.join(src, 'cili.tsv'); open(idx, 'w').write(IDX)


def show(label):
    try:
        i9 = wn.ili('i9'); got = (i9.id, i9.status, i9.definition())
    except wn.Error as e:
        got = f'wn.Error({e})'
    print(f'{label:38} wn.ili("i9") -> {got};  wn.ilis() -> {[i.id for i in wn.ilis()]};'
          f'  deprecated -> {[i.id for i in wn.ilis(status="deprecated")]}')


print('EXPECTED in every line: wn.ili("i9") -> ("i9", "deprecated", "nine"), i9 in wn.ilis() '
      'and in wn.ilis(status="deprecated")')
print('OBSERVED:')

wn.config.data_directory = tempfile.mkdtemp()
wn.add(idx, progress_handler=None)
show('history [index]')
wn.add(lex, progress_handler=None)
show('history [index, lexicon a]')

wn.config.data_directory = tempfile.mkdtemp()
wn.add(lex, progress_handler=None)
wn.add(idx, progress_handler=None)
show('history [lexicon a, index]')
