"""C20 finding 1: load() accepts a LexiconExtension whose <Extends> omits BOTH required
identifying attributes (id and version); scan_lexicons() rejects the same file, so the
two readers disagree, and dump(load(F)) silently turns the extension into a plain Lexicon.

Cause: wn/lmf.py:_validate()   ext = elem.get('extends');  if ext: assert 'id' in ext ...
An <Extends/> without attributes is stored as the empty dict {}, which is falsy, so the
id/version assertions are skipped and the element is validated as an ordinary Lexicon.
(<Extends url="u"/> or <Extends id="b"/> are rejected - only the attribute-less form slips.)
"""
import os, tempfile
import wn
wn.config.data_directory = tempfile.mkdtemp()
from wn import lmf

tmp = tempfile.mkdtemp()
DOC = '''<?xml version="1.0" encoding="UTF-8"?>
<!DOCTYPE LexicalResource SYSTEM "http://globalwordnet.github.io/schemas/WN-LMF-1.1.dtd">
<LexicalResource xmlns:dc="https://globalwordnet.github.io/schemas/dc/">
  <LexiconExtension id="x" version="1" label="X" language="en" email="e" license="l">
    <Extends%s/>
    <LexicalEntry id="x-e"><Lemma writtenForm="w" partOfSpeech="n"/></LexicalEntry>
  </LexiconExtension>
</LexicalResource>
'''


def attempt(f, *args):
    try:
        return 'ACCEPTED', f(*args)
    except Exception as exc:
        return 'REJECTED', repr(exc)


for label, attrs in [('id only     ', ' id="base"'),
                     ('version only', ' version="1"'),
                     ('url only    ', ' url="u"'),
                     ('no attribute', '')]:
    path = os.path.join(tmp, 'doc.xml')
    with open(path, 'w', encoding='utf-8') as f:
        f.write(DOC % attrs)
    l = attempt(lmf.load, path, None)
    s = attempt(lmf.scan_lexicons, path)
    print(f'<Extends{attrs}/>  [{label}]  EXPECTED load: REJECTED   OBSERVED load: {l[0]}'
          f'   scan_lexicons: {s[0]}')
    if l[0] == 'ACCEPTED':
        lex = l[1]['lexicons'][0]
        print('    load() result: extends =', lex.get('extends'),
              '-> treated as', 'extension' if lex.get('extends') else 'plain Lexicon')
        out = os.path.join(tmp, 'out.xml')
        lmf.dump(l[1], out)
        print('    dump(load(F)) writes:', [ln.strip()[:30] for ln in open(out) if 'Lexicon' in ln and 'Resource' not in ln])
        print('    scan_lexicons(F):', s[1])
        print('    VIOLATION: file omitting the identifying attributes of <Extends> is accepted by load();'
              ' scan_lexicons() and load() disagree on it')
