"""finding4 (minor / contrived): a REAL synset whose id is the reserved string
'*ROOT*' is mistaken for the simulated root, so simulate_root does not join it
to the other roots.  (Such an id is not a valid XML ID, but nothing in
wn.add_lexical_resource()/wn.add() rejects it.)

Lexicon:  s0 -> '*ROOT*' (a real synset),   s2 isolated.
"""
import tempfile
import wn

wn.config.data_directory = tempfile.mkdtemp()


def synset(id, targets=()):
    return {'id': id, 'ili': '', 'partOfSpeech': 'n',
            'relations': [{'target': t, 'relType': 'hypernym', 'meta': None}
                          for t in targets],
            'definitions': [], 'examples': [], 'members': [],
            'lexicalized': True, 'lexfile': '', 'meta': None}


wn.add_lexical_resource(
    {'lmf_version': '1.1',
     'lexicons': [{'id': 'L', 'version': '1', 'label': 'L', 'language': 'en',
                   'email': 'a@b.c', 'license': 'x', 'meta': None,
                   'requires': [], 'entries': [], 'frames': [],
                   'synsets': [synset('L-0', ['*ROOT*']), synset('*ROOT*'),
                               synset('L-2')]}]},
    progress_handler=None)
w = wn.Wordnet('L')
r, c = w.synset('*ROOT*'), w.synset('L-2')
print('EXPECTED shortest_path(r, c, simulate_root=True): [<fake root>, L-2] '
      '(two roots joined by the simulated root)')
try:
    print('OBSERVED', r.shortest_path(c, simulate_root=True))
except wn.Error as exc:
    print('OBSERVED wn.Error:', exc)
print('EXPECTED hypernym_paths(r, simulate_root=True): [[<fake root>]]')
print('OBSERVED', r.hypernym_paths(simulate_root=True))
