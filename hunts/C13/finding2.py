"""finding2: in a Wordnet with SEVERAL lexicons and an expand lexicon, the
'*INFERRED*' placeholder of one and the same ILI is a different graph node
for every lexicon it is reached from, so sister synsets of two lexicons
share no hypernym and have no path.

Expand lexicon X:   x0(i0) -> x2(i2) <- x1(i1),   x2(i2) -> x3(i3)
L1 has a synset for i0 only, L2 has a synset for i1 only  (i2, i3 are
inferred).  M has both synsets (i0 and i1) in ONE lexicon: the control.
"""
import tempfile
import wn

wn.config.data_directory = tempfile.mkdtemp()


def lexicon(lexid, ilis, edges=()):
    synsets = []
    for i, ili in enumerate(ilis):
        rels = [{'target': f'{lexid}-{v}', 'relType': 'hypernym', 'meta': None}
                for u, v in edges if u == i]
        rels += [{'target': f'{lexid}-{u}', 'relType': 'hyponym', 'meta': None}
                 for u, v in edges if v == i]
        synsets.append({'id': f'{lexid}-{i}', 'ili': ili, 'partOfSpeech': 'n',
                        'relations': rels, 'definitions': [], 'examples': [],
                        'members': [], 'lexicalized': True, 'lexfile': '',
                        'meta': None})
    return {'id': lexid, 'version': '1', 'label': lexid, 'language': 'en',
            'email': 'a@b.c', 'license': 'x', 'meta': None, 'requires': [],
            'entries': [], 'synsets': synsets, 'frames': []}


wn.add_lexical_resource(
    {'lmf_version': '1.1',
     'lexicons': [lexicon('X', ['i0', 'i1', 'i2', 'i3'], [(0, 2), (1, 2), (2, 3)]),
                  lexicon('L1', ['i0']),
                  lexicon('L2', ['i1']),
                  lexicon('M', ['i0', 'i1'])]},
    progress_handler=None)


def show(w, a, b):
    a, b = w.synset(a), w.synset(b)
    print('  hypernyms(a) ILIs:', [s._ili for s in a.hypernyms()],
          ' hypernyms(b) ILIs:', [s._ili for s in b.hypernyms()])
    print('  common_hypernyms :', [(s.id, s._ili) for s in a.common_hypernyms(b)])
    print('  lowest_common    :', [(s.id, s._ili) for s in a.lowest_common_hypernyms(b)])
    try:
        print('  shortest_path    :', [(s.id, s._ili) for s in a.shortest_path(b)])
    except wn.Error as exc:
        print('  shortest_path    : wn.Error:', exc)


print("control  Wordnet('M', expand='X'), a=M-0 (i0), b=M-1 (i1)")
show(wn.Wordnet('M', expand='X'), 'M-0', 'M-1')
print("EXPECTED for Wordnet('L1 L2', expand='X'), a=L1-0 (i0), b=L2-0 (i1): the same "
      "(common = inferred i2, i3; lowest = i2; path = [inferred i2, b])")
print("OBSERVED")
show(wn.Wordnet('L1 L2', expand='X'), 'L1-0', 'L2-0')

# ---- second symptom: one chain visits the same placeholder twice -------
# Expand lexicon Y:  y0(j0) -> y2(j2) <-> y1(j1)   (a 2-cycle above y0)
# K1 has j0, K2 has j1; j2 is inferred.
wn.add_lexical_resource(
    {'lmf_version': '1.1',
     'lexicons': [lexicon('Y', ['j0', 'j1', 'j2'], [(0, 2), (2, 1), (1, 2)]),
                  lexicon('K1', ['j0']),
                  lexicon('K2', ['j1']),
                  lexicon('KM', ['j0', 'j1'])]},
    progress_handler=None)
print()
print("control  Wordnet('KM', expand='Y'): hypernym_paths(KM-0) =",
      [[(s.id, s._ili) for s in p]
       for p in wn.Wordnet('KM', expand='Y').synset('KM-0').hypernym_paths()])
w = wn.Wordnet('K1 K2', expand='Y')
print("EXPECTED Wordnet('K1 K2', expand='Y'): hypernym_paths(K1-0) = one simple "
      "chain [inferred j2, K2-0], max_depth 2")
print("OBSERVED", [[(s.id, s._ili) for s in p] for p in w.synset('K1-0').hypernym_paths()],
      'max_depth', w.synset('K1-0').max_depth())
