"""finding1: taxonomy_depth() is wrong / depends on synset order when the
hypernym graph has a cycle.

Graph G1:  s2 -> s0 <-> s1      (s2 hangs below a 2-cycle)
Graph G2:  the SAME graph with the labels permuted: t0 -> t1 <-> t2

The longest hypernym chain of the part of speech is the same in both
(from the dangling synset: two steps), and the library's own
max_depth()/hypernym_paths() say so, but taxonomy_depth() returns 1 for G1.
"""
import tempfile
import wn
from wn import taxonomy

wn.config.data_directory = tempfile.mkdtemp()


def lexicon(lexid, n, edges):
    synsets = []
    for i in range(n):
        rels = [{'target': f'{lexid}-{v}', 'relType': 'hypernym', 'meta': None}
                for u, v in edges if u == i]
        rels += [{'target': f'{lexid}-{u}', 'relType': 'hyponym', 'meta': None}
                 for u, v in edges if v == i]
        synsets.append({'id': f'{lexid}-{i}', 'ili': '', 'partOfSpeech': 'n',
                        'relations': rels, 'definitions': [], 'examples': [],
                        'members': [], 'lexicalized': True, 'lexfile': '',
                        'meta': None})
    return {'id': lexid, 'version': '1', 'label': lexid, 'language': 'en',
            'email': 'a@b.c', 'license': 'x', 'meta': None, 'requires': [],
            'entries': [], 'synsets': synsets, 'frames': []}


wn.add_lexical_resource(
    {'lmf_version': '1.1',
     'lexicons': [lexicon('g1', 3, [(0, 1), (1, 0), (2, 0)]),
                  lexicon('g2', 3, [(1, 2), (2, 1), (0, 1)])]},
    progress_handler=None)

for lexid in 'g1', 'g2':
    w = wn.Wordnet(lexid)
    longest = max(len(p) for ss in w.synsets(pos='n') for p in ss.hypernym_paths())
    deepest = max(ss.max_depth() for ss in w.synsets(pos='n'))
    got = taxonomy.taxonomy_depth(w, 'n')
    print(f'{lexid}: EXPECTED taxonomy_depth = longest hypernym chain = {longest}'
          f' (max of max_depth() = {deepest});  OBSERVED taxonomy_depth = {got}'
          f'   {"OK" if got == longest else "VIOLATION"}')
