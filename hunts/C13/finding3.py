"""finding3: two DIFFERENT '*INFERRED*' placeholder synsets are taken for the
same synset by shortest_path() / lowest_common_hypernyms().

Expand lexicon X:  x0(i0) -> x1(i1) -> x3(i3),  x0(i0) -> x2(i2)
L has only a synset for i0, so i1, i2, i3 are placeholders in
Wordnet('L', expand='X').  p1, p2, p3 are the placeholders of i1, i2, i3.
"""
import tempfile
import wn

wn.config.data_directory = tempfile.mkdtemp()


def lexicon(lexid, ilis, edges=()):
    synsets = []
    for i, ili in enumerate(ilis):
        rels = [{'target': f'{lexid}-{v}', 'relType': 'hypernym', 'meta': None}
                for u, v in edges if u == i]
        rels += [{'target': f'{lexid}-{u}', 'relType': 'hyponym', 'meta': None}
                 for u, v in edges if v == i]
        synsets.append({'id': f'{lexid}-{i}', 'ili': ili, 'partOfSpeech': 'n',
                        'relations': rels, 'definitions': [], 'examples': [],
                        'members': [], 'lexicalized': True, 'lexfile': '',
                        'meta': None})
    return {'id': lexid, 'version': '1', 'label': lexid, 'language': 'en',
            'email': 'a@b.c', 'license': 'x', 'meta': None, 'requires': [],
            'entries': [], 'synsets': synsets, 'frames': []}


wn.add_lexical_resource(
    {'lmf_version': '1.1',
     'lexicons': [lexicon('X', ['i0', 'i1', 'i2', 'i3'], [(0, 1), (1, 3), (0, 2)]),
                  lexicon('L', ['i0'])]},
    progress_handler=None)

w = wn.Wordnet('L', expand='X')
a = w.synset('L-0')
by_ili = {s._ili: s for s in a.hypernyms()}
p1, p2 = by_ili['i1'], by_ili['i2']
p3 = p1.hypernyms()[0]


def ilis(synsets):
    return [s._ili for s in synsets]


def sp(x, y):
    try:
        return ilis(x.shortest_path(y))
    except wn.Error as exc:
        return f'wn.Error({exc})'


print('p1 -> p3 (p3 is the hypernym of p1)')
print('  common_hypernyms(p1, p3)         :', ilis(p1.common_hypernyms(p3)))
print("  EXPECTED shortest_path(p1, p3)   : ['i3']   (one step; empty only if a is b)")
print('  OBSERVED shortest_path(p1, p3)   :', sp(p1, p3))
print("  EXPECTED lowest_common_hypernyms : ['i3']   (a member of common_hypernyms)")
print('  OBSERVED lowest_common_hypernyms :', ilis(p1.lowest_common_hypernyms(p3)))
print('p1 , p2 (two unrelated roots-to-be: nothing is shared)')
print('  common_hypernyms(p1, p2)         :', ilis(p1.common_hypernyms(p2)))
print('  EXPECTED shortest_path(p1, p2)   : wn.Error (no path)')
print('  OBSERVED shortest_path(p1, p2)   :', sp(p1, p2))
print('  EXPECTED lowest_common_hypernyms : []')
print('  OBSERVED lowest_common_hypernyms :', ilis(p1.lowest_common_hypernyms(p2)))
print('for comparison, from the real synset:  shortest_path(a, p3) =', sp(a, p3))
