"""C03 finding 1 (low confidence): a WN-LMF 1.0 SyntacticBehaviour that no sense uses is dropped by a 1.0 export,
although WN-LMF 1.0 can express it (the source document did) and the 1.1+ exports keep it.

Source (valid against the 1.0 DTD): an entry without senses that carries a SyntacticBehaviour.
wn.add stores the frame (syntactic_behaviours row, no links).  export(version='1.0') rebuilds entry-level
frames only from sense links (wn/_export.py:_export_syntactic_behaviours_1_0), so the frame disappears;
export(version='1.1') writes it as a lexicon-level frame.  Re-adding the 1.0 export gives a database
without the syntactic_behaviours row.
"""
import os
import shutil
import sqlite3
import sys
import tempfile
import warnings

import wn
from wn import _db

warnings.simplefilter('ignore')

SRC = '''<?xml version="1.0" encoding="UTF-8"?>
<!DOCTYPE LexicalResource SYSTEM "http://globalwordnet.github.io/schemas/WN-LMF-1.0.dtd">
<LexicalResource xmlns:dc="http://purl.org/dc/elements/1.1/">
  <Lexicon id="a" label="A" language="en" email="e@x" license="l" version="1">
    <LexicalEntry id="a-e1">
      <Lemma writtenForm="w" partOfSpeech="v"/>
      <SyntacticBehaviour subcategorizationFrame="Somebody ----s"/>
    </LexicalEntry>
    <Synset id="a-ss1" ili="" partOfSpeech="v"/>
  </Lexicon>
</LexicalResource>
'''


def frames(dbpath):
    con = sqlite3.connect(dbpath)
    rows = con.execute('select id, frame from syntactic_behaviours order by rowid').fetchall()
    con.close()
    return rows


def closeall():
    for k, c in list(_db.pool.items()):
        c.close()
        del _db.pool[k]


tmp = tempfile.mkdtemp(prefix='c03f1')
bad = False
try:
    src = os.path.join(tmp, 'src.xml')
    with open(src, 'w', encoding='utf-8') as f:
        f.write(SRC)
    d1 = os.path.join(tmp, 'd1')
    os.mkdir(d1)
    wn.config.data_directory = d1
    wn.add(src, progress_handler=None)
    db1 = str(wn.config.database_path)
    before = frames(db1)
    print('frames stored from the 1.0 source:', before)
    for ver in ('1.0', '1.1'):
        wn.config.data_directory = d1
        out = os.path.join(tmp, f'out-{ver}.xml')
        wn.export(wn.lexicons(), out, version=ver)
        d2 = os.path.join(tmp, 'd2-' + ver)
        os.mkdir(d2)
        wn.config.data_directory = d2
        wn.add(out, progress_handler=None)
        after = frames(str(wn.config.database_path))
        print(f'export {ver}: EXPECTED frames after re-add {before}  OBSERVED {after}')
        if ver == '1.0' and after != before:
            bad = True
finally:
    closeall()
    shutil.rmtree(tmp, ignore_errors=True)

if bad:
    print('VIOLATION: the 1.0 export of a 1.0 lexicon lost a SyntacticBehaviour that 1.0 can express')
    sys.exit(1)
print('no violation')
