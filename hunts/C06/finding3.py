"""C06 finding 3: wn.add() of a collection (several packages) commits package by
package; when a later package fails the earlier ones stay in the database.

run: cd /tmp/wh/C06 && PYTHONPATH=/tmp/wh/C06 /venv/bin/python -B _hunt/finding3.py
"""
import tempfile
from pathlib import Path
import wn
from wn.project import iterpackages

wn.config.data_directory = tempfile.mkdtemp()
DATA = Path('/tmp/wh/C06/tests/data')
good = (DATA / 'mini-lmf-1.0.xml').read_text()
bad = (DATA / 'mini-lmf-1.3.xml').read_text().replace(
    'synset="test-ws-2"', 'synset="NO-SUCH-SYNSET"', 1)
assert 'NO-SUCH-SYNSET' in bad

coll = Path(tempfile.mkdtemp()) / 'collection'
for name in 'ab':
    (coll / name).mkdir(parents=True)
    (coll / name / 'resource.xml').write_text(good)
# directory order is file-system dependent: put the bad file in whichever
# package wn visits last
first, last = [p.resource_file() for p in iterpackages(coll)]
first.write_text(good)
last.write_text(bad)

print('before:', wn.lexicons())
try:
    wn.add(coll, progress_handler=None)
    print('add returned normally')
except Exception as exc:
    print('add raised', repr(exc))
print('EXPECTED: failed add -> database content exactly as before the call: []')
print('OBSERVED:', wn.lexicons())
