"""C06 finding 1: a failure between the two PRAGMAs and the first INSERT of
_add_lexical_resource leaves an active, non-read-only `PRAGMA journal_mode`
statement on the pooled connection; while the raised exception (-> traceback ->
frame -> cursor) is referenced, every later add()/remove() fails at COMMIT.

run: cd /tmp/wh/C06 && PYTHONPATH=/tmp/wh/C06 /venv/bin/python -B _hunt/finding1.py
"""
import tempfile
import wn

wn.config.data_directory = tempfile.mkdtemp()
DATA = '/tmp/wh/C06/tests/data/'
wn.add(DATA + 'mini-lmf-1.0.xml', progress_handler=None)


class Handler(wn.util.ProgressHandler):
    """A caller's handler that fails on one particular callback."""
    def flash(self, message):
        if message.startswith('Updating lookup tables'):
            raise RuntimeError('handler failed')


kept = None
try:
    wn.add(DATA + 'mini-lmf-1.1.xml', progress_handler=Handler)
except RuntimeError as exc:
    kept = exc   # kept for logging; a REPL does the same via sys.last_exc,
                 # and so does retrying from inside the `except` block

print('after the failed add :', [f'{l.id}:{l.version}' for l in wn.lexicons()])

print('EXPECTED: a following add of valid data succeeds '
      '-> lexicons test-en, test-es, test-ja, test-en-ext')
try:
    wn.add(DATA + 'mini-lmf-1.1.xml', progress_handler=None)
    print('OBSERVED: follow-up add succeeded:',
          [f'{l.id}:{l.version}' for l in wn.lexicons()])
except Exception as exc:
    print('OBSERVED: follow-up add raised', repr(exc))
    print('          lexicons:', [f'{l.id}:{l.version}' for l in wn.lexicons()])

try:
    wn.remove('test-es:1', progress_handler=None)
    print('OBSERVED: follow-up remove succeeded')
except Exception as exc:
    print('OBSERVED: follow-up remove raised', repr(exc))

# variant without any progress handler: an in-memory resource whose FIRST
# lexicon has a relation lacking 'relType' (same thing happens with an XML file
# lacking the attribute when Python runs with -O, because lmf.load validates
# with `assert`)
wn.config.data_directory = tempfile.mkdtemp()
res = wn.lmf.load(DATA + 'mini-lmf-1.0.xml', progress_handler=None)
good = wn.lmf.load(DATA + 'mini-lmf-1.0.xml', progress_handler=None)
del res['lexicons'][0]['synsets'][0]['relations'][0]['relType']
try:
    wn.add_lexical_resource(res, progress_handler=None)
except KeyError as exc:
    kept = exc
try:
    wn.add_lexical_resource(good, progress_handler=None)
    print('OBSERVED (variant): follow-up add succeeded')
except Exception as exc:
    print('OBSERVED (variant): follow-up add raised', repr(exc))
