"""C06 finding 4 (artificial): with an injected authorizer that keeps denying
until the call returns, the ROLLBACK issued by `with connect() as conn` is
denied too; the pooled connection stays inside the transaction, the partial
lexicon is visible through the API and the next successful add COMMITS it.

run: cd /tmp/wh/C06 && PYTHONPATH=/tmp/wh/C06 /venv/bin/python -B _hunt/finding4.py
"""
import sqlite3
import tempfile
import wn

wn.config.data_directory = tempfile.mkdtemp()
DATA = '/tmp/wh/C06/tests/data/'
wn.add(DATA + 'mini-lmf-1.0.xml', progress_handler=None)
conn = wn._db.connect()
armed = False


def authorizer(action, arg1, arg2, dbname, trigger):
    global armed
    if action == sqlite3.SQLITE_INSERT and arg1 == 'senses':
        armed = True
    return sqlite3.SQLITE_DENY if armed else sqlite3.SQLITE_OK


conn.set_authorizer(authorizer)
try:
    wn.add(DATA + 'mini-lmf-1.1.xml', progress_handler=None)
except Exception as exc:
    print('add raised', repr(exc))
conn.set_authorizer(None)

print('EXPECTED: no lexicon of the failed resource: test-en:1 test-es:1')
print('OBSERVED:', [f'{l.id}:{l.version}' for l in wn.lexicons()],
      '(connection still in transaction: %s)' % conn.in_transaction)
print('          words of test-ja:', wn.words(lexicon='test-ja'),
      'senses:', wn.senses(lexicon='test-ja'))

wn.add(DATA + 'mini-lmf-1.3.xml', progress_handler=None)   # a valid add
raw = sqlite3.connect(str(wn.config.database_path))
print('EXPECTED on disk after a following valid add: test-en, test-es, test-1.3')
print('OBSERVED on disk:',
      raw.execute('SELECT id FROM lexicons').fetchall(),
      'senses of test-ja on disk:',
      raw.execute("SELECT count(*) FROM senses WHERE lexicon_rowid ="
                  " (SELECT rowid FROM lexicons WHERE id='test-ja')").fetchone())
