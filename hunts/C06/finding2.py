"""C06 finding 2: the last progress-handler callback (close(), k = K) runs
AFTER the commit.  If it raises, add()/remove() fail but the change is
committed; for remove() the sqlite progress callback additionally stays
installed on the pooled connection.

run: cd /tmp/wh/C06 && PYTHONPATH=/tmp/wh/C06 /venv/bin/python -B _hunt/finding2.py
"""
import tempfile
import wn

wn.config.data_directory = tempfile.mkdtemp()
DATA = '/tmp/wh/C06/tests/data/'


class Handler(wn.util.ProgressHandler):
    closed = False

    def update(self, n=1, force=False):
        if Handler.closed:
            raise ValueError('I/O operation on closed file')

    def close(self):
        Handler.closed = True
        raise OSError('cannot close progress sink')


def specs():
    return [f'{l.id}:{l.version}' for l in wn.lexicons()]


print('before add:', specs())
try:
    resource = wn.lmf.load(DATA + 'mini-lmf-1.0.xml', progress_handler=None)
    wn.add_lexical_resource(resource, progress_handler=Handler)
    print('add returned normally')
except OSError as exc:
    print('add raised', repr(exc))
print('EXPECTED: add failed -> database as before: []')
print('OBSERVED:', specs())

Handler.closed = False
try:
    wn.remove('test-es:1', progress_handler=Handler)
except OSError as exc:
    print('remove raised', repr(exc))
print('EXPECTED: remove failed -> test-es:1 still there')
print('OBSERVED:', specs())

# the sqlite-level progress callback of the failed remove() is still installed
big = {'lmf_version': '1.1', 'lexicons': [{
    'id': 'big', 'version': '1', 'label': 'big', 'language': 'en',
    'email': 'a@b', 'license': 'x', 'meta': None, 'entries': [],
    'synsets': [{'id': f'big-{i}', 'ili': f'i{i}', 'partOfSpeech': 'n',
                 'definitions': [{'text': 'd', 'meta': None}],
                 'relations': [{'relType': 'hypernym', 'target': f'big-{i-1}',
                                'meta': None}] if i else [],
                 'examples': [], 'meta': None} for i in range(5000)]}]}
print('EXPECTED: library stays usable, a following valid add succeeds')
try:
    wn.add_lexical_resource(big, progress_handler=None)
    print('OBSERVED: add ok', specs())
except Exception as exc:
    print('OBSERVED: add raised', repr(exc), specs())
