"""C16 finding 1: common_hypernyms / lowest_common_hypernyms / shortest_path /
wup depend on PYTHONHASHSEED when the same missing ILI is reached (through an
expand lexicon) from synsets of two different selected lexicons.

Inferred placeholder synsets carry the lexicon rowid of the synset they were
inferred from (wn/_core.py:829-834, `_lexid=self._lexid`) and that rowid is part
of Synset.__hash__ (wn/_core.py:638-641), so inferred(i9, lexicon A) and
inferred(i9, lexicon B) are two distinct members of the `common` set in
wn/taxonomy.py:_common_hypernyms.  The sort key used there to linearise the set,
`(ss._id, ss._ili or '')` (wn/taxonomy.py:219), is identical for both, so the
stable sort leaves them in set-iteration order, which depends on the hash seed.

Run:  cd /tmp/wh/C16 && PYTHONPATH=/tmp/wh/C16 /venv/bin/python -B _hunt/finding1.py
(the script re-executes itself under PYTHONHASHSEED=0..7)
"""
import os
import subprocess
import sys

SEEDS = list(range(8))


def lexicon(id, synsets, rels=()):
    return {
        'id': id, 'version': '1', 'label': id, 'language': 'en',
        'email': 'a@b.c', 'license': 'x', 'meta': None,
        'entries': [],
        'synsets': [
            {'id': ssid, 'ili': ili, 'partOfSpeech': 'n', 'meta': None,
             'relations': [{'target': t, 'relType': 'hypernym', 'meta': None}
                           for s, t in rels if s == ssid]}
            for ssid, ili in synsets
        ],
    }


def child():
    import tempfile
    import wn
    import wn.similarity
    wn.config.data_directory = tempfile.mkdtemp()

    def add(lex):
        wn.add_lexical_resource({'lmf_version': '1.1', 'lexicons': [lex]},
                                progress_handler=None)

    # --- scenario 1: numeric wup value -------------------------------------
    # expand lexicon X:   x1 -> xx,  x1 -> x3 -> xx,   x2 -> xx,  x2 -> x4 -> xx
    add(lexicon('X', [('x1', 'i1'), ('x2', 'i2'), ('x3', 'i3'), ('x4', 'i4'), ('xx', 'i9')],
                [('x1', 'xx'), ('x1', 'x3'), ('x3', 'xx'),
                 ('x2', 'xx'), ('x2', 'x4'), ('x4', 'xx')]))
    add(lexicon('A', [('a1', 'i1'), ('a2', 'i2')]))   # no relations of their own
    add(lexicon('B', [('b1', 'i3'), ('b2', 'i4')]))   # i9 is in neither A nor B
    w = wn.Wordnet('A B', expand='X')
    a1, a2 = w.synset('a1'), w.synset('a2')
    show = lambda sss: [(s.id, s.ili.id if s.ili else None, s.lexicon().id) for s in sss]  # noqa
    print('common_hypernyms       ', show(a1.common_hypernyms(a2)))
    print('lowest_common_hypernyms', show(a1.lowest_common_hypernyms(a2)))
    print('wup                    ', wn.similarity.wup(a1, a2))

    # --- scenario 2: shortest_path content ----------------------------------
    # Y:  y1 -> y5 -> yy,  y1 -> y3 -> yy,   y2 -> y6 -> yy,  y2 -> y4 -> yy
    add(lexicon('Y', [('y1', 'j1'), ('y2', 'j2'), ('y3', 'j3'), ('y4', 'j4'),
                      ('y5', 'j5'), ('y6', 'j6'), ('yy', 'j9')],
                [('y1', 'y5'), ('y5', 'yy'), ('y1', 'y3'), ('y3', 'yy'),
                 ('y2', 'y6'), ('y6', 'yy'), ('y2', 'y4'), ('y4', 'yy')]))
    add(lexicon('C', [('c1', 'j1'), ('c2', 'j2'), ('c5', 'j5'), ('c6', 'j6')]))
    add(lexicon('D', [('d3', 'j3'), ('d4', 'j4')]))
    w2 = wn.Wordnet('C D', expand='Y')
    c1, c2 = w2.synset('c1'), w2.synset('c2')
    print('shortest_path          ', [s.id for s in c1.shortest_path(c2)])


if __name__ == '__main__':
    if len(sys.argv) > 1 and sys.argv[1] == 'child':
        child()
        sys.exit(0)
    outputs = {}
    for seed in SEEDS:
        env = dict(os.environ, PYTHONHASHSEED=str(seed))
        res = subprocess.run([sys.executable, '-B', __file__, 'child'],
                             env=env, capture_output=True, text=True, check=True)
        outputs.setdefault(res.stdout, []).append(seed)
    print('EXPECTED: one and the same transcript for every PYTHONHASHSEED')
    print(f'OBSERVED: {len(outputs)} different transcripts over seeds {SEEDS}')
    for text, seeds in outputs.items():
        print(f'--- PYTHONHASHSEED in {seeds}:')
        print(text, end='')
    sys.exit(0 if len(outputs) == 1 else 1)
