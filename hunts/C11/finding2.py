"""finding2: with two lexicons in one Wordnet (+ an expand lexicon), the SAME inferred
synset is treated as two different nodes depending on the lexicon of the synset it was
reached from: closure() yields it twice and relation_paths() yields non-simple paths.

en (expand) :  en-1 -similar-> en-2 <-similar-> en-3        (ILIs i1, i2, i3)
A           :  A-1 (i1), A-3 (i3)         B :  B-3 (i3)      nobody has i2 -> '*INFERRED*'
"""
import tempfile
import wn

wn.config.data_directory = tempfile.mkdtemp()


def lex(id, language, synsets, requires=None):
    d = dict(id=id, version='1', label=id, language=language, email='a@b.c',
             license='x', meta=None, entries=[], synsets=synsets)
    if requires:
        d['requires'] = requires
    return d


def ss(id, ili, targets=()):
    return dict(id=id, ili=ili, partOfSpeech='n', meta=None,
                relations=[dict(target=t, relType='similar', meta=None) for t in targets])


req = [dict(id='en', version='1')]
for lx in [lex('en', 'en', [ss('en-1', 'i1', ['en-2']), ss('en-2', 'i2', ['en-3']), ss('en-3', 'i3', ['en-2'])]),
           lex('A', 'es', [ss('A-1', 'i1'), ss('A-3', 'i3')], req),
           lex('B', 'es', [ss('B-3', 'i3')], req)]:
    wn.add_lexical_resource(dict(lmf_version='1.1', lexicons=[lx]), progress_handler=None)

w = wn.Wordnet('A:1 B:1', expand='en:1')        # same as wn.Wordnet(lang='es')
a1 = w.synset('A-1')


def name(s):
    return f'INFERRED({s._ili})' if s.id == '*INFERRED*' else s.id


closure = [name(s) for s in a1.closure('similar')]
print('closure EXPECTED (each reachable entity once):', sorted({'INFERRED(i2)', 'A-3', 'B-3'}))
print('closure OBSERVED                             :', closure)
paths = [[name(s) for s in p] for p in a1.relation_paths('similar')]
print('relation_paths EXPECTED: only simple paths, i.e. [INFERRED(i2), A-3] and [INFERRED(i2), B-3]')
for p in paths:
    print('relation_paths OBSERVED:', p, '' if len(set(p)) == len(p) else '  <-- NOT SIMPLE (INFERRED(i2) twice)')
bad = len(closure) != len(set(closure)) or any(len(set(p)) != len(p) for p in paths)
print('PROPERTY VIOLATED' if bad else 'PROPERTY HOLDS')
