"""finding3: Relation.lexicon() does not return the defining lexicon when the lexicon's
id/version contains GLOB metacharacters ('[', '?', '*') or whitespace, because the relation
only remembers the 'id:version' string and re-resolves it with find_lexicons() (SQL GLOB,
whitespace-split)."""
import tempfile
import wn

wn.config.data_directory = tempfile.mkdtemp()


def lex(id, version):
    return dict(id=id, version=version, label=id, language='en', email='a@b.c',
                license='x', meta=None, entries=[],
                synsets=[dict(id='s1', ili='', partOfSpeech='n', meta=None,
                              relations=[dict(target='s2', relType='hypernym', meta=None)]),
                         dict(id='s2', ili='', partOfSpeech='n', meta=None, relations=[])])


for id, ver in [('t', '1.0[rc]'), ('t', '1.0r'), ('u', '2?'), ('u', '2a'), ('v', '3 beta')]:
    wn.add_lexical_resource(dict(lmf_version='1.1', lexicons=[lex(id, ver)]), progress_handler=None)

bad = False
for lx in wn.lexicons():
    # select this one lexicon via its rowid-backed Synset objects
    s1 = [s for s in wn.synsets() if s.id == 's1' and s.lexicon().specifier() == lx.specifier()][0]
    (relation, target), = s1.relation_map().items()
    try:
        observed = relation.lexicon().specifier()
    except wn.Error as exc:
        observed = f'wn.Error: {exc}'
    ok = observed == lx.specifier()
    bad |= not ok
    print(f'relation declared in {lx.specifier()!r:14} EXPECTED lexicon() = {lx.specifier()!r:14} OBSERVED = {observed!r}'
          + ('' if ok else '   <-- WRONG'))
print('PROPERTY VIOLATED' if bad else 'PROPERTY HOLDS')
