"""finding6 (low confidence / probably by design): in default mode (wn.synset(), Wordnet()
without arguments) a synset also returns relations that were declared for a DIFFERENT synset,
because default mode uses every lexicon - including the synset's own lexicon and other
versions of it - as an 'expand' lexicon.

(a) one lexicon, two synsets sharing an ILI (only a validation *warning*, W302)
(b) two versions of one lexicon
"""
import tempfile
import wn


def lex(id, version, synsets):
    return dict(id=id, version=version, label=id, language='en', email='a@b.c',
                license='x', meta=None, entries=[], synsets=synsets)


def ss(id, ili, rels=()):
    return dict(id=id, ili=ili, partOfSpeech='n', meta=None,
                relations=[dict(target=t, relType=ty, meta=None) for ty, t in rels])


def add(lx):
    wn.add_lexical_resource(dict(lmf_version='1.1', lexicons=[lx]), progress_handler=None)


# (a)
wn.config.data_directory = tempfile.mkdtemp()
add(lex('b', '1', [ss('b-0', 'i1', [('hypernym', 'b-2')]),
                   ss('b-1', 'i1', [('hyponym', 'b-3')]),     # same ILI as b-0
                   ss('b-2', 'i2'), ss('b-3', 'i3')]))
print('(a) declared for b-0: hypernym -> b-2 only')
print('    restricted  Wordnet("b").synset("b-0").relations():', wn.Wordnet('b').synset('b-0').relations())
print('    default     wn.synset("b-0").relations()          :', wn.synset('b-0').relations())
print('    default     relation_map keys:', list(wn.synset('b-0').relation_map()))

# (b)
for c in wn._db.pool.values():
    c.close()
wn._db.pool.clear()
wn.config.data_directory = tempfile.mkdtemp()
add(lex('b', '1', [ss('b-0', 'i1', [('hypernym', 'b-2')]), ss('b-2', 'i2'), ss('b-3', 'i3')]))
add(lex('b', '2', [ss('b-0', 'i1', [('hypernym', 'b-3')]), ss('b-2', 'i2'), ss('b-3', 'i3')]))
s = wn.synset('b-0', lexicon=None)
s = [x for x in wn.synsets() if x.id == 'b-0' and x.lexicon().version == '1'][0]
print('(b) declared for b-0 of b:1: hypernym -> b-2 only (b:2 re-attached it to b-3)')
print('    default mode, b:1 synset .hypernyms():', s.hypernyms(), [(r, r.lexicon().specifier()) for r in s.relation_map()])
