"""finding5 (low/medium): relation_map() silently drops declared relations.
(a) two relations that differ only in metadata OTHER than dc:type (dc:source, note,
    confidenceScore, ...) collapse into one key, so one relation's metadata is unobservable;
(b) in expand mode, one relation of the expand lexicon whose target ILI is shared by two
    local synsets is mapped to only ONE of them, while relations()/get_related() report both.
"""
import os
import tempfile
import wn

wn.config.data_directory = tempfile.mkdtemp()
XML = '''<?xml version="1.0" encoding="UTF-8"?>
<!DOCTYPE LexicalResource SYSTEM "http://globalwordnet.github.io/schemas/WN-LMF-1.1.dtd">
<LexicalResource xmlns:dc="https://globalwordnet.github.io/schemas/dc/">
  <Lexicon id="t" label="t" language="en" email="a@b.c" license="x" version="1">
    <Synset id="t-1" ili="i1" partOfSpeech="n">
      <SynsetRelation relType="hypernym" target="t-2" dc:source="Miller 1990" confidenceScore="0.9"/>
      <SynsetRelation relType="hypernym" target="t-2" dc:source="auto-linker" confidenceScore="0.2"/>
    </Synset>
    <Synset id="t-2" ili="i2" partOfSpeech="n"/>
  </Lexicon>
  <Lexicon id="u" label="u" language="es" email="a@b.c" license="x" version="1">
    <Requires id="t" version="1"/>
    <Synset id="u-1" ili="i1" partOfSpeech="n"/>
    <Synset id="u-2a" ili="i2" partOfSpeech="n"/>
    <Synset id="u-2b" ili="i2" partOfSpeech="n"/>
  </Lexicon>
</LexicalResource>
'''
path = os.path.join(tempfile.mkdtemp(), 't.xml')
open(path, 'w', encoding='utf-8').write(XML)
wn.add(path, progress_handler=None)

t1 = wn.Wordnet('t:1').synset('t-1')
rm = t1.relation_map()
print('(a) EXPECTED 2 declared relations, metadata sources {"Miller 1990", "auto-linker"}')
print('    OBSERVED', len(rm), 'relation(s):', [(r, r.metadata()) for r in rm])

u1 = wn.Wordnet('u:1', expand='t:1').synset('u-1')
print('(b) relations()  :', u1.relations())
print('    EXPECTED relation_map() to account for both targets u-2a and u-2b')
print('    OBSERVED relation_map():', u1.relation_map())
