"""finding1: relation_paths(end=<inferred synset>) yields paths that do not end at `end`.

Wordnet('es', expand='en'); 'es' lacks synsets for ILIs i2, i4, i5, so they are
represented by '*INFERRED*' placeholder synsets.  en graph (hypernym):
    en-1 -> en-2 -> en-4        en-1 -> en-5
"""
import tempfile
import wn

wn.config.data_directory = tempfile.mkdtemp()


def lex(id, language, synsets, requires=None):
    d = dict(id=id, version='1', label=id, language=language, email='a@b.c',
             license='x', meta=None, entries=[], synsets=synsets)
    if requires:
        d['requires'] = requires
    return d


def ss(id, ili, targets=()):
    return dict(id=id, ili=ili, partOfSpeech='n', meta=None,
                relations=[dict(target=t, relType='hypernym', meta=None) for t in targets])


en = lex('en', 'en', [ss('en-1', 'i1', ['en-2', 'en-5']), ss('en-2', 'i2', ['en-4']),
                      ss('en-4', 'i4'), ss('en-5', 'i5')])
es = lex('es', 'es', [ss('es-1', 'i1')], requires=[dict(id='en', version='1')])
wn.add_lexical_resource(dict(lmf_version='1.1', lexicons=[en]), progress_handler=None)
wn.add_lexical_resource(dict(lmf_version='1.1', lexicons=[es]), progress_handler=None)

w = wn.Wordnet('es:1', expand='en:1')
start = w.synset('es-1')
nodes = {s._ili: s for s in start.closure('hypernym')}
assert sorted(nodes) == ['i2', 'i4', 'i5'] and all(s.id == '*INFERRED*' for s in nodes.values())


def show(path):
    return [s._ili for s in path]


ok = True
for ili, expected in [('i4', [['i2', 'i4']]), ('i5', [['i5']]), ('i2', [['i2']])]:
    observed = sorted(show(p) for p in start.relation_paths('hypernym', end=nodes[ili]))
    print(f'end = inferred synset for ILI {ili}')
    print('  EXPECTED paths (as ILIs):', expected)
    print('  OBSERVED paths (as ILIs):', observed)
    ok &= observed == expected
print('PROPERTY HOLDS' if ok else 'PROPERTY VIOLATED: paths returned for end=X do not end at X '
      '(and the real path to i4 is never returned)')
print('cause: Synset.__eq__ ->', nodes['i2'] == nodes['i5'], '(two different inferred synsets compare equal)')
