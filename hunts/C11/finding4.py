"""finding4: an extension of an extension (x2 extends x1 extends b; supported by
Lexicon.extensions(depth=...)/get_lexicon_extension_bases, which are recursive) cannot add a
relation to an entity of the ROOT base: External* ids are only looked up in the DIRECT base
(wn/_add.py _build_lexid_map uses the single `extid`), so adding fails with IntegrityError.
Relations to entities of the direct base work."""
import tempfile
import wn

wn.config.data_directory = tempfile.mkdtemp()


def lex(id, synsets, extends=None):
    d = dict(id=id, version='1', label=id, language='en', email='a@b.c',
             license='x', meta=None, entries=[], synsets=synsets)
    if extends:
        d['extends'] = dict(id=extends, version='1')
    return d


def ss(id, rels=()):
    return dict(id=id, ili='', partOfSpeech='n', meta=None,
                relations=[dict(target=t, relType=ty, meta=None) for ty, t in rels])


def ext(id, rels=()):
    return dict(id=id, external=True,
                relations=[dict(target=t, relType=ty, meta=None) for ty, t in rels])


def add(lx):
    wn.add_lexical_resource(dict(lmf_version='1.1', lexicons=[lx]), progress_handler=None)


add(lex('b', [ss('b-1')]))
add(lex('x1', [ext('b-1', [('hyponym', 'x1-1')]), ss('x1-1', [('hypernym', 'b-1')])], extends='b'))
print('x1 extends', wn.lexicons(lexicon='x1')[0].extends(), '; b.extensions(depth=-1) will list extensions of extensions')
print('EXPECTED: x2 (extends x1) can declare  b-1 --hyponym--> x2-1  and  x2-1 --hypernym--> b-1, '
      'and Wordnet("b x1 x2").synset("b-1").hyponyms() == [x1-1, x2-1]')
try:
    add(lex('x2', [ext('b-1', [('hyponym', 'x2-1')]), ss('x2-1', [('hypernym', 'b-1')])], extends='x1'))
    w = wn.Wordnet('b x1 x2')
    print('OBSERVED:', w.synset('b-1').hyponyms(), w.synset('x2-1').hypernyms())
except Exception as exc:
    print('OBSERVED:', type(exc).__name__, exc)
    print('PROPERTY VIOLATED (the extension cannot even be added)')
print('lexicons after the failed add (rolled back?):', wn.lexicons())
