"""
finding2: two lexicon-level <SyntacticBehaviour> elements (WN-LMF 1.1+) that carry the
same subcategorizationFrame text but different ids.  _collect_frames() keys its table on
the frame STRING, so the later element overwrites the earlier one:
  (a) senses given through the `senses` attribute of the first element silently lose the frame
  (b) a Sense whose `subcat` refers to the first element's id makes wn.add() die with KeyError

Run:  cd /tmp/wh/C01 && PYTHONPATH=/tmp/wh/C01 /venv/bin/python -B _hunt/finding2.py
"""
import os
import tempfile
import wn

TEMPLATE = '''<?xml version="1.0" encoding="UTF-8"?>
<!DOCTYPE LexicalResource SYSTEM "http://globalwordnet.github.io/schemas/WN-LMF-1.1.dtd">
<LexicalResource xmlns:dc="https://globalwordnet.github.io/schemas/dc/">
  <Lexicon id="L" label="L" language="en" email="a@b.c" license="lic" version="1">
    <LexicalEntry id="L-eat-v">
      <Lemma writtenForm="eat" partOfSpeech="v"/>
      <Sense id="L-eat-v-1" synset="L-1-v" {subcat1}/>
      <Sense id="L-eat-v-2" synset="L-2-v" {subcat2}/>
    </LexicalEntry>
    <Synset id="L-1-v" ili="" partOfSpeech="v"/>
    <Synset id="L-2-v" ili="" partOfSpeech="v"/>
    <SyntacticBehaviour id="L-sb-1" subcategorizationFrame="Somebody ----s something" {senses1}/>
    <SyntacticBehaviour id="L-sb-2" subcategorizationFrame="Somebody ----s something" {senses2}/>
  </Lexicon>
</LexicalResource>
'''
EXPECTED = {'L-eat-v-1': ['Somebody ----s something'], 'L-eat-v-2': ['Somebody ----s something']}
violated = False
for label, kw in [
    ('(a) senses= attribute', dict(subcat1='', subcat2='', senses1='senses="L-eat-v-1"', senses2='senses="L-eat-v-2"')),
    ('(b) subcat= attribute', dict(subcat1='subcat="L-sb-1"', subcat2='subcat="L-sb-2"', senses1='', senses2='')),
]:
    for conn in wn._db.pool.values():
        conn.close()
    wn._db.pool.clear()
    wn.config.data_directory = tempfile.mkdtemp()
    path = os.path.join(wn.config.data_directory, 'doc.xml')
    open(path, 'w', encoding='utf-8').write(TEMPLATE.format(**kw))
    try:
        wn.add(path, progress_handler=None)
        observed = {s.id: s.frames() for s in wn.senses()}
    except Exception as exc:
        observed = f'wn.add() raised {exc!r}'
    print(label)
    print('   EXPECTED', EXPECTED)
    print('   OBSERVED', observed)
    violated |= observed != EXPECTED
print('RESULT:', 'PROPERTY VIOLATED' if violated else 'property holds')
