"""
finding3: a LexicalEntry with two forms that have the same writtenForm AND the same
(non-empty) script -- e.g. lemma "read" and the homographic past-tense Form "read",
told apart only by their Tag/Pronunciation children -- cannot be added at all:
sqlite3.IntegrityError (UNIQUE (entry_rowid, form, script) in schema.sql) and the whole
resource is rolled back.  Exactly the same entry WITHOUT script attributes is accepted and
reported correctly (NULLs are distinct in a UNIQUE index), so the rejection is an accident
of the schema, not a rule.

Run:  cd /tmp/wh/C01 && PYTHONPATH=/tmp/wh/C01 /venv/bin/python -B _hunt/finding3.py
"""
import os
import tempfile
import wn

TEMPLATE = '''<?xml version="1.0" encoding="UTF-8"?>
<!DOCTYPE LexicalResource SYSTEM "http://globalwordnet.github.io/schemas/WN-LMF-1.1.dtd">
<LexicalResource xmlns:dc="https://globalwordnet.github.io/schemas/dc/">
  <Lexicon id="L" label="L" language="en" email="a@b.c" license="lic" version="1">
    <LexicalEntry id="L-read-v">
      <Lemma writtenForm="read" partOfSpeech="v"{script}><Pronunciation>ri:d</Pronunciation></Lemma>
      <Form id="L-read-v-past" writtenForm="read"{script}><Pronunciation>rEd</Pronunciation><Tag category="tense">past</Tag></Form>
      <Sense id="L-read-v-1" synset="L-1-v"/>
    </LexicalEntry>
    <Synset id="L-1-v" ili="" partOfSpeech="v"/>
  </Lexicon>
</LexicalResource>
'''
violated = False
for script in ('', ' script="Latn"'):
    for conn in wn._db.pool.values():
        conn.close()
    wn._db.pool.clear()
    wn.config.data_directory = tempfile.mkdtemp()
    path = os.path.join(wn.config.data_directory, 'doc.xml')
    open(path, 'w', encoding='utf-8').write(TEMPLATE.format(script=script))
    sc = 'Latn' if script else None
    expected = [('read', sc, ['ri:d'], []), ('read', sc, ['rEd'], ['past'])]
    try:
        wn.add(path, progress_handler=None)
        w = wn.word('L-read-v')
        observed = [(str(f), f.script, [p.value for p in f.pronunciations()], [t.tag for t in f.tags()])
                    for f in w.forms()]
    except Exception as exc:
        observed = f'wn.add() raised {exc!r}; lexicons in db: {wn.lexicons()}'
    print(f'script attribute: {script or "(absent)"}')
    print('   EXPECTED', expected)
    print('   OBSERVED', observed)
    violated |= observed != expected
print('RESULT:', 'PROPERTY VIOLATED' if violated else 'property holds')
