"""
finding4: characters that are NOT XML white space (NO-BREAK SPACE U+00A0, IDEOGRAPHIC SPACE
U+3000, LINE SEPARATOR U+2028, NEL U+0085, EM SPACE U+2003, ...) are replaced by an ASCII
space / collapsed / stripped in the text of Definition, Example, Tag, Pronunciation and
ILIDefinition, because lmf.py normalises with ' '.join(text.split()) and str.split() splits
on every Unicode white-space character.  (Collapsing of XML white space -- space, tab, CR, LF --
is pinned by tests/lmf_test.py::test_load_1_3 and is NOT what is reported here.)

Run:  cd /tmp/wh/C01 && PYTHONPATH=/tmp/wh/C01 /venv/bin/python -B _hunt/finding4.py
"""
import os
import tempfile
import wn

wn.config.data_directory = tempfile.mkdtemp()
DEFN = '10 km　全角 x\u0085y z'
EX = ' « quoted » '
TAG = 'a　　b'
XML = f'''<?xml version="1.0" encoding="UTF-8"?>
<!DOCTYPE LexicalResource SYSTEM "http://globalwordnet.github.io/schemas/WN-LMF-1.1.dtd">
<LexicalResource xmlns:dc="https://globalwordnet.github.io/schemas/dc/">
  <Lexicon id="L" label="L" language="ja" email="a@b.c" license="lic" version="1">
    <LexicalEntry id="L-e-n">
      <Lemma writtenForm="x" partOfSpeech="n"><Pronunciation>{TAG}</Pronunciation><Tag category="c">{TAG}</Tag></Lemma>
      <Sense id="L-e-n-1" synset="L-1-n"><Example>{EX}</Example></Sense>
    </LexicalEntry>
    <Synset id="L-1-n" ili="" partOfSpeech="n" dc:description="{DEFN}">
      <Definition>{DEFN}</Definition>
      <Example>{EX}</Example>
    </Synset>
  </Lexicon>
</LexicalResource>
'''
path = os.path.join(wn.config.data_directory, 'doc.xml')
open(path, 'w', encoding='utf-8').write(XML)
wn.add(path, progress_handler=None)
ss = wn.synset('L-1-n')
lemma = wn.word('L-e-n').lemma()
rows = [
    ('Synset.definition()', DEFN, ss.definition()),
    ('Synset.examples()[0]', EX, ss.examples()[0]),
    ('Sense.examples()[0]', EX, wn.sense('L-e-n-1').examples()[0]),
    ('Tag.tag', TAG, lemma.tags()[0].tag),
    ('Pronunciation.value', TAG, lemma.pronunciations()[0].value),
    ('(control) same string in an attribute: metadata dc:description', DEFN, ss.metadata()['description']),
]
violated = False
for label, exp, obs in rows:
    bad = exp != obs
    violated |= bad
    print(f'{label}\n   EXPECTED {exp!a}\n   OBSERVED {obs!a}   {"<-- ALTERED" if bad else "ok"}')
print('RESULT:', 'PROPERTY VIOLATED' if violated else 'property holds')
