"""
finding6 (OUTSIDE the quantifier as written -- "new forms on external entries" is not among
the listed extension patterns -- but DTD-valid and modelled by wn.lmf.ExternalLexicalEntry.forms):
a NEW <Form> that an extension adds to an ExternalLexicalEntry gets rank 1,2,... counted inside
the extension, which collides with the ranks of the base entry's own forms; FORM_QUERY
("f.id = ? OR f.rank = ?") then resolves the new form's Tag/Pronunciation children to the
BASE form with the same rank.  The tags end up on the wrong word form.

Run:  cd /tmp/wh/C01 && PYTHONPATH=/tmp/wh/C01 /venv/bin/python -B _hunt/finding6.py
"""
import os
import tempfile
import wn

wn.config.data_directory = tempfile.mkdtemp()
d = wn.config.data_directory
HEAD = '''<?xml version="1.0" encoding="UTF-8"?>
<!DOCTYPE LexicalResource SYSTEM "http://globalwordnet.github.io/schemas/WN-LMF-1.1.dtd">
<LexicalResource xmlns:dc="https://globalwordnet.github.io/schemas/dc/">
'''
BASE = HEAD + '''  <Lexicon id="base" label="Base" language="en" email="a@b.c" license="lic" version="1">
    <LexicalEntry id="base-go-v">
      <Lemma writtenForm="go" partOfSpeech="v"/>
      <Form id="base-go-v-went" writtenForm="went"><Tag category="tense">past</Tag></Form>
      <Sense id="base-go-v-1" synset="base-1-v"/>
    </LexicalEntry>
    <Synset id="base-1-v" ili="" partOfSpeech="v"/>
  </Lexicon>
</LexicalResource>
'''
EXT = HEAD + '''  <LexiconExtension id="ext" label="Ext" language="en" email="a@b.c" license="lic" version="1">
    <Extends id="base" version="1"/>
    <ExternalLexicalEntry id="base-go-v">
      <Form id="ext-go-v-goes" writtenForm="goes">
        <Pronunciation>gouz</Pronunciation>
        <Tag category="agr">3sg</Tag>
      </Form>
    </ExternalLexicalEntry>
  </LexiconExtension>
</LexicalResource>
'''
for name, text in (('base.xml', BASE), ('ext.xml', EXT)):
    p = os.path.join(d, name)
    open(p, 'w', encoding='utf-8').write(text)
    wn.add(p, progress_handler=None)
w = wn.Wordnet(lexicon='base:1 ext:1').word('base-go-v')
observed = [(str(f), [t.tag for t in f.tags()], [p.value for p in f.pronunciations()]) for f in w.forms()]
expected = [('go', [], []), ('went', ['past'], []), ('goes', ['3sg'], ['gouz'])]
print('EXPECTED', expected)
print('OBSERVED', observed)
print('RESULT:', 'PROPERTY VIOLATED (outside stated quantifier)' if observed != expected else 'holds')
