"""
finding5: a resource file that contains a Lexicon AND a LexiconExtension of that lexicon.
_precheck() looks every lexicon of the file up in the database BEFORE anything is inserted,
so the extension is judged "base lexicon not available" and silently skipped (only a
progress-handler flash message); wn.add() returns normally.  Adding the same file a second
time then adds the extension.

Run:  cd /tmp/wh/C01 && PYTHONPATH=/tmp/wh/C01 /venv/bin/python -B _hunt/finding5.py
"""
import os
import tempfile
import wn

wn.config.data_directory = tempfile.mkdtemp()
XML = '''<?xml version="1.0" encoding="UTF-8"?>
<!DOCTYPE LexicalResource SYSTEM "http://globalwordnet.github.io/schemas/WN-LMF-1.1.dtd">
<LexicalResource xmlns:dc="https://globalwordnet.github.io/schemas/dc/">
  <Lexicon id="base" label="Base" language="en" email="a@b.c" license="lic" version="1">
    <LexicalEntry id="base-go-v">
      <Lemma writtenForm="go" partOfSpeech="v"/>
      <Sense id="base-go-v-1" synset="base-1-v"/>
    </LexicalEntry>
    <Synset id="base-1-v" ili="" partOfSpeech="v"/>
  </Lexicon>
  <LexiconExtension id="ext" label="Ext" language="en" email="a@b.c" license="lic" version="1">
    <Extends id="base" version="1"/>
    <LexicalEntry id="ext-walk-v">
      <Lemma writtenForm="walk" partOfSpeech="v"/>
      <Sense id="ext-walk-v-1" synset="ext-1-v"/>
    </LexicalEntry>
    <Synset id="ext-1-v" ili="" partOfSpeech="v"><Definition>use one's feet</Definition></Synset>
  </LexiconExtension>
</LexicalResource>
'''
path = os.path.join(wn.config.data_directory, 'doc.xml')
open(path, 'w', encoding='utf-8').write(XML)
wn.add(path, progress_handler=None)
expected = (['base:1', 'ext:1'], ['base-go-v', 'ext-walk-v'])
observed = ([lx.specifier() for lx in wn.lexicons()], [w.id for w in wn.words()])
print('after wn.add(doc.xml)')
print('   EXPECTED lexicons/words', expected)
print('   OBSERVED lexicons/words', observed)
wn.add(path, progress_handler=None)
print('after a SECOND wn.add(doc.xml):', [lx.specifier() for lx in wn.lexicons()], [w.id for w in wn.words()])
print('RESULT:', 'PROPERTY VIOLATED' if observed != expected else 'property holds')
