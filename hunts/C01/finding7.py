"""
finding7 (minor, adjacent): scan_lexicons() is a regular-expression scan over the raw bytes
and also matches inside XML comments.  A commented-out <Extends .../> inside an ordinary
<Lexicon> makes _precheck() treat the lexicon as an extension whose base is missing:
wn.add() returns normally and NOTHING is added.

Run:  cd /tmp/wh/C01 && PYTHONPATH=/tmp/wh/C01 /venv/bin/python -B _hunt/finding7.py
"""
import os
import tempfile
import wn
from wn import lmf

wn.config.data_directory = tempfile.mkdtemp()
XML = '''<?xml version="1.0" encoding="UTF-8"?>
<!DOCTYPE LexicalResource SYSTEM "http://globalwordnet.github.io/schemas/WN-LMF-1.1.dtd">
<LexicalResource xmlns:dc="https://globalwordnet.github.io/schemas/dc/">
  <Lexicon id="L" label="L" language="en" email="a@b.c" license="lic" version="1">
    <!-- TODO make this an extension: <Extends id="pwn" version="3.0"/> -->
    <LexicalEntry id="L-go-v"><Lemma writtenForm="go" partOfSpeech="v"/><Sense id="L-go-v-1" synset="L-1-v"/></LexicalEntry>
    <Synset id="L-1-v" ili="" partOfSpeech="v"/>
  </Lexicon>
</LexicalResource>
'''
path = os.path.join(wn.config.data_directory, 'doc.xml')
open(path, 'w', encoding='utf-8').write(XML)
print('lmf.load() sees      :', [(lx['id'], lx.get('extends')) for lx in lmf.load(path, progress_handler=None)['lexicons']])
print('scan_lexicons() sees :', lmf.scan_lexicons(path))
wn.add(path, progress_handler=None)
observed = [lx.specifier() for lx in wn.lexicons()]
print('EXPECTED lexicons after wn.add():', ['L:1'])
print('OBSERVED lexicons after wn.add():', observed)
print('RESULT:', 'PROPERTY VIOLATED' if observed != ['L:1'] else 'holds')
