"""
finding1: tags and pronunciations that a lexicon EXTENSION puts on an external
lemma / external form are reported for the BASE lexicon even when the extension
is not selected -- and even after the extension has been removed from the
database; re-adding the extension then duplicates them.

Run:  cd /tmp/wh/C01 && PYTHONPATH=/tmp/wh/C01 /venv/bin/python -B _hunt/finding1.py
"""
import os
import tempfile
import wn

wn.config.data_directory = tempfile.mkdtemp()
d = wn.config.data_directory

BASE = '''<?xml version="1.0" encoding="UTF-8"?>
<!DOCTYPE LexicalResource SYSTEM "http://globalwordnet.github.io/schemas/WN-LMF-1.1.dtd">
<LexicalResource xmlns:dc="https://globalwordnet.github.io/schemas/dc/">
  <Lexicon id="base" label="Base" language="en" email="a@b.c" license="lic" version="1">
    <LexicalEntry id="base-go-v">
      <Lemma writtenForm="go" partOfSpeech="v"/>
      <Form id="base-go-v-went" writtenForm="went"><Tag category="tense">past</Tag></Form>
      <Sense id="base-go-v-1" synset="base-1-v"/>
    </LexicalEntry>
    <Synset id="base-1-v" ili="" partOfSpeech="v"/>
  </Lexicon>
</LexicalResource>
'''
EXT = '''<?xml version="1.0" encoding="UTF-8"?>
<!DOCTYPE LexicalResource SYSTEM "http://globalwordnet.github.io/schemas/WN-LMF-1.1.dtd">
<LexicalResource xmlns:dc="https://globalwordnet.github.io/schemas/dc/">
  <LexiconExtension id="ext" label="Ext" language="en" email="a@b.c" license="lic" version="1">
    <Extends id="base" version="1"/>
    <ExternalLexicalEntry id="base-go-v">
      <ExternalLemma>
        <Pronunciation>EXT-PRON</Pronunciation>
        <Tag category="x">EXT-LEMMA-TAG</Tag>
      </ExternalLemma>
      <ExternalForm id="base-go-v-went">
        <Tag category="x">EXT-FORM-TAG</Tag>
      </ExternalForm>
    </ExternalLexicalEntry>
  </LexiconExtension>
</LexicalResource>
'''
bp, xp = os.path.join(d, 'base.xml'), os.path.join(d, 'ext.xml')
open(bp, 'w', encoding='utf-8').write(BASE)
open(xp, 'w', encoding='utf-8').write(EXT)


def view(lexicon):
    w = wn.Wordnet(lexicon=lexicon).word('base-go-v')
    return [(str(f), [t.tag for t in f.tags()], [p.value for p in f.pronunciations()])
            for f in w.forms()]


EXPECTED_BASE = [('go', [], []), ('went', ['past'], [])]
EXPECTED_BOTH = [('go', ['EXT-LEMMA-TAG'], ['EXT-PRON']), ('went', ['past', 'EXT-FORM-TAG'], [])]
ok = True


def check(label, expected, observed):
    global ok
    good = expected == observed
    ok &= good
    print(f'{label}\n   EXPECTED {expected}\n   OBSERVED {observed}   {"ok" if good else "<-- VIOLATION"}')


wn.add(bp, progress_handler=None)
check('1. only base:1 in the database, Wordnet("base:1")', EXPECTED_BASE, view('base:1'))
wn.add(xp, progress_handler=None)
check('2. ext:1 added, Wordnet("base:1 ext:1")', EXPECTED_BOTH, view('base:1 ext:1'))
check('3. ext:1 added but NOT selected, Wordnet("base:1")', EXPECTED_BASE, view('base:1'))
wn.remove('ext:1', progress_handler=None)
print('   lexicons in db:', [lx.specifier() for lx in wn.lexicons()])
check('4. ext:1 REMOVED, Wordnet("base:1")', EXPECTED_BASE, view('base:1'))
wn.add(xp, progress_handler=None)
check('5. ext:1 re-added, Wordnet("base:1 ext:1")', EXPECTED_BOTH, view('base:1 ext:1'))
print('RESULT:', 'property holds' if ok else 'PROPERTY VIOLATED')
