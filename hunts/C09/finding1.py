"""C09 finding 1: a lemmatizer that proposes an EMPTY set of forms for some
part of speech makes words()/senses()/synsets() return every entity of that
part of speech (or the whole lexicon for the None key) instead of nothing /
the query itself.

Run:  cd /tmp/wh/C09 && PYTHONPATH=/tmp/wh/C09 /venv/bin/python -B _hunt/finding1.py
"""
import tempfile
import wn

wn.config.data_directory = tempfile.mkdtemp()
wn.add('/tmp/wh/C09/tests/data/mini-lmf-1.0.xml', progress_handler=None)

# A perfectly ordinary table-driven lemmatizer: it conforms to the documented
# signature  lemmatizer(s, pos) -> Dict[Optional[str], Set[str]]
TABLE = {('examples', 'n'): {'example'}}


def lemmatizer(form, pos):
    return {pos: TABLE.get((form, pos), set())}


plain = wn.Wordnet('test-en')
w = wn.Wordnet('test-en', lemmatizer=lemmatizer)

assert w.words('examples', 'n') == plain.words('example', 'n')   # sanity: table hit works

ok = True
for kind in ('words', 'senses', 'synsets'):
    for q, pos in (('zzz', 'n'), ('zzz', None), ('example', None)):
        observed = getattr(w, kind)(q, pos)
        # "the query itself if it proposes nothing"
        expected = getattr(plain, kind)(q, pos)
        everything = getattr(plain, kind)(None, pos)
        flag = 'OK ' if observed == expected else 'BAD'
        ok &= observed == expected
        print(f'{flag} {kind}({q!r}, pos={pos!r})')
        print(f'     EXPECTED {expected}')
        print(f'     OBSERVED {observed}')
        if observed != expected:
            print(f'     (observed == all {kind} with pos={pos!r}: {observed == everything})')
            if kind == 'words':
                bad = [x for x in observed if q not in x.forms()]
                print(f'     results with no form matching {q!r}: {len(bad)} of {len(observed)}')

# mixed: one pos with candidates, one pos with an empty set
w2 = wn.Wordnet('test-en', lemmatizer=lambda f, p: {'v': {'exemplify'}, 'n': set()})
observed = w2.words('exemplifies')
expected = plain.words('exemplify', 'v')
print('OK ' if observed == expected else 'BAD', "words('exemplifies') with {'v': {'exemplify'}, 'n': set()}")
print('     EXPECTED', expected)
print('     OBSERVED', observed)
ok &= observed == expected
print('PROPERTY HOLDS' if ok else 'PROPERTY VIOLATED')
