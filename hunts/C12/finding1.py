"""Finding 1: Synset.relation_map() silently drops targets when one expand-lexicon
relation maps (via ILI) to several synsets of the selected lexicon(s).

Run: cd /tmp/wh/C12 && PYTHONPATH=/tmp/wh/C12 /venv/bin/python -B _hunt/finding1.py
"""
import os, tempfile
import wn

wn.config.data_directory = tempfile.mkdtemp()

HEAD = '''<?xml version="1.0" encoding="UTF-8"?>
<!DOCTYPE LexicalResource SYSTEM "http://globalwordnet.github.io/schemas/WN-LMF-1.1.dtd">
<LexicalResource xmlns:dc="http://globalwordnet.github.io/schemas/dc/">
'''
XML = HEAD + '''
  <Lexicon id="E" label="E" language="en" email="a@b.c" license="x" version="1">
    <LexicalEntry id="E-w1"><Lemma writtenForm="dog" partOfSpeech="n"/><Sense id="E-s1" synset="E-dog"/></LexicalEntry>
    <LexicalEntry id="E-w2"><Lemma writtenForm="animal" partOfSpeech="n"/><Sense id="E-s2" synset="E-animal"/></LexicalEntry>
    <Synset id="E-dog" ili="i1" partOfSpeech="n"><SynsetRelation relType="hypernym" target="E-animal"/></Synset>
    <Synset id="E-animal" ili="i2" partOfSpeech="n"/>
  </Lexicon>
  <Lexicon id="L" label="L" language="xx" email="a@b.c" license="x" version="1">
    <Requires id="E" version="1"/>
    <LexicalEntry id="L-w1"><Lemma writtenForm="x" partOfSpeech="n"/><Sense id="L-s1" synset="L-x"/></LexicalEntry>
    <LexicalEntry id="L-w2"><Lemma writtenForm="y1" partOfSpeech="n"/><Sense id="L-s2" synset="L-y1"/></LexicalEntry>
    <LexicalEntry id="L-w3"><Lemma writtenForm="y2" partOfSpeech="n"/><Sense id="L-s3" synset="L-y2"/></LexicalEntry>
    <Synset id="L-x" ili="i1" partOfSpeech="n"/>
    <!-- two synsets of L carry the ILI of E-animal (several synsets per ILI) -->
    <Synset id="L-y1" ili="i2" partOfSpeech="n"/>
    <Synset id="L-y2" ili="i2" partOfSpeech="n"/>
  </Lexicon>
</LexicalResource>
'''
path = os.path.join(tempfile.mkdtemp(), 'f1.xml')
with open(path, 'w', encoding='utf-8') as f:
    f.write(XML)
wn.add(path, progress_handler=None)

w = wn.Wordnet('L')            # default expand = declared dependency E:1
x = w.synset('L-x')
rels = x.relations()
related = x.get_related()
relmap = x.relation_map()

print('expanded_lexicons :', w.expanded_lexicons())
print('relations()       :', rels)
print('get_related()     :', related)
print('relation_map()    :', relmap)

expected = {'L-y1', 'L-y2'}
observed = {t.id for t in relmap.values()}
print()
print('EXPECTED targets reported by relation_map():', sorted(expected),
      '(each target replaced by the synset(s) of L carrying the target ILI)')
print('OBSERVED targets reported by relation_map():', sorted(observed))
assert {t.id for t in rels['hypernym']} == expected      # relations() is right
assert {t.id for t in related} == expected               # get_related() is right
if observed != expected:
    print('VIOLATION: relation_map() lost', sorted(expected - observed))
else:
    print('no violation')
