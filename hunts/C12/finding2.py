"""Finding 2: a Wordnet restricted to several lexicons that declare the SAME
dependency lists that dependency several times in expanded_lexicons() (and names
a missing one several times in the warning), i.e. the default expand set is not
"exactly their declared dependencies that are installed".

Run: cd /tmp/wh/C12 && PYTHONPATH=/tmp/wh/C12 /venv/bin/python -B _hunt/finding2.py
"""
import os, tempfile, warnings
import wn

wn.config.data_directory = tempfile.mkdtemp()

def lexicon(id, lang, ili, requires=''):
    return f'''
  <Lexicon id="{id}" label="{id}" language="{lang}" email="a@b.c" license="x" version="1">
    {requires}
    <LexicalEntry id="{id}-w"><Lemma writtenForm="{id}w" partOfSpeech="n"/><Sense id="{id}-s" synset="{id}-ss"/></LexicalEntry>
    <Synset id="{id}-ss" ili="{ili}" partOfSpeech="n"/>
  </Lexicon>'''

REQ = '<Requires id="E" version="1"/><Requires id="Z" version="9"/>'
XML = ('<?xml version="1.0" encoding="UTF-8"?>\n'
       '<!DOCTYPE LexicalResource SYSTEM "http://globalwordnet.github.io/schemas/WN-LMF-1.1.dtd">\n'
       '<LexicalResource xmlns:dc="http://globalwordnet.github.io/schemas/dc/">'
       + lexicon('E', 'en', 'i1')
       + lexicon('L1', 'es', 'i1', REQ)     # two lexicons of one language,
       + lexicon('L2', 'es', 'i1', REQ)     # both built on E:1 (and on the absent Z:9)
       + '</LexicalResource>')
path = os.path.join(tempfile.mkdtemp(), 'f2.xml')
with open(path, 'w', encoding='utf-8') as f:
    f.write(XML)
wn.add(path, progress_handler=None)

for args, kwargs in [(('L1 L2',), {}), ((), {'lang': 'es'}), (('L*',), {})]:
    with warnings.catch_warnings(record=True) as caught:
        warnings.simplefilter('always')
        w = wn.Wordnet(*args, **kwargs)
    got = [lx.specifier() for lx in w.expanded_lexicons()]
    msgs = [str(c.message) for c in caught if issubclass(c.category, wn.WnWarning)]
    print(f'Wordnet{args or ""}{kwargs or ""}')
    print('  EXPECTED expanded_lexicons(): [\'E:1\']')
    print('  OBSERVED expanded_lexicons():', got)
    print('  EXPECTED warning: lexicon dependencies not available: Z:9')
    print('  OBSERVED warning:', msgs)
    desc = w.describe()
    print("  describe() lists 'E:1' under 'Expand lexicons:'",
          desc[desc.index('Expand lexicons:'):].count('E:1'), 'time(s)')
    print('  VIOLATION' if got != ['E:1'] else '  ok')
