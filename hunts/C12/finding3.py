"""Finding 3: the default expand set is computed by re-formatting the declared
dependencies into a specifier STRING and glob-matching it again, although the
dependency's rowid is already known.  Dependency versions containing whitespace
or GLOB metacharacters therefore (a) make Wordnet('L') raise although the
dependency is installed, or (b) expand over lexicons that are NOT declared
dependencies.

Run: cd /tmp/wh/C12 && PYTHONPATH=/tmp/wh/C12 /venv/bin/python -B _hunt/finding3.py
"""
import os, tempfile, warnings
from xml.sax.saxutils import quoteattr as q
import wn


def lexicon(id, version, ili_pairs, requires=None):
    req = f'<Requires id={q(requires[0])} version={q(requires[1])}/>' if requires else ''
    entries = ''.join(
        f'<LexicalEntry id="{id}-w{k}"><Lemma writtenForm="{id}w{k}" partOfSpeech="n"/>'
        f'<Sense id="{id}-s{k}" synset="{id}-{k}"/></LexicalEntry>' for k, _ in enumerate(ili_pairs))
    synsets = ''.join(
        f'<Synset id="{id}-{k}" ili="{ili}" partOfSpeech="n">'
        + (f'<SynsetRelation relType="hypernym" target="{id}-{tgt}"/>' if tgt is not None else '')
        + '</Synset>' for k, (ili, tgt) in enumerate(ili_pairs))
    return (f'<Lexicon id={q(id)} label="x" language="xx" email="a@b.c" license="x" version={q(version)}>'
            f'{req}{entries}{synsets}</Lexicon>')


def install(*lexicons):
    wn.config.data_directory = tempfile.mkdtemp()
    for k, lx in enumerate(lexicons):
        path = os.path.join(tempfile.mkdtemp(), f'{k}.xml')
        with open(path, 'w', encoding='utf-8') as f:
            f.write('<?xml version="1.0" encoding="UTF-8"?>\n<!DOCTYPE LexicalResource SYSTEM '
                    '"http://globalwordnet.github.io/schemas/WN-LMF-1.1.dtd">\n'
                    '<LexicalResource xmlns:dc="http://globalwordnet.github.io/schemas/dc/">'
                    + lx + '</LexicalResource>')
        wn.add(path, progress_handler=None)


def show(expected):
    try:
        with warnings.catch_warnings(record=True) as caught:
            warnings.simplefilter('always')
            w = wn.Wordnet('L')
        observed = [lx.specifier() for lx in w.expanded_lexicons()]
        hyp = w.synset('L-0').hypernyms()
    except wn.Error as exc:
        observed, hyp = f'raised wn.Error({exc})', None
    print('  EXPECTED expanded_lexicons():', expected)
    print('  OBSERVED expanded_lexicons():', observed, '| L-0.hypernyms() =', hyp)
    print('  VIOLATION' if observed != expected else '  ok')


E = [('i1', 1), ('i2', None)]          # E-0 (i1) --hypernym--> E-1 (i2)
L = [('i1', None), ('i2', None)]       # L-0 (i1), L-1 (i2), no relations of its own

for ver in ['1.0 beta', '1.0[rc1]']:
    print(f'(a) dependency E:{ver!r} is installed and declared by L')
    install(lexicon('E', ver, E), lexicon('L', '1', L, requires=('E', ver)))
    print('  dependency rowid known to the DB:',
          [(i, v, rowid) for i, v, _, rowid in wn._queries.get_lexicon_dependencies(2)])
    show([f'E:{ver}'])

print("(b) L declares E:'1.*' (installed); an unrelated E:'1.5' without the hypernym is installed too")
install(lexicon('E', '1.*', E), lexicon('E', '1.5', [('i1', 1), ('i3', None)]),
        lexicon('L', '1', L + [('i3', None)], requires=('E', '1.*')))
show(['E:1.*'])

print("(c) L declares E:'1?' (installed); E:'10' is installed afterwards")
install(lexicon('E', '1?', E), lexicon('L', '1', L, requires=('E', '1?')),
        lexicon('E', '10', [('i1', None), ('i2', None)]))
show(['E:1?'])
