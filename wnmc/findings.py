"""known_findings.txt: committed, never written at run time."""
import re
from pathlib import Path

FILE = Path(__file__).resolve().parent.parent / 'known_findings.txt'
_LINE = re.compile(r'^(open|fixed):\s+property=(\S+)\s+(.*)$')


def load():
    """-> {property: {key: text}} for open findings."""
    out = {}
    if not FILE.exists():
        return out
    for line in FILE.read_text().splitlines():
        line = line.strip()
        if not line or line.startswith('#'):
            continue
        m = _LINE.match(line)
        if not m:
            continue
        kind, prop, rest = m.groups()
        if kind != 'open':
            continue          # fixed: lines suppress nothing
        km = re.match(r'key=(\S+)\s*(.*)$', rest)
        if km:
            out.setdefault(prop, {})[km.group(1)] = km.group(2)
    return out
