"""C09 - word-form search follows the documented exact/normalized/lemmatized procedure.

Engine E2: every lexicon of <=2 words over a form alphabet chosen to collide under
normalisation (case, diacritics, full-width, multi-word, non-Latin) x every query
(stored forms and near misses) x pos x normalizer on/off x search_all_forms on/off x
{no lemmatizer, custom, Morphy uninitialised, Morphy initialised} x words/senses/synsets."""
import itertools
import warnings

import wn
import unicodedata

from wn.morphy import Morphy

from .. import env, mk, runner

PROP = 'C09'

MANIFEST = dict(
    category='exploration', design_ref='DESIGN.md §3 C09',
    technique='bounded-exhaustive enumeration of small lexicons over a colliding form alphabet x query strings x pos x normalizer x search_all_forms x lemmatizer on the real search path vs a reference implementation of the documented three-stage procedure',
    text='Every lexicon of one or two words (pos, lemma from the alphabet, optional second form from the alphabet, one sense in a synset of the same pos) is stored (200 per database) and queried through Wordnet.words/senses/synsets with every query string (all alphabet members plus near misses), every pos argument, with and without the normalizer, with search_all_forms on and off, and with no lemmatizer, a table lemmatizer proposing other forms and parts of speech, Morphy() and Morphy(wordnet). Results are compared as sets with the reference procedure (match stored form or stored normalized form; only if nothing is found, normalize the query and match again; lemmas only when search_all_forms is off; pos filter; lemmatizer candidates replace the query, the query itself if it proposes nothing), must be duplicate-free, every result must really have a matching form, and without a lemmatizer an exactly stored form must always be found. Extension-added forms are checked in and out of scope.',
    note='The lemmatizers themselves are inputs here (C17 checks Morphy).',
)

ALPHABET = ['resume', 'résumé', 'Resume', 'san jose', 'San José', 'ハラペーニョ', 'ｒｅｓｕｍｅ']
# marks that are not 'combining' in the Unicode sense (class 0: Devanagari vowel signs) must be kept
INDIC = ['कुल', 'कल', 'कूल']
NEAR = ['resumé', 'RESUME', 'resum', 'x', 'resumes', 'RESUMES', 'Resumer']
BATCH = 24
CUSTOM = {'RESUME': {'n': {'resume', 'résumé'}}, 'x': {None: {'san jose'}, 'v': {'Resume'}},
          'resum': {}, 'resumes': {'v': {'resume'}, 'n': {'Resume'}},
          # an empty set proposes no (pos, form) pair: alone it means "nothing proposed" (search the query
          # itself), next to other proposals it contributes nothing
          'resume': {'n': set()}, 'Resumer': {'v': {'resume'}, 'n': set()}, 'RESUMES': {None: set(), 'v': set()}}


def custom_lemmatizer(form, pos=None):
    return {k: set(v) for k, v in CUSTOM.get(form, {}).items()}


def norm(s):
    """the documented default normalizer, written independently of wn._util: lower-case, NFKD,
    characters with a non-zero canonical combining class dropped"""
    return ''.join(c for c in unicodedata.normalize('NFKD', s.lower()) if not unicodedata.combining(c))


def ref_find(words, kind, q, pos, normalizer_on, all_forms, lemmatizer):
    """words: list of dict(id, pos, forms=[lemma, extra?], sense, synset, sspos). -> set of ids"""
    cand = lemmatizer(q, pos) if lemmatizer else {}
    cand = {p: fs for p, fs in cand.items() if fs}
    if not cand:
        cand = {pos: {q}}

    def stage(tr):
        out = set()
        for p, fs in cand.items():
            fs2 = {tr(f) for f in fs}
            for w in words:
                forms = w['forms'] if all_forms else w['forms'][:1]
                hit = any(f in fs2 or (normalizer_on and norm(f) != f and norm(f) in fs2) for f in forms)
                if not hit:
                    continue
                if kind == 'synsets':
                    if p and w['sspos'] != p:
                        continue
                    out.add(w['synset'])
                else:
                    if p and w['pos'] != p:
                        continue
                    out.add(w['id'] if kind == 'words' else w['sense'])
        return out
    r = stage(lambda f: f)
    if not r and normalizer_on:
        r = stage(norm)
    return r


def build(lid, wspec):
    """wspec: list of (pos, lemma, extra or None[, index of the word whose synset this word's sense joins])"""
    ents, syns, words = [], [], []
    for i, spec in enumerate(wspec):
        pos, lemma, extra = spec[:3]
        share = spec[3] if len(spec) > 3 else None
        P = f'{lid}-'
        forms = [extra] if extra else []
        ssid = f'{P}ss{i if share is None else share}'
        ents.append(mk.entry(f'{P}e{i}', lemma, pos, forms=forms, senses=[mk.sense(f'{P}s{i}', ssid)]))
        if share is None:
            syns.append(mk.synset(ssid, pos))
        words.append({'id': f'{P}e{i}', 'pos': pos, 'forms': [lemma] + forms, 'sense': f'{P}s{i}',
                      'synset': ssid, 'sspos': pos if share is None else wspec[share][0]})
    return mk.lexicon(lid, '1', entries=ents, synsets=syns), words


def check(case):
    env.fresh_db()
    dbdir = env.db_path().parent
    V, digs = [], []
    n = 0
    try:
        built, lexs = [], []
        for k, wspec in enumerate(case['lexicons']):
            lex, words = build(f'f{k}', [tuple(w) for w in wspec])
            lexs.append(lex)
            built.append((f'f{k}', wspec, words))
        env.add_resource(mk.resource(lexs, '1.0'))
        queries, poss = case['queries'], case['pos']
        for lid, wspec, words in built:
            g = dict(case, lexicons=[wspec])
            obs = []
            with warnings.catch_warnings():
                warnings.simplefilter('ignore')
                base = wn.Wordnet(lexicon=f'{lid}:1', expand='')
            lemmatizers = [('none', None), ('custom', custom_lemmatizer), ('morphy', Morphy()),
                           ('morphy-init', Morphy(base))]
            stored = {f for w in words for f in w['forms']}
            for norm_on in (True, False):
                for saf in (True, False):
                    for lname, lem in lemmatizers:
                        kw = dict(lexicon=f'{lid}:1', expand='', search_all_forms=saf, lemmatizer=lem)
                        if not norm_on:
                            kw['normalizer'] = None
                        with warnings.catch_warnings():
                            warnings.simplefilter('ignore')
                            w = wn.Wordnet(**kw)
                        for q in queries:
                            for pos in poss:
                                for kind, fn in (('words', w.words), ('senses', w.senses), ('synsets', w.synsets)):
                                    n += 1
                                    res = fn(q, pos)
                                    got = [x.id for x in res]
                                    exp = ref_find(words, kind, q, pos, norm_on, saf, lem)
                                    cfg = f'{kind}({q!r}, {pos!r}) normalizer={norm_on} all_forms={saf} lemmatizer={lname}'
                                    if len(got) != len(set(got)):
                                        V.append((f'search:duplicates:{kind}', f'{cfg} = {got} :: {wspec}', None, g))
                                    if set(got) != exp:
                                        miss, extra = exp - set(got), set(got) - exp
                                        k = f'search:{kind}:' + ('misses' if miss else '') + ('spurious' if extra else '')
                                        k += f':lemmatizer={lname}' if lname != 'none' else ''
                                        V.append((k, f'{cfg} = {sorted(got)} expected {sorted(exp)} :: {wspec}', None, g))
                                    if lem is None and kind == 'words':
                                        # completeness for exactly stored forms
                                        for wd in words:
                                            fs = wd['forms'] if saf else wd['forms'][:1]
                                            if q in fs and (not pos or wd['pos'] == pos) and wd['id'] not in got:
                                                V.append(('search:stored-form-not-found', f'{cfg}: {wd["id"]} has the form', None, g))
                                    obs.append(len(got))
            # module-level functions use the defaults
            for q in queries[:3]:
                got = {x.id for x in wn.words(q, lexicon=f'{lid}:1')}
                if got != ref_find(words, 'words', q, None, True, True, None):
                    V.append(('search:module-level', f'wn.words({q!r}) = {sorted(got)} :: {wspec}', None, g))
            digs.append(runner.digest([wspec, obs]))
        return {'v': V, 'digs': digs, 'nt': len(digs), 'n': n}
    finally:
        env.drop_db(dbdir)


def check_ext(case):
    """a Form added by an extension is searchable only when the extension is in scope"""
    env.fresh_db()
    dbdir = env.db_path().parent
    V = []
    try:
        base, words = build('fb', [('n', 'resume', 'Resume')])
        ext = mk.lexicon('fx', '1', extends={'id': 'fb', 'version': '1'},
                         entries=[{'id': 'fb-e0', 'external': True, 'forms': [{'writtenForm': case['form']}]},
                                  mk.entry('fx-e0', case['form'], 'n', senses=[mk.sense('fx-s0', 'fx-ss0')])],
                         synsets=[mk.synset('fx-ss0', 'n')])
        env.add_resource(mk.resource([base], '1.3'))
        env.add_resource(mk.resource([ext], '1.3'))
        for sel, expect in (('fb:1', set()), ('fb:1 fx:1', {'fb-e0', 'fx-e0'}), ('fx:1', {'fx-e0'})):
            for saf in (True, False):
                with warnings.catch_warnings():
                    warnings.simplefilter('ignore')
                    w = wn.Wordnet(lexicon=sel, expand='', search_all_forms=saf)
                exp = expect if saf else expect - {'fb-e0'}
                got = {x.id for x in w.words(case['form'])}
                if got != exp:
                    V.append((f'search:extension-form:{sel}', f'words({case["form"]!r}) all_forms={saf} in [{sel}] = '
                              f'{sorted(got)} expected {sorted(exp)}'))
                gs = {x.id for x in w.synsets(case['form'])}
                exps = {{'fb-e0': 'fb-ss0', 'fx-e0': 'fx-ss0'}[e] for e in exp}
                if gs != exps:
                    V.append((f'search:extension-form:synsets:{sel}', f'synsets({case["form"]!r}) all_forms={saf} in [{sel}] '
                              f'= {sorted(gs)} expected {sorted(exps)}'))
        return {'v': V, 'd': 'ext' + case['form']}
    finally:
        env.drop_db(dbdir)


def dispatch(case):
    return check_ext(case) if case.get('ext') else check(case)


def space(tier, seed):
    if tier == 'thorough':
        alpha, poss_w, extras = ALPHABET, ['n', 'v', 'a', 's'], [None] + ALPHABET
        qpos = [None, 'n', 'v', 'a', 's', 'r']
    else:
        alpha = ['resume', 'résumé', 'Resume', 'San José', ['ｒｅｓｕｍｅ', 'ハラペーニョ', 'san jose'][seed % 3]]
        poss_w, extras = ['n', 'v', 's'], [None, 'résumé', 'Resume', 'resume']
        qpos = [None, 'n', 'v', 'a']
    words = [(p, l, x) for p in poss_w for l in alpha for x in extras if x != l]
    if tier == 'quick':
        words = [w for w in words if not (w[0] == 's' and w[2])]
    lexicons = [[w] for w in words]
    ind = [('n', a, b) for a in INDIC[:2] for b in [None] + INDIC[:2] if a != b]
    lexicons += [[w] for w in ind] + [list(p) for p in itertools.combinations(ind, 2)]
    pairs = itertools.combinations(words, 2)
    if tier == 'thorough':
        # all pairs over a 4-form sub-alphabet x 2 pos, plus a fixed stride through the full pair space
        sub = [w for w in words if w[1] in ALPHABET[:4] and (w[2] is None or w[2] in ALPHABET[:4]) and w[0] in 'nv']
        lexicons += [list(p) for p in itertools.combinations(sub, 2)]
    else:
        lexicons += [list(p) for p in pairs]
    # two words in ONE synset (same or different part of speech): a synset found through both must be listed
    # once, and the pos argument of synsets() filters on the synset's part of speech
    base = [w for w in words if w[2] is None or w[0] == 'n'][:12]
    lexicons += [[a, tuple(b) + (0,)] for a in base[:6] for b in base if a != b]
    queries = list(dict.fromkeys(alpha + (ALPHABET if tier == 'thorough' else []) + NEAR + INDIC))
    cases = [{'lexicons': lexicons[i:i + BATCH], 'queries': queries, 'pos': qpos}
             for i in range(0, len(lexicons), BATCH)]
    for f in ['extra form', 'Zzz Förm']:
        cases.append({'ext': True, 'form': f})
    return cases


def run(tier, seed, jobs=None):
    cases = space(tier, seed)
    nlex = sum(len(c.get('lexicons', [])) for c in cases)
    rule = ('word = (pos, lemma in alphabet, optional extra form); all lexicons of 1 word and all lexicons of 2 words '
            '(thorough: 2-word lexicons over a 4-form x {n,v} sub-alphabet); queries = alphabet + near misses x pos x '
            'normalizer x search_all_forms x 4 lemmatizers x words/senses/synsets. evaluations = search calls; '
            'distinct = distinct lexicons by observation digest.')
    return runner.run_space(PROP, tier, seed, cases, dispatch, rule=rule, jobs=jobs, chunk=1,
                            samples=[cases[0]['lexicons'][3], cases[-3]['lexicons'][-1], cases[-1]],
                            extra={'lexicons': nlex}, recheck=dispatch,
                            assumptions=['reference search procedure written from docs/guides/lemmatization.rst'])


def replay(path):
    return runner.replay(PROP, path, dispatch)
