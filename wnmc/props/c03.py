"""C03 - exporting a database and re-importing it preserves the lexicons.

Engine E2: generated non-extension documents x source LMF version x export version.
(a) load(export) is compared, keyed by id, with the projection of the document onto the
export version (sense-frame links compared as (sense, frame) pairs so that entry-level
<-> lexicon-level re-encoding is not penalised); (b) differential: the exported file is
added to an empty database and the public-API transcripts of both databases are compared."""
import copy
import warnings

import wn
from wn import lmf

from .. import env, runner, docgen, xmlw, docs, observe
from ..refmodel import Store, spec_of, diff

PROP = 'C03'

MANIFEST = dict(
    category='exploration', design_ref='DESIGN.md §3 C03',
    technique='bounded-exhaustive enumeration of documents x source version x export version through the real add/export/load/add path; id-keyed equivalence with the version projection plus a differential transcript oracle',
    text='Every generated non-extension document (feature deviations, list shapes, payloads, two-lexicon exports, a clashing-id export that must be refused) is added, exported by wn.export in each LMF version and loaded back; entries, forms, tags, pronunciations, senses, synsets, ILIs incl. proposed ones, every definition with language and source sense, examples, counts, relations with metadata, (sense, frame) links, frame inventory, dependencies and metadata must equal the projection of the document onto the export version; adding the exported file to an empty database must give the same public-API transcript as the original database (projected for 1.0 exports). A variant with an extension installed checks that the export of the base is not polluted.',
    note='Sense-frame links of frames that have no id cannot be written in LMF >= 1.1 (recorded finding). Spurious ILIDefinitions on existing ILIs are excluded from the documents.',
)

K_NOID = 'export:sense-frame-links-of-idless-frames-lost-in-1.1+'
K_EXT_ANNOT = 'export:base-export-contains-extension-tags-or-pronunciations'


def _meta(x):
    m = dict(x.get('meta') or {})
    if 'confidenceScore' in m:
        m['confidenceScore'] = str(m['confidenceScore'])
    return m


def _tags(f):
    return sorted([t['text'], t['category']] for t in f.get('tags', []))


def _prons(f, e):
    if e == '1.0':
        return []
    return sorted(([p['text'], p.get('variety'), p.get('notation'), p.get('phonemic', True),
                    p.get('audio')] for p in f.get('pronunciations', [])), key=repr)


def canon(lex, e, links):
    """id-keyed canonical content of a lexicon dict as far as LMF version e can express it"""
    new = e != '1.0'
    C = {'lex': {k: lex.get(k) or None for k in ('id', 'label', 'language', 'email', 'license',
                                                   'version', 'url', 'citation')},
         'meta': _meta(lex), 'entries': {}, 'senses': {}, 'synsets': {}}
    if new:
        C['lex']['logo'] = lex.get('logo') or None
        C['requires'] = sorted(([d['id'], d['version'], d.get('url') or None]
                                for d in lex.get('requires', [])), key=repr)
    for ent in lex.get('entries', []):
        lem = ent['lemma']
        C['entries'][ent['id']] = {
            'lemma': [lem['writtenForm'], lem['partOfSpeech'], lem.get('script') or None,
                      _tags(lem), _prons(lem, e)],
            'forms': [[f['writtenForm'], (f.get('id') or None) if new else None,
                       f.get('script') or None, _tags(f), _prons(f, e)]
                      for f in ent.get('forms', [])],
            'senses': [s['id'] for s in ent.get('senses', [])],
            'meta': _meta(ent)}
        for s in ent.get('senses', []):
            C['senses'][s['id']] = {
                'synset': s['synset'],
                'relations': sorted({(r['relType'], r['target'], repr(sorted(_meta(r).items())))
                                     for r in s.get('relations', [])}),
                'examples': sorted(([x['text'], x.get('language') or None, _meta(x)]
                                    for x in s.get('examples', [])), key=repr),
                'counts': sorted(([c['value'], _meta(c)] for c in s.get('counts', [])), key=repr),
                'lexicalized': s.get('lexicalized', True),
                'adjposition': s.get('adjposition') or None,
                'meta': _meta(s)}
    for ss in lex.get('synsets', []):
        d = ss.get('ili_definition')
        C['synsets'][ss['id']] = {
            'ili': ss['ili'], 'ilidef': [d['text'], _meta(d)] if d else None,
            'pos': ss.get('partOfSpeech') or None,
            'definitions': [[x['text'], x.get('language') or None, x.get('sourceSense') or None, _meta(x)]
                            for x in ss.get('definitions', [])],
            'relations': sorted({(r['relType'], r['target'], repr(sorted(_meta(r).items())))
                                 for r in ss.get('relations', [])}),
            'examples': sorted(([x['text'], x.get('language') or None, _meta(x)]
                                for x in ss.get('examples', [])), key=repr),
            'lexicalized': ss.get('lexicalized', True),
            'lexfile': (ss.get('lexfile') or None) if new else None,
            'meta': _meta(ss)}
    C['links'] = sorted(links)
    return C


def _only_idless_links_lost(P1, P2, idless):
    """re-imported (P2) vs original (P1) transcripts: every sense keeps a subset of its frames and whatever is
    missing is a frame without an id - nothing extra, nothing moved, no id-carrying frame lost"""
    try:
        for sk, rec in P1['senses'].items():
            f1, f2 = list(rec.get('frames', [])), list(P2['senses'][sk].get('frames', []))
            if any(f not in f1 for f in f2) or any(f not in idless for f in f1 if f not in f2):
                return False
        return True
    except (KeyError, TypeError, AttributeError):
        return False


def links_of(lex):
    st = Store()
    st.lexs.append(lex)
    idx = st.index()
    out = set()
    for sk, rec in idx.senses.items():
        for _, text in rec['frames']:
            out.add((rec['doc']['id'], text))
    return out


def frame_inventory(lex, e):
    inv = {f['subcategorizationFrame'] for f in lex.get('frames', [])}
    for ent in lex.get('entries', []):
        inv |= {f['subcategorizationFrame'] for f in ent.get('frames', [])}
    return inv


def members_of(lex):
    out = {}
    for ent in lex.get('entries', []):
        for s in ent.get('senses', []):
            out.setdefault(s['synset'], []).append(s['id'])
    return out


def twin_of(lex, v):
    T = copy.deepcopy(lex)
    T['version'] = 'twin'
    T['label'] = 'Twin'
    for ent in T.get('entries', []):
        for f in ent.get('frames', []):
            f['subcategorizationFrame'] += ' (twin)'
        ent['lemma']['writtenForm'] += ' twin'
    for k, f in enumerate(T.get('frames', [])):
        f['subcategorizationFrame'] += ' (twin)'
    if v != '1.0':
        T.setdefault('frames', []).append({'id': lex['id'] + '-frT', 'subcategorizationFrame': 'Twin only'})
        for ent in T.get('entries', []):
            for s_ in ent.get('senses', []):
                s_['subcat'] = s_.get('subcat', []) + [lex['id'] + '-frT']
    else:
        for ent in T.get('entries', []):
            if ent.get('senses'):
                ent.setdefault('frames', []).append({'subcategorizationFrame': 'Twin only'})
    for ss in T.get('synsets', []):
        for dfn in ss.get('definitions', []):
            dfn['text'] += ' twin'
        for x in ss.get('examples', []):
            x['text'] += ' twin'
    return T


def project_T(T, e):
    """what a transcript may keep when the data went through an LMF-e file"""
    T = copy.deepcopy(T)

    def strscore(x):
        # WN-LMF carries confidenceScore as attribute text: a number given in memory comes back as a string
        if isinstance(x, dict):
            if 'confidenceScore' in x:
                x['confidenceScore'] = str(x['confidenceScore'])
            for v in x.values():
                strscore(v)
        elif isinstance(x, list):
            for v in x:
                strscore(v)
    strscore(T)
    for wk, w in T['words'].items():
        for f in w['forms']:
            if e == '1.0':
                f[1] = None
                f[4] = []
    for ssk, ss in T['synsets'].items():
        if e == '1.0':
            ss['lexfile'] = None
        ss['members'] = sorted(ss['members']) if isinstance(ss['members'], list) else ss['members']
    for lk, lx in T['lexicons'].items():
        if e == '1.0':
            lx['logo'] = None
            lx['requires'] = {}
    return T


def check(case):
    e = case['e']
    V = []
    b = docgen.build(case['doc'])
    R = b['resource']
    reltypes = docgen.reltypes_of(R)
    d = env.new_dir('c03')
    env.fresh_db()
    db1 = env.db_path().parent
    wn._add.BATCH_SIZE = case.get('batch', 1000)     # small batches: every list of the document spans several
    try:
        if case.get('twin') == 'before':
            T0 = twin_of(R['lexicons'][0], case['doc']['v'])
            env.add(env.write_file('twin0.xml', xmlw.serialize({'lmf_version': case['doc']['v'], 'lexicons': [T0]}), d))
        if case.get('warm'):
            # same process, same database: another lexicon is added, exported and queried first, so every
            # lookup the exporter uses has already run once before the lexicon under test exists
            Wm = docs.maximal(case['doc']['v'], lid='wm')
            Wm['version'] = '9'
            for ss in Wm['synsets']:
                if ss.get('lexfile'):
                    ss['lexfile'] = 'noun.warm'
            env.add_resource({'lmf_version': case['doc']['v'], 'lexicons': [Wm]})
            wn.export(wn.lexicons(lexicon='wm:9'), d / 'warm.xml', version=e)
            for ss in wn.synsets(lexicon='wm:9'):
                ss.lexfile(), ss.definition(), ss.ili
            for s_ in wn.senses(lexicon='wm:9'):
                s_.frames(), s_.word(), s_.synset()
        if 'numscore' in case:
            from .c02 import _set_scores
            R = copy.deepcopy(R)
            _set_scores(R, case['numscore'])
            env.add_resource(copy.deepcopy(R))
        else:
            env.add(env.write_file('src.xml', xmlw.serialize(R, raw_text=b['raw_text']), d))
        if case.get('ext'):
            X = docs.extension(case['doc']['v'], R['lexicons'][0], flags=('annot',))
            env.add(env.write_file('ext.xml', xmlw.serialize({'lmf_version': case['doc']['v'], 'lexicons': [X]}), d))
        if case.get('twin') == 'after':
            # another installed version of the same lexicon (same entity ids, other content and
            # other frames on the same senses) must not leak into the export
            T = twin_of(R['lexicons'][0], case['doc']['v'])
            env.add(env.write_file('twin.xml', xmlw.serialize({'lmf_version': case['doc']['v'], 'lexicons': [T]}), d))
        specs = [spec_of(x) for x in R['lexicons']]
        with warnings.catch_warnings():
            warnings.simplefilter('ignore')
            w = wn.Wordnet(lexicon=' '.join(specs), expand='')
        out = d / 'export.xml'
        if case.get('clash'):
            # a second lexicon with the same entity ids in the same export must be refused
            T2 = twin_of(R['lexicons'][0], case['doc']['v'])
            env.add(env.write_file('clash.xml', xmlw.serialize({'lmf_version': case['doc']['v'], 'lexicons': [T2]}), d))
            with warnings.catch_warnings():
                warnings.simplefilter('ignore')
                w = wn.Wordnet(lexicon=f"{specs[0]} {spec_of(T2)}", expand='')
            try:
                wn.export(w.lexicons(), out, version=e)
                V.append(('export:clashing-ids-not-refused', 'export of lexicons with clashing ids did not raise'))
            except wn.Error:
                pass
            return {'v': V, 'd': 'clash'}
        T1 = observe.api_transcript(w, reltypes)
        ok, err = runner.guarded(wn.export, w.lexicons(), out, version=e)
        if not ok:
            return {'v': [(f'export:raises:{err[0]}@{err[1]}', f'export raised {err}')], 'd': 'x'}
        ok, L = runner.guarded(lmf.load, out, progress_handler=None)
        if not ok:
            return {'v': [(f'export:unloadable:{L[0]}', f'exported file does not load: {L}')], 'd': 'x'}
        if L['lmf_version'] != e or len(L['lexicons']) != len(R['lexicons']):
            V.append(('export:shape', f'version {L["lmf_version"]} lexicons {len(L["lexicons"])}'))
            return {'v': V, 'd': 'x'}
        idless = set()
        for src in R['lexicons']:
            idless |= {f['subcategorizationFrame'] for f in src.get('frames', []) if not f.get('id')}
            for ent in src.get('entries', []):
                idless |= {f['subcategorizationFrame'] for f in ent.get('frames', [])}
        for src, got in zip(R['lexicons'], L['lexicons']):
            A = canon(got, e, links_of(got))
            B = canon(src, e, links_of(src))
            if case.get('ext'):
                # isolate what an installed extension contributes to the export of its base
                for eid, be in B['entries'].items():
                    ae = A['entries'].get(eid)
                    if not ae:
                        continue
                    rows_a, rows_b = [ae['lemma']] + ae['forms'], [be['lemma']] + be['forms']
                    extra_forms = [r for r in rows_a[len(rows_b):]]
                    if extra_forms:
                        V.append(('export:base-export-contains-extension-forms',
                                  f'entry {eid}: exported forms {[r[0] for r in extra_forms]} belong to the extension'))
                        ae['forms'] = ae['forms'][:len(be['forms'])]
                    for ra, rb in zip(rows_a, rows_b):
                        ti, pi = (3, 4)
                        if ra[:3] == rb[:3] and (ra[ti] != rb[ti] or ra[pi] != rb[pi]):
                            xt = [t for t in ra[ti] if t not in rb[ti]]
                            xp = [p_ for p_ in ra[pi] if p_ not in rb[pi]]
                            # accepted only for what the extension itself declares on an external lemma / form
                            decl_t = [[t['text'], t['category']] for xe in X.get('entries', []) if xe.get('external')
                                      for xf in [xe.get('lemma') or {}] + list(xe.get('forms', []))
                                      if xf.get('external') for t in xf.get('tags', [])]
                            decl_p = [p_['text'] for xe in X.get('entries', []) if xe.get('external')
                                      for xf in [xe.get('lemma') or {}] + list(xe.get('forms', []))
                                      if xf.get('external') for p_ in xf.get('pronunciations', [])]
                            if all(t in ra[ti] for t in rb[ti]) and all(p_ in ra[pi] for p_ in rb[pi]) \
                                    and all(list(t) in decl_t for t in xt) and all(p_[0] in decl_p for p_ in xp):
                                V.append((K_EXT_ANNOT, f'entry {eid} form {ra[0]!r}: exported tags {xt} / '
                                          f'pronunciations {xp} belong to the extension'))
                                ra[ti], ra[pi] = rb[ti], rb[pi]
            if A != B:
                for x in diff(A, B, limit=40):
                    path = x.split(': ', 1)[0]
                    segs = [s for s in path.split('/') if s]
                    key = 'export:' + '.'.join(
                        __import__('re').sub(r'\[\d+\]', '', s) for s in segs
                        if s in ('lex', 'meta', 'entries', 'senses', 'synsets', 'links', 'requires',
                                 'lemma', 'forms', 'relations', 'examples', 'counts', 'definitions',
                                 'ili', 'ilidef', 'pos', 'lexicalized', 'lexfile', 'adjposition', 'synset')
                        or s.startswith(('lemma[', 'forms[', 'definitions[', 'examples[', 'counts[')))
                    if segs and segs[0] == 'links' and e != '1.0':
                        lost = set(map(tuple, B['links'])) - set(map(tuple, A['links']))
                        extra = set(map(tuple, A['links'])) - set(map(tuple, B['links']))
                        if not extra and lost and all(t in idless for _, t in lost):
                            key = K_NOID
                    V.append((key, f'load(export {e}) (first) vs document (second): {x}'))
            inv_got, inv_src = frame_inventory(got, e), frame_inventory(src, e)
            if e == '1.0':
                used = {t for _, t in links_of(src)}
                inv_src &= used          # an unused frame cannot be written in 1.0
            if inv_got != inv_src:
                V.append(('export:frame-inventory', f'frames exported {sorted(inv_got)} expected {sorted(inv_src)}'))
            if e != '1.0':
                ids_src = {f['subcategorizationFrame']: f['id'] for f in src.get('frames', []) if f.get('id')}
                ids_got = {f['subcategorizationFrame']: f.get('id') for f in got.get('frames', [])}
                for t, i in ids_src.items():
                    if t in ids_got and ids_got[t] != i:
                        V.append(('export:frame-id', f'frame {t!r} id {ids_got[t]!r} expected {i!r}'))
                mem_src = members_of(src)
                for ss in got.get('synsets', []):
                    decl = next((x.get('members', []) for x in src['synsets'] if x['id'] == ss['id']), [])
                    gm = ss.get('members', [])
                    if gm[:len(decl)] != decl or sorted(gm) != sorted(mem_src.get(ss['id'], [])):
                        V.append(('export:members', f'synset {ss["id"]} members {gm} declared {decl} '
                                  f'all {mem_src.get(ss["id"], [])}'))
        # (b) differential re-import
        if not case.get('ext'):
            env.close_pool()
            env.fresh_db()
            db2 = env.db_path().parent
            ok, err = runner.guarded(env.add, out)
            if not ok:
                V.append((f'reimport:raises:{err[0]}@{err[1]}', f'adding the exported file raised {err}'))
            else:
                with warnings.catch_warnings():
                    warnings.simplefilter('ignore')
                    w2 = wn.Wordnet(lexicon=' '.join(specs), expand='')
                T2 = observe.api_transcript(w2, reltypes)
                P1, P2 = project_T(T1, e), project_T(T2, e)
                if P1 != P2:
                    for x in diff(P2, P1)[:4]:
                        path = x.split(': ', 1)[0]
                        segs = [s for s in path.split('/') if s and '|' not in s and ':' not in s]
                        key = 'reimport:' + '.'.join(__import__('re').sub(r'\[\d+\]', '', s) for s in segs[:2])
                        if 'frames' in path and e != '1.0' and idless and _only_idless_links_lost(P1, P2, idless):
                            key = K_NOID
                        V.append((key, f're-imported (first) vs original (second): {x}'))
            env.drop_db(db2)
        return {'v': V, 'd': runner.digest(out.read_text()[:20000])}
    finally:
        import shutil
        wn._add.BATCH_SIZE = 1000
        env.drop_db(db1)
        shutil.rmtree(d, ignore_errors=True)


def space(tier, seed):
    cases = []
    fl = ('nopos', 'noframeid')
    for v in docs.VERSIONS:
        src_cases = docgen.feature_space(v, 1, flags=fl) + [c for c in docgen.multi_space(v) if 'X' not in c['order']]
        src_cases += docgen.shape_space(v, counts=(0, 1, 3))
        # several lexicons in one export that each own a frame without an id
        src_cases += [{'v': v, 'kind': 'multi', 'order': o, 'flags': list(fl), 'sframes': True}
                      for o in (['M', 'S'], ['S', 'T'], ['T', 'M', 'S'])]
        for e in docs.VERSIONS:
            quick_pair = (v in ('1.0', '1.3') or e == v) and (e in ('1.0', '1.1', '1.3'))
            if tier == 'quick' and not quick_pair:
                continue
            for c in src_cases:
                if tier == 'quick' and c['kind'] == 'shape' and e != v:
                    continue
                cases.append({'doc': c, 'e': e})
        # clash: two lexicons with identical entity ids must be refused
        # extension installed while the base is exported
        if v != '1.0':
            for e in ('1.0', v):
                cases.append({'doc': {'v': v, 'kind': 'feat', 'base': 'M', 'delta': []}, 'e': e, 'ext': True})
        for e in docs.VERSIONS:
            cases.append({'doc': {'v': v, 'kind': 'feat', 'base': 'M', 'delta': []}, 'e': e, 'clash': True})
            cases.append({'doc': {'v': v, 'kind': 'feat', 'base': 'M', 'delta': []}, 'e': e, 'warm': True})
            for score in (0, 0.0, 0.5):
                cases.append({'doc': {'v': v, 'kind': 'feat', 'base': 'M', 'delta': []}, 'e': e, 'numscore': score})
            for tw in ('before', 'after'):
                cases.append({'doc': {'v': v, 'kind': 'feat', 'base': 'M', 'delta': []}, 'e': e, 'twin': tw})
            # the maximal document added in batches of 1 and 2 rows (every list spans several batches)
            for bs in (1, 2):
                cases.append({'doc': {'v': v, 'kind': 'feat', 'base': 'M', 'delta': []}, 'e': e, 'batch': bs})
    pvers = docs.VERSIONS if tier == 'thorough' else ['1.3']
    for v in pvers:
        for c in docgen.payload_space(v):
            cases.append({'doc': c, 'e': v})
            if tier == 'thorough':
                cases.append({'doc': c, 'e': '1.0' if v != '1.0' else '1.3'})
    if tier == 'thorough':
        for v in ('1.0', '1.3'):
            for c in docgen.feature_space(v, 2, flags=fl):
                if len(c['delta']) == 2:
                    cases.append({'doc': c, 'e': '1.3'})
    return cases


RULE = ('non-extension documents (minimal/maximal +- each optional feature, shapes, multi-lexicon, payloads) x '
        'source version x export version: load(export) == projection keyed by id incl. (sense,frame) links, '
        'frame inventory, members; re-import transcript == original transcript (projected for 1.0). '
        'distinct = distinct exported files.')


def run(tier, seed, jobs=None):
    return runner.run_space(PROP, tier, seed, space(tier, seed), check, rule=RULE, jobs=jobs, chunk=8,
                            assumptions=['own XML writer and reference model trusted',
                                         'documents without spurious ILIDefinitions on existing ILIs'])


def replay(path):
    return runner.replay(PROP, path, check)
