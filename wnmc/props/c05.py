"""C05 - database content depends only on which lexicons are installed.

Engine E1 (explicit-state model checking on the real SQLite file): all histories of
add / remove / add-ILI over a universe of related lexicons, explored (1) to a depth
bound with the exact table dump as state key (no abstraction) and (2) to a fixpoint
under a quotient key (rowids modulo order-preserving renaming; quick: coarse key).
In every reached state the canonical dump and the per-lexicon API transcripts must equal
those of a fresh database holding just the installed lexicons."""
import copy
import time
import warnings

import wn

from .. import env, runner, universe, xmlw, observe, e1, docgen
from ..refmodel import diff

PROP = 'C05'

MANIFEST = dict(
    category='model_checking', design_ref='DESIGN.md §3 C05, §2.5',
    engine='E1-history',
    technique='explicit-state model checking of add/remove/add-ILI histories on the real SQLite database: exact-key depth-bounded search plus BFS closure to a fixpoint under a rowid-quotient key, reference model stepped in lock-step',
    text='All histories over 19 events (add of base A:1, second version A:2 with identical ids, extension X:1, extension-of-extension Y:1, dependent B:1, unrelated C:1, a two-lexicon bundle, a file holding the base and its extension, a file holding the extension and the extension of it, an ILI file; remove of a:1, a:2, a:*, x:1, y:1, b:1, c:1, *, *:1) are explored on the real database by BFS: depth-bounded with the exact table dump as key, and to a fixpoint under an abstraction key (quick: installed lexicons in rowid order + ILI-index flag; thorough: additionally the value sets of the shared lookup tables; plus a capped run under the rowid-quotient key). Every transition is one real wn.add/wn.remove call compared with the reference model (installed set, extension closure); in every reached state the canonical table dump of all owned tables and the per-lexicon public-API transcripts must equal those of a fresh database built from just the installed lexicons, PRAGMA foreign_key_check / integrity_check and an ownership audit must be clean, and dependency links must match what is installed. The universe is explored twice: without annotations of external lemmas/forms (zero tolerance) and with them (only the recorded residue finding is accepted). A third, smaller universe UT (13 events: base in two versions, two versions x:1 / x:2 of one extension and a fork z:1 of it, a file holding two of them; all three give the form they add to the same base entry the same id, with their own tags and pronunciations) is closed the same way with zero tolerance; there each extension is observed together with its base.',
    note='Key soundness argument in DESIGN §2.5 / §9.2 (all library SQL is invariant under order-preserving rowid renaming on clean states; cleanliness is itself an invariant checked in every state). The shared ILI / relation-type / lexfile inventories are excluded from the comparison as the property says.',
)

K_RESIDUE = 'remove:annotations-on-external-forms-survive'

ADDS = ['A1', 'A2', 'X1', 'Y1', 'B1', 'C1', 'BC', 'AX', 'XY', 'I']
REMOVES = ['a:1', 'a:2', 'a:*', 'x:1', 'y:1', 'b:1', 'c:1', '*', '*:1']
ORDER = ['a:1', 'a:2', 'x:1', 'y:1', 'b:1', 'c:1']      # canonical fresh-build order
EXT = {'x:1': 'a:1', 'y:1': 'x:1'}
NAME = {v: k for k, v in universe.SPEC.items()}

# the universes: U- / U+ (the main one without / with annotations of external forms) and UT ('twin': two versions
# of one extension and a fork of it, all adding a form with the same id to the same base entry)
UNIS = {
    'main': dict(adds=ADDS, removes=REMOVES, order=ORDER, ext=EXT, name=NAME, forms=universe.FORMS),
    'twin': dict(adds=['A1', 'A2', 'T1', 'T2', 'Z1', 'TZ'],
                 removes=['a:1', 'a:*', 'x:1', 'x:2', 'x:*', 'z:1', '*'],
                 order=['a:1', 'a:2', 'x:1', 'x:2', 'z:1'],
                 ext={'x:1': 'a:1', 'x:2': 'a:1', 'z:1': 'a:1'},
                 name={v: k for k, v in universe.SPEC_TWIN.items()}, forms=universe.FORMS_TWIN),
}
ULABEL = {False: 'U- (no annotations)', True: 'U+ (extension annotates external lemma/form)',
          'twin': 'UT (two versions of one extension and a fork, same ids for the forms they add)'}


def match(pattern, installed):
    if pattern == '*':
        return list(installed)
    i, v = pattern.split(':')
    return [s for s in installed if (i == '*' or s.split(':')[0] == i) and (v == '*' or s.split(':')[1] == v)]


def extensions_closure(spec, installed, ext=EXT):
    out, frontier = [], [spec]
    while frontier:
        cur = frontier.pop()
        for s in installed:
            if ext.get(s) == cur and s not in out:
                out.append(s)
                frontier.append(s)
    return out


class Sys05(e1.System):
    def __init__(self, annot, transcripts=True):
        self.annot = annot is True
        self.uni_id = annot
        self.U = UNIS['twin' if annot == 'twin' else 'main']
        self.transcripts = transcripts
        self.res = universe.resources_twin() if annot == 'twin' else universe.resources(annot)
        self.xml = {k: xmlw.serialize(r) for k, r in self.res.items()}
        self.reltypes = docgen.reltypes_of(*self.res.values())
        self._fresh = {}

    def initial_model(self):
        return {'inst': [], 'ili': False}

    def model_key(self, m):
        return [m['inst'], m['ili']]

    def events(self, m):
        return [['add', a] for a in self.U['adds']] + [['remove', r] for r in self.U['removes']]

    def apply(self, ev, workdir):
        if ev[0] == 'add':
            if ev[1] == 'I':
                env.add(env.write_file('cili.tsv', universe.ili_tsv(), workdir))
            elif len(ev) > 2 and ev[2] == 'memory':
                # the other public entry point (used by chained events): wn.add_lexical_resource
                env.add_resource(copy.deepcopy(self.res[ev[1]]))
            else:
                env.add(env.write_file(f'{ev[1]}.xml', self.xml[ev[1]], workdir))
        else:
            env.remove(ev[1])

    def mstep(self, m, ev):
        inst, ili = list(m['inst']), m['ili']
        if ev[0] == 'add':
            if ev[1] == 'I':
                ili = True
            else:
                pre = set(inst)
                for lex in self.res[ev[1]]['lexicons']:
                    s = f"{lex['id']}:{lex['version']}"
                    if s in pre:
                        continue
                    if s in self.U['ext'] and self.U['ext'][s] not in inst:      # installed before, or earlier in this file
                        continue
                    inst.append(s)
        else:
            gone = set()
            for s in match(ev[1], inst):
                gone.add(s)
                gone.update(extensions_closure(s, inst, self.U['ext']))
            inst = [s for s in inst if s not in gone]
        return {'inst': inst, 'ili': ili}

    def coarse_key(self, post, m2):
        lex = [f'{r[1]}:{r[6]}' for r in post['exact']['lexicons']]
        return [lex, m2['ili']]

    def obs_digest(self, post, m2):
        return e1.sha([sorted(m2['inst']), m2['ili']])

    def declared_annotation_rows(self, table):
        """the tag / pronunciation rows (canonical form) that x:1 puts on forms of a:1, taken from a fresh
        database holding just a:1 and x:1 minus one holding just a:1"""
        key = ('declared', table)
        if key not in self._fresh:
            withx = list(self.fresh(['a:1', 'x:1'], False)['C'].get(table, []))
            for row in self.fresh(['a:1'], False)['C'].get(table, []):
                if row in withx:
                    withx.remove(row)
            self._fresh[key] = withx
        return self._fresh[key]

    # -- oracle ----------------------------------------------------------------
    def fresh(self, inst, ili):
        """canonical dump + transcripts of a fresh database with exactly these lexicons"""
        key = (frozenset(inst), ili)
        if key in self._fresh:
            return self._fresh[key]
        cur = wn.config.data_directory
        env.close_pool()
        d = env.fresh_db()
        w = env.new_dir('fresh')
        if ili:
            env.add(env.write_file('cili.tsv', universe.ili_tsv(), w))
        for s in self.U['order']:
            if s in inst:
                n = self.U['name'][s]
                env.add(env.write_file(f'{n}.xml', self.xml[n], w))
        out = self.observe_state(sorted(inst))
        env.drop_db(d)
        wn.config.data_directory = cur
        self._fresh[key] = out
        return out

    def observe_state(self, inst):
        env.close_pool()
        C = observe.canonical_dump(env.db_path())
        for t in observe.SHARED:
            C.pop(t, None)
        T = {}
        if not self.transcripts:
            return {'C': C, 'T': T}
        with warnings.catch_warnings():
            warnings.simplefilter('ignore')
            for s in inst:
                T[s] = observe.api_transcript(wn.Wordnet(lexicon=s, expand=''), self.reltypes, forms=self.U['forms'])
            if inst and self.uni_id != 'twin':
                T['*'] = observe.api_transcript(wn.Wordnet(lexicon=' '.join(inst), expand=''), self.reltypes,
                                                forms=self.U['forms'])
            if self.uni_id == 'twin':
                # sibling extensions put senses and forms on the same base entities: the order among *their*
                # contributions follows the order of installation (cross-lexicon ordering, which the statement
                # sets aside), so each extension is observed together with its base instead of all at once
                for s in inst:
                    b = self.U['ext'].get(s)
                    if b in inst:
                        T[f'{b} {s}'] = observe.api_transcript(wn.Wordnet(lexicon=f'{b} {s}', expand=''),
                                                               self.reltypes, forms=self.U['forms'])
        env.close_pool()
        return {'C': C, 'T': T}

    def check(self, m, ev, m2, pre, post, hist, raised):
        V = []
        # removing something that is not installed is a documented error (wn.Error);
        # every other operation of the menu must succeed
        expect_error = (ev[0] == 'remove' and ev[1] != '*' and not match(ev[1], m['inst']))
        if raised and not (expect_error and raised[0] == 'Error'):
            V.append((f'{ev[0]}:raises:{raised[0]}@{raised[1]}', f'{ev} raised {raised} after {hist[:-1]}'))
        if expect_error and not raised:
            V.append(('remove:no-error-for-unknown', f'{ev} did not raise although nothing matches, after {hist[:-1]}'))
        lex = [f'{r[1]}:{r[6]}' for r in post['exact']['lexicons']]
        if sorted(lex) != sorted(m2['inst']):
            V.append((f'{ev[0]}:installed-set', f'after {hist}: installed {sorted(lex)} expected {sorted(m2["inst"])}'))
            return V
        probs = observe.integrity(env.db_path())
        if probs:
            V.append((f'integrity:{probs[0][0]}', f'after {hist}: {probs[:3]}'))
        got = self.observe_state(sorted(m2['inst']))
        exp = self.fresh(m2['inst'], m2['ili'])
        V += self.compare(got, exp, hist)
        return V

    def compare(self, got, exp, hist):
        V = []
        gC, eC = got['C'], exp['C']
        if self.annot:
            gC, eC = dict(gC), dict(eC)
            residue = False
            for t in ('tags', 'pronunciations'):
                if gC.get(t) != eC.get(t):
                    g, e = list(gC[t]), list(eC[t])
                    for row in e:
                        if row in g:
                            g.remove(row)
                        else:
                            g = None
                            break
                    declared = self.declared_annotation_rows(t)
                    if g is not None and all(r in declared for r in g):
                        residue = True
                    else:
                        V.append((f'content:{t}', f'after {hist}: {t} rows differ beyond extension residue: '
                                  f'{diff(gC[t], eC[t])[:2]}'))
                gC.pop(t, None)
                eC.pop(t, None)
            if residue:
                V.append((K_RESIDUE, f'after {hist}: tags/pronunciations contributed by a removed extension are '
                          f'still (or doubly) attached to forms of its base'))
        if gC != eC:
            for x in diff(gC, eC)[:3]:
                t = x.split('/')[1] if '/' in x else '?'
                V.append((f'content:{t}', f'after {hist}: database (first) vs fresh build (second): {x}'))
        gT, eT = got['T'], exp['T']
        if self.annot:
            gT, eT = _strip_x(gT), _strip_x(eT)
        if gT != eT:
            for x in diff(gT, eT)[:3]:
                segs = [s for s in x.split(': ')[0].split('/') if s and '|' not in s and ':' not in s and s != '*']
                import re
                V.append(('transcript:' + '.'.join(re.sub(r'\[\d+\]', '', s) for s in segs[:2]),
                          f'after {hist}: API (first) vs fresh build (second): {x}'))
        return V


def _strip_x(T):
    """per-selection transcripts without the annotations x:1 declares on base forms (on those forms only): they
    survive its removal and double when it is added again - the recorded finding; everything else stays"""
    import copy
    T = copy.deepcopy(T)
    for sel in T.values():
        universe.strip_annotations(sel['words'])
    return T


SYS = {}


def _sys(annot, transcripts=True):
    if SYS.get((annot, transcripts)) is None:
        SYS[(annot, transcripts)] = Sys05(annot, transcripts)
    return SYS[(annot, transcripts)]


def run(tier, seed, jobs=None):
    t0 = time.time()
    runs = []
    allV, vcount = [], {}
    plans = []
    if tier == 'quick':
        # U+ in the quick tier compares the table dumps only (the API transcripts are a function of them)
        plans = [(False, 'exact', 3, None, True), (False, 'coarse', None, None, True), (True, 'coarse', None, None, False),
                 ('twin', 'coarse', None, None, True)]
    else:
        plans = [(False, 'exact', 4, None, True), (False, 'medium', None, 400000, True),
                 (True, 'exact', 3, None, True), (True, 'medium', None, 400000, False),
                 (False, 'quotient', None, 60000, False),
                 ('twin', 'exact', 4, None, True), ('twin', 'medium', None, 400000, True)]
    for annot, mode, depth, cap, tr in plans:
        st, V, vc = e1.explore(_sys(annot, tr), mode, max_depth=depth, cap=cap, jobs=jobs)
        st.pop('sdata', None)
        st.pop('edges', None)
        st.update({'universe': ULABEL[annot], 'key': mode, 'depth_bound': depth})
        runs.append(st)
        allV += V
        for k, n in vc.items():
            vcount[k] = vcount.get(k, 0) + n
        print(f'  {st["universe"][:2]} key={mode} depth={depth} states={st["states"]} '
              f'transitions={st["transitions"]} levels={st["levels"]} fixpoint={st["fixpoint"]} cap={st["cap_hit"]}')
    cov = {
        'states': sum(r['states'] for r in runs),
        'transitions': sum(r['transitions'] for r in runs),
        'traces_validated_against_impl': sum(r['transitions'] for r in runs),
        'runs': runs,
        'samples': [[['add', 'A1'], ['add', 'X1'], ['remove', 'a:*']],
                    [['add', 'BC'], ['add', 'I'], ['add', 'A2'], ['remove', '*:1']]],
        'events': len(ADDS) + len(REMOVES), 'events_twin_universe': len(UNIS['twin']['adds']) + len(UNIS['twin']['removes']),
        'exhaustive': all(r['fixpoint'] or r['depth_bound'] for r in runs),
        'explanation': 'every transition is a real wn.add/wn.remove call on a restored snapshot, compared with the reference model and with a fresh build',
        '_vcount': vcount,
    }
    return runner.report(PROP, tier, seed, 'model_checking', cov, allV, t0,
                         assumptions=['SQLite trusted', 'quotient key soundness (DESIGN §2.5)'],
                         recheck=None)


def replay(path):
    import json
    data = json.load(open(path))
    hist = data['case']['history']
    found = False
    for annot in (False, True, 'twin'):
        s = _sys(annot)
        if any(ev not in s.events(None) for ev in hist):
            continue
        env.fresh_db()
        w = env.new_dir('rp')
        m = s.initial_model()
        for i, ev in enumerate(hist):
            pre = e1._observe()
            raised = None
            try:
                s.apply(ev, w)
            except Exception as exc:   # noqa: BLE001
                raised = (type(exc).__name__, '', str(exc))
            post = e1._observe()
            m2 = s.mstep(m, ev)
            V = s.check(m, ev, m2, pre, post, hist[:i + 1], raised)
            for k, msg in V:
                print(f'REPRODUCED property={PROP} key={k} universe={ULABEL[annot][:2]} :: {msg[:300]}')
                if k == data['key']:
                    found = True
            m = m2
    if found:
        print(f'VIOLATION property={PROP} replay={path}')
        return 1
    print(f'{PROP}: replay shows no violation with that key on this tree')
    return 0
