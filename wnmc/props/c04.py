"""C04 - queries stay inside the selected lexicons and ignore unrelated ones.

Engine E1: the C05 state graph (all add/remove histories over a universe built for
collisions: same forms, same ILIs, same entity ids in two versions, extension senses
on base entries/synsets, dependencies). In every reached state a menu of Wordnet
selections is observed through the whole public API: (1) the transcript must equal
the reference model's scoped transcript and mention only entities of the selection
(restricted) / of the entity's extension family (default mode); (2) along every
transition, a selection whose resolved lexicons and expand set did not change must
report exactly the same transcript (non-interference)."""
import re
import time
import warnings

import wn

from .. import env, runner, universe, observe, e1, docgen
from ..refmodel import Store, normalize_unordered, diff
from . import c05

PROP = 'C04'

MANIFEST = dict(
    category='model_checking', design_ref='DESIGN.md §3 C04, §2.5',
    engine='E1-history',
    technique='explicit-state model checking: BFS closure of the add/remove state graph on the real database; per-state scoped-transcript equality with the reference model and per-edge non-interference of unchanged selections',
    text='The state graph of C05 (18 add/remove events over base, second version with identical ids, extension, extension of extension, dependent, unrelated lexicon sharing forms and ILIs) is closed (BFS to a fixpoint) on the real SQLite database under an abstraction key (quick: installed lexicons in rowid order + ILI-index flag; thorough: additionally the value sets of the shared lookup tables). In every state, for every Wordnet selection of a menu (each single lexicon with expand default and disabled, base+extension families, both versions together, lang=en/es, default mode) the complete public-API transcript (words, forms, tags, pronunciations, senses, navigation, relations, members, ILIs) must equal the transcript the reference model computes for exactly that scope and may mention only entities of the selection (restricted) or of the entity\'s own extension family (default mode). Along every transition of the graph, every selection whose resolved lexicon set and expand set are unchanged must report an identical transcript - this covers additions and removals of unrelated lexicons and of unselected extensions of selected lexicons. The same is done over the twin universe UT of C05 (two versions of one extension and a fork of it that use the same ids for everything they add, including the forms they add to one base entry) with its own menu of 14 selections: what one sibling declares must not appear under, or vanish from, a selection that holds another. After every removal the path is replayed in one process on a database file of its own - state, read-only navigation of everything, the removal, then an add of a lexicon that takes over the freed rowid, through wn.add and (main universe) through wn.add_lexical_resource - and the state reached is checked; the membership rules also see every target of Synset.relations().',
    note='Expanded (ILI-borrowed) relations are compared differentially here and against a model in C12. Quotient soundness as for C05.',
)

K_ANNOT = 'scope:tags-or-pronunciations-of-unselected-extension-visible'

MENU = [
    ('a:1', dict(lexicon='a:1', expand='')), ('a:1+dflt', dict(lexicon='a:1')),
    ('a:2', dict(lexicon='a:2', expand='')), ('x:1', dict(lexicon='x:1', expand='')),
    ('y:1', dict(lexicon='y:1', expand='')), ('b:1', dict(lexicon='b:1', expand='')),
    ('b:1+dflt', dict(lexicon='b:1')), ('c:1', dict(lexicon='c:1', expand='')),
    ('a:1 x:1', dict(lexicon='a:1 x:1', expand='')),
    ('a:1 x:1 y:1', dict(lexicon='a:1 x:1 y:1', expand='')),
    ('x:1 y:1', dict(lexicon='x:1 y:1', expand='')),
    ('a:1 a:2', dict(lexicon='a:1 a:2', expand='')),
    ('a:1 c:1', dict(lexicon='a:1 c:1', expand='')),
    ('b:1 expand a:1', dict(lexicon='b:1', expand='a:1')),
    ('lang=en', dict(lang='en', expand='')), ('lang=es', dict(lang='es', expand='')),
    ('default', dict(expand='')), ('default+dflt', dict()),
]
MENU_TWIN = [
    ('a:1', dict(lexicon='a:1', expand='')), ('a:2', dict(lexicon='a:2', expand='')),
    ('x:1', dict(lexicon='x:1', expand='')), ('x:2', dict(lexicon='x:2', expand='')),
    ('z:1', dict(lexicon='z:1', expand='')),
    ('a:1 x:1', dict(lexicon='a:1 x:1', expand='')), ('a:1 x:2', dict(lexicon='a:1 x:2', expand='')),
    ('a:1 z:1', dict(lexicon='a:1 z:1', expand='')), ('a:1 x:2+dflt', dict(lexicon='a:1 x:2')),
    ('a:1 x:1 x:2', dict(lexicon='a:1 x:1 x:2', expand='')), ('a:1 x:2 z:1', dict(lexicon='a:1 x:2 z:1', expand='')),
    ('a:1 a:2 x:1', dict(lexicon='a:1 a:2 x:1', expand='')),
    ('default', dict(expand='')), ('default+dflt', dict()),
]
LANG = {'x:2': 'en', 'z:1': 'en', 'a:1': 'en', 'a:2': 'en', 'x:1': 'en', 'y:1': 'en', 'b:1': 'es', 'c:1': 'en'}
ORDER = c05.ORDER
_ENT = re.compile(r'^([^|]+:[^|]+)\|')


def resolve(kw, inst):
    if 'lexicon' in kw:
        want = kw['lexicon'].split()
        return [s for s in inst if s in want]
    if 'lang' in kw:
        return [s for s in inst if LANG[s] == kw['lang']]
    return list(inst)


def strip_x(T, selected=()):
    """the transcript without what the recorded finding covers: the annotations x:1 declares on base forms are
    removed when x:1 is not part of the selection (they leak in, or survive its removal), and only their
    repetitions are collapsed when it is (they double on re-adding it). Anything else - the same texts on another
    form, a missing annotation of a selected extension - stays visible."""
    import copy
    T = copy.deepcopy(T)
    universe.strip_annotations(T['words'], dedupe='x:1' in selected)
    return T


def mentioned(rec):
    """all 'spec|id' entity names inside a transcript record"""
    out = set()

    def walk(x):
        if isinstance(x, str):
            m = _ENT.match(x)
            if m:
                out.add(m.group(1))
        elif isinstance(x, (list, tuple)):
            for y in x:
                walk(y)
        elif isinstance(x, dict):
            for y in x.values():
                walk(y)
    walk(rec)
    return out


class Sys04(c05.Sys05):
    def check(self, m, ev, m2, pre, post, hist, raised):
        V = []
        lex = [f'{r[1]}:{r[6]}' for r in post['exact']['lexicons']]
        if sorted(lex) != sorted(m2['inst']):
            V.append((f'{ev[0]}:installed-set', f'after {hist}: installed {sorted(lex)} expected {sorted(m2["inst"])}'))
        return V

    def store(self, m):
        st = Store()
        for s in m['inst']:
            st.add_resource(self.res[self.U['name'][s]])
        if m['ili']:
            st.add_ili([dict(ili=a, status=b, definition=c) for a, b, c in universe.ILI_ROWS])
        return st

    def warm(self, m, ev):
        """before a removal that will be followed by chained adds: navigate everything once in default mode, so
        that whatever the library remembers about lexicons, families and rowids is in place when the rowids change"""
        if ev[0] != 'remove' or self.annot or not m['inst']:
            return
        with warnings.catch_warnings():
            warnings.simplefilter('ignore')
            w = wn.Wordnet()
            for s_ in w.senses():
                s_.word(), s_.synset(), s_.relations()
            for x_ in w.words():
                x_.senses(), x_.synsets()
            for x_ in w.synsets():
                x_.senses(), x_.relations(), x_.lexicon()

    def chain_events(self, m, ev, m2):
        """after a removal that changed something: add, in the same process, one lexicon that is not installed -
        it re-uses the freed rowid - and check the state reached (membership, scoped transcripts)"""
        if ev[0] != 'remove' or self.annot:
            return []
        if self.uni_id == 'twin':
            return [['add', a] for a in ('T2', 'Z1', 'A2') if universe.SPEC_TWIN[a] not in m2['inst']
                    and (a == 'A2' or 'a:1' in m2['inst'])][:1]
        else:
            evs = [['add', a] for a in ('B1', 'A2', 'C1') if c05.universe.SPEC[a] not in m2['inst']][:1]
        # ... through both public entry points (a file given to wn.add, a resource given to wn.add_lexical_resource)
        return evs + [e + ['memory'] for e in evs]

    def check_state(self, m, pre, hist):
        V, data = [], {}
        inst = m['inst']
        if not inst:
            return V, data
        st = self.store(m)
        idx = st.index()
        smap = None
        for name, kw in (MENU_TWIN if self.uni_id == 'twin' else MENU):
            S = resolve(kw, inst)
            default_mode = 'lexicon' not in kw and 'lang' not in kw
            with warnings.catch_warnings():
                warnings.simplefilter('ignore')
                try:
                    w = wn.Wordnet(**kw)
                except wn.Error:
                    exp_missing = kw.get('expand') and not [x for x in inst if x in kw['expand'].split()]
                    if S and not exp_missing:
                        V.append((f'select:error:{name}', f'after {hist}: Wordnet({kw}) raised though {S} installed'))
                    continue
            got_S = [x.specifier() for x in w.lexicons()]
            if sorted(got_S) != sorted(S):
                V.append((f'select:lexicons:{name}', f'after {hist}: Wordnet({kw}).lexicons() = {got_S} expected {S}'))
                continue
            smap = smap or observe.spec_map()
            T = observe.api_transcript(w, self.reltypes, smap, forms=self.U['forms'], targets=True)
            exp_ids = sorted(T['expanded'])
            # (1a) membership
            if default_mode:
                for sect in ('words', 'senses', 'synsets'):
                    for k, rec in T[sect].items():
                        fam = set(st.family(k.split('|')[0]))
                        bad = {s for s in mentioned(rec) if s not in fam and s != '?'}
                        if bad:
                            V.append((f'membership:default-mode:{sect}',
                                      f'after {hist}: {k} reaches entities of {sorted(bad)} outside its family {sorted(fam)}'))
            else:
                bad = set()
                for sect in ('words', 'senses', 'synsets'):
                    bad |= {s for s in mentioned(T[sect]) if s not in S}
                if bad:
                    V.append((f'membership:restricted:{name}',
                              f'after {hist}: Wordnet({kw}) returns entities of {sorted(bad)}, selection is {S}'))
            # (the target lists only serve the membership rules: the reference transcript has no such field)
            for rec in T['synsets'].values():
                rec.pop('targets', None)
            # (1b) equality with the scoped reference transcript (where no ILI expansion is active)
            if not exp_ids:
                exp, unordered = idx.transcript(S, default_mode=default_mode, reltypes=self.reltypes,
                                                forms=self.U['forms'])
                g, x = normalize_unordered(T, unordered), normalize_unordered(exp, unordered)
                if self.annot:
                    sel_x = st.family('a:1') if default_mode else S
                    g2, x2 = strip_x(g, sel_x), strip_x(x, sel_x)
                    if g != x and g2 == x2:
                        V.append((K_ANNOT, f'after {hist}: Wordnet({kw}) shows tags/pronunciations that an '
                                  f'unselected extension attached to a form of the selection'))
                    g, x = g2, x2
                if g != x:
                    for dd in diff(g, x)[:2]:
                        segs = [s for s in dd.split(': ')[0].split('/') if s and '|' not in s]
                        V.append((f'scope:{name}:' + '.'.join(re.sub(r'\[\d+\]', '', s) for s in segs[:2]),
                                  f'after {hist}: Wordnet({kw}) API (first) vs scoped model (second): {dd}'))
            # dependency links (extensions()/requires()) legitimately follow what is installed
            for lx in T['lexicons'].values():
                lx.pop('extensions', None)
                lx.pop('requires', None)
            data[name] = [S, exp_ids, runner.digest(T),
                          runner.digest(strip_x(T, st.family('a:1') if default_mode and 'a:1' in inst else S)) if self.annot else None]
        return V, data


SYS = {}


def _sys(annot):
    if annot not in SYS:
        SYS[annot] = Sys04(annot)
    return SYS[annot]


def edge_check(stats, annot):
    V = []
    sd = stats['sdata']
    n = 0
    for k, ev, k2, hist in stats['edges']:
        a, b = sd.get(k), sd.get(k2)
        if not a or not b or ev == ['add', 'I']:
            continue          # an ILI index is not a lexicon: it may change ILI status/definition
        for name in a:
            if name not in b or name.startswith('default'):
                continue
            if a[name][0] == b[name][0] and a[name][1] == b[name][1]:
                n += 1
                if a[name][2] != b[name][2]:
                    if annot and a[name][3] == b[name][3]:
                        V.append((K_ANNOT, f'{ev} after {hist[:-1]} changed what Wordnet[{name}] reports '
                                  f'(only tags/pronunciations of an unselected extension)', {'history': hist}, None))
                    else:
                        V.append((f'interference:{name}', f'{ev} after {hist[:-1]} changed the transcript of '
                                  f'Wordnet[{name}] although its lexicons {a[name][0]} and expand set are unchanged',
                                  {'history': hist}, None))
    return V, n


def run(tier, seed, jobs=None):
    t0 = time.time()
    plans = ([(False, 'coarse', None, None), (True, 'coarse', None, None), ('twin', 'coarse', None, None)]
             if tier == 'quick' else
             [(False, 'medium', None, 400000), (True, 'medium', None, 400000), ('twin', 'medium', None, 400000)])
    runs, allV, vcount = [], [], {}
    compared = 0
    for annot, mode, depth, cap in plans:
        st, V, vc = e1.explore(_sys(annot), mode, max_depth=depth, cap=cap, jobs=jobs)
        EV, n = edge_check(st, annot is True)
        compared += n
        nsel = sum(len(v) for v in st['sdata'].values())
        st.pop('sdata')
        st.pop('edges')
        st.update({'universe': c05.ULABEL[annot][:2], 'key': mode, 'selections_observed': nsel,
                   'edge_comparisons': n})
        runs.append(st)
        allV += V + EV
        for k, c in vc.items():
            vcount[k] = vcount.get(k, 0) + c
        for v in EV:
            vcount[v[0]] = vcount.get(v[0], 0) + 1
        print(f'  {st["universe"]} key={mode} states={st["states"]} transitions={st["transitions"]} '
              f'selections={nsel} edge_comparisons={n} fixpoint={st["fixpoint"]} cap={st["cap_hit"]}')
    cov = {
        'states': sum(r['states'] for r in runs), 'transitions': sum(r['transitions'] for r in runs),
        'traces_validated_against_impl': sum(r['transitions'] for r in runs),
        'selection_transcripts': sum(r['selections_observed'] for r in runs),
        'edge_comparisons': compared, 'menu': [n for n, _ in MENU], 'menu_twin_universe': [n for n, _ in MENU_TWIN], 'runs': runs,
        'samples': [[['add', 'A1'], ['add', 'X1']], [['add', 'A1'], ['add', 'A2'], ['add', 'C1'], ['remove', 'c:1']]],
        'exhaustive': all(r['fixpoint'] for r in runs),
        '_vcount': vcount,
    }
    return runner.report(PROP, tier, seed, 'model_checking', cov, allV, t0,
                         assumptions=['SQLite trusted', 'reference model scoping (wnmc/refmodel.py)',
                                      'quotient key soundness (DESIGN §2.5)'])


def replay(path):
    import json
    data = json.load(open(path))
    hist = data['case']['history']
    found = False
    for annot in (False, True, 'twin'):
        s = _sys(annot)
        if any(ev[:2] not in s.events(None) for ev in hist):
            continue
        env.fresh_db()
        w = env.new_dir('rp')
        m = s.initial_model()
        prev = None
        for i, ev in enumerate(hist):
            try:
                s.apply(ev, w)
            except Exception:      # noqa: BLE001
                pass
            m = s.mstep(m, ev)
            V, data_s = s.check_state(m, None, hist[:i + 1])
            env.close_pool()
            stats = {'sdata': {'p': prev, 'q': data_s}, 'edges': [('p', ev, 'q', hist[:i + 1])]}
            EV, _ = edge_check(stats, annot is True) if prev else ([], 0)
            for v in V + [(x[0], x[1]) for x in EV]:
                print(f'REPRODUCED property={PROP} key={v[0]} :: {v[1][:300]}')
                found = found or v[0] == data['key']
            prev = data_s
        # violations found along a chained path ("[same process and database as the previous events]"): the recorded
        # history ends with the removal; replay it in this process with the read-only calls before the removal and
        # each chained add after it, as the explorer does
        if hist and hist[-1][0] == 'remove':
            mm = s.initial_model()
            for ev in hist[:-1]:
                mm = s.mstep(mm, ev)
            for ev2 in s.chain_events(mm, hist[-1], s.mstep(mm, hist[-1])):
                env.fresh_db()
                w2 = env.new_dir('rp')
                try:
                    for ev in hist[:-1]:
                        s.apply(ev, w2)
                    s.warm(mm, hist[-1])
                    s.apply(hist[-1], w2)
                    s.apply(ev2, w2)
                    V, _ = s.check_state(s.mstep(s.mstep(mm, hist[-1]), ev2), None, hist + [ev2])
                except wn.Error:
                    V = []
                env.close_pool()
                for v in V:
                    print(f'REPRODUCED property={PROP} key={v[0]} :: {v[1][:300]} [chained]')
                    found = found or v[0] == data['key']
    if found:
        print(f'VIOLATION property={PROP} replay={path}')
        return 1
    print(f'{PROP}: replay shows no violation with that key on this tree')
    return 0
