"""C01 - the query API reports exactly the content of every added lexicon.

Engine E2: deviation-bounded enumeration of abstract documents (features, shapes x
BATCH_SIZE, payloads, multi-lexicon files, extension patterns); each is serialised by
the harness's own writer, added through wn.add, observed through the public API and
compared with the reference model's expected transcript."""
import re
import warnings

import wn
import wn._add

from .. import env, runner, docgen, xmlw, observe
from ..refmodel import Store, spec_of, normalize_unordered, diff

PROP = 'C01'

MANIFEST = dict(
    category='exploration',
    design_ref='DESIGN.md §3 C01, §2.2-2.4',
    technique='deviation-bounded exhaustive enumeration of WN-LMF documents (features, shapes x BATCH_SIZE, payloads, extensions) on the real add/query path vs a reference model',
    text='Abstract documents for LMF 1.0-1.3 are derived from a maximal and a minimal document by every single optional-feature deviation (thorough: every pair), every repeatable slot at 0..4 items crossed with BATCH_SIZE 1/2/3/1000, every string slot x every payload of a nasty-character alphabet, multi-lexicon files and every documented extension pattern; each is written by an independent serializer, added with wn.add and the complete public-API transcript (restricted and default mode) is compared with the transcript the reference model derives from the document. Exhaustive within the stated deviation bound. What is installed before an extension document arrives is read completely (restricted and default mode) and compared first, in the same process; the extension feature space of 1.3 is also supplied through lmf.load + wn.add_lexical_resource.',
    note='Own XML writer; ids limited to XML-name-like strings; <=4 items per list; <=2 simultaneous deviations; tie-ranked orders (extension senses/forms/members) compared as sets.',
)


def _key_of(d):
    path = d.split(': ', 1)[0]
    segs = [s for s in path.split('/') if s]
    segs = [re.sub(r'\[\d+\]', '', s) for s in segs if '|' not in s and ':' not in s]
    return 'transcript:' + '.'.join(segs[:3])


def compare(store, sel, reltypes, default_mode=False):
    """-> list of violations comparing the real API with the model for selection sel"""
    V = []
    with warnings.catch_warnings():
        warnings.simplefilter('ignore')
        if default_mode:
            w = wn.Wordnet(expand='')
        else:
            w = wn.Wordnet(lexicon=' '.join(sel), expand='')
    got = observe.api_transcript(w, reltypes)
    idx = store.index()
    exp, unordered = idx.transcript(sel if not default_mode else store.specs(),
                                    default_mode=default_mode, reltypes=reltypes)
    got_n, exp_n = normalize_unordered(got, unordered), normalize_unordered(exp, unordered)
    if got_n != exp_n:
        ds = diff(got_n, exp_n)
        seen = set()
        for d in ds:
            k = _key_of(d) + (':default-mode' if default_mode else '')
            if k not in seen:
                seen.add(k)
                V.append((k, f'API (first) vs document (second): {d}'))
    return V, runner.digest(got)


def check(case):
    env.fresh_db()
    wn._add.BATCH_SIZE = case.get('batch', 1000)
    try:
        b = docgen.build(case)
        store = Store()
        d = env.new_dir('c01')
        for i, pre in enumerate(b['pre']):
            p = env.write_file(f'pre{i}.xml', xmlw.serialize(pre), d)
            env.add(p)
            store.add_resource(pre)
        V0 = []
        if b['pre']:
            # history in one process: what is installed so far is read completely (restricted and default mode) BEFORE
            # the document arrives - whatever the library remembers from these reads must not survive the add
            rt0 = docgen.reltypes_of(b['resource'], *b['pre'])
            for dm in (False, True):
                v0, _ = compare(store, store.specs(), rt0, default_mode=dm)
                V0 += [(k + ':before-add', m) for k, m in v0]
        p = env.write_file('doc.xml', xmlw.serialize(b['resource'], raw_text=b['raw_text']), d)
        if case.get('route') == 'memory':
            # the other public entry point: lmf.load + wn.add_lexical_resource
            ok, err = runner.guarded(lambda q: env.add_resource(wn.lmf.load(q, progress_handler=None)), p)
        else:
            ok, err = runner.guarded(env.add, p)
        if not ok:
            return {'v': [(f'add:raises:{err[0]}@{err[1]}', f'wn.add of a valid document raised {err}')],
                    'd': 'raise', 'nt': True}
        store.add_resource(b['resource'])
        reltypes = docgen.reltypes_of(b['resource'], *b['pre'])
        sel = store.specs()
        V, dg = compare(store, sel, reltypes)
        V2, dg2 = compare(store, sel, reltypes, default_mode=True)
        V3 = []
        for lx in wn.lexicons():
            ok, err = runner.guarded(lx.describe)       # the summary of what was added (counts per part of speech)
            if not ok:
                V3.append((f'describe:raises:{err[0]}', f'{lx.specifier()}.describe() raised {err}'))
        return {'v': V0 + V + V2 + V3, 'd': dg + dg2, 'nt': True}
    finally:
        wn._add.BATCH_SIZE = 1000
        env.drop_db(env.db_path().parent)


def space(tier, seed):
    cases = []
    versions = ['1.0', '1.1', '1.2', '1.3']
    D = 2 if tier == 'thorough' else 1
    for v in versions:
        cases += docgen.feature_space(v, 1)
        if v != '1.0':
            cases += docgen.ext_feature_space(v, 1)
            cases += docgen.ext_feature_space(v, 1, flags=('annot',))
            if v == '1.3':
                cases += [dict(c, route='memory') for c in docgen.ext_feature_space(v, 1)]
            # two versions of the extension installed together (same form ids on the base entry)
            cases += [c for c in docgen.ext_feature_space(v, 1, flags=('annot', 'twinext')) if not c['delta'] or v == '1.3']
        cases += docgen.multi_space(v)
        # optional-by-DTD attributes the code has been seen to assume (Synset@partOfSpeech,
        # lexicon-level SyntacticBehaviour@id)
        fl = ('nopos', 'noframeid')
        cases += [c for c in docgen.feature_space(v, 1, flags=fl)
                  if c['base'] == 'M' and any(
                      (d[0] == 'synsets' and d[-1] == 'partOfSpeech') or
                      (d[0] == 'frames' and d[-1] == 'id') for d in c['delta'])]
    # shapes x BATCH_SIZE
    shape_versions = versions if tier == 'thorough' else ['1.0', '1.3']
    for v in shape_versions:
        for sc in docgen.shape_space(v, counts=(0, 1, 2, 3, 4) if tier == 'thorough' else (0, 1, 2, 3)):
            for bs in (1, 2, 3, 1000):
                cases.append(dict(sc, batch=bs))
    for v in versions:
        for bs in (1, 2, 3):
            cases.append({'v': v, 'kind': 'feat', 'base': 'M', 'delta': [], 'batch': bs})
    # payloads
    if tier == 'thorough':
        for v in versions:
            cases += docgen.payload_space(v)
    else:
        pv = ['1.0', '1.3'][seed % 2]
        cases += docgen.payload_space(pv)
        other = '1.3' if pv == '1.0' else '1.0'
        cases += docgen.payload_space(other, attr_payloads=['a"b', "a'b", 'a<b', 'a&amp;b', 'a\nb', ' lead'],
                                      text_payloads=['a<b', 'a&amp;b', ' lead', ''])
    if D >= 2:
        for v in ('1.0', '1.3'):
            cases += [c for c in docgen.feature_space(v, 2) if len(c['delta']) == 2]
        cases += [c for c in docgen.ext_feature_space('1.3', 2, flags=('annot',)) if len(c['delta']) == 2]
    return cases


RULE = ('abstract documents per LMF version 1.0-1.3: minimal/maximal document +- every optional '
        'feature (D<=1; thorough: all pairs D=2 for 1.0 and 1.3), extension documents over an installed '
        'base (every documented extension pattern, with and without annotations of external lemmas/forms), '
        'multi-lexicon files, every repeatable slot at 0..3(4) items x BATCH_SIZE in {1,2,3,1000}, every '
        'string slot x every payload of the alphabet. Each document: XML written by the harness, wn.add, '
        'full API transcript (restricted selection and default mode) vs reference model. '
        'distinct = distinct transcript digests.')


def run(tier, seed, jobs=None):
    return runner.run_space(
        PROP, tier, seed, space(tier, seed), check, rule=RULE, jobs=jobs, chunk=8,
        extra={'deviation_bound': 2 if tier == 'thorough' else 1},
        assumptions=['own XML writer (wnmc/xmlw.py) and reference model (wnmc/refmodel.py) trusted',
                     'ids restricted to XML-name-like payloads; pos/language payloads mild',
                     '<=4 items per list; <=2 simultaneous feature deviations'])


def replay(path):
    return runner.replay(PROP, path, check)
