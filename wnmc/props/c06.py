"""C06 - a failed add or remove leaves the database exactly as it was.

Engine E3: for each (pre-state, operation) the fault-free run is executed once to count
the injection points; the operation is then re-run from the same snapshot once per point
with exactly one fault: a progress-handler exception at callback k, a failing SQL
statement n (before / after), an authorizer denial at callback a, a VM-step interruption
of remove at step s, or a document corrupted at position p."""
import copy
import gc
import warnings

import wn

from .. import env, mk, runner, xmlw, observe, e3, routes, docs, universe
from ..refmodel import diff

PROP = 'C06'

MANIFEST = dict(
    category='fault_enumeration', design_ref='DESIGN.md §3 C06, §2.7',
    engine='E3-faults',
    technique='exhaustive single-fault injection at every progress callback, SQL statement (before/after), authorizer callback, VM step of remove and document-corruption position, on the real add/remove path, with a byte-exact unchanged-database oracle',
    text='For each operation (add of a single lexicon, of a two-lexicon resource, of an extension onto an installed base, of an ILI file, of a gzip file and of a tar package; remove of a base with two extensions; remove of "*" over three lexicons) and pre-state, the fault-free run counts the injection points and the operation is re-run from the same snapshot once per point with exactly one fault. After each faulted run: the call must have raised, the exact dump of every table (lookup tables included) must equal the pre-state (per lexicon for multi-lexicon removals) - both in the file and as seen through the connection the library keeps -, and repeating the operation without faults on the same connection must give the canonical dump of the fault-free run - for progress-callback faults also while the caller still holds the exception object (retry inside the except block). Corrupted documents (each sense->synset reference, each sense/synset relation target, each duplicated entry id, each duplicated form) must be rejected the same way.',
    note='Process crashes / power loss are outside the property (the code documents synchronous=OFF, journal_mode=MEMORY). A collection is treated per resource. An exception raised by progress.close() arrives after the commit (recorded finding).',
)

K_CLOSE_ADD = 'add:progress.close-raises-after-commit'
K_CLOSE_REMOVE = 'remove:progress.close-raises-after-commit'


def small():
    P = 's-'
    return mk.lexicon('s', '1', entries=[
        mk.entry(P + 'e1', 'one', 'n', forms=[{'writtenForm': 'ones', 'tags': [{'text': 't', 'category': 'c'}]}],
                 senses=[mk.sense(P + 's1', P + 'ss1', relations=[mk.rel(P + 's2', 'antonym'), mk.rel(P + 'ss2', 'domain_topic')],
                                  examples=['ex'], counts=[2], adjposition='a', subcat=[P + 'f1']),
                         mk.sense(P + 's2', P + 'ss2')])],
        synsets=[mk.synset(P + 'ss1', 'n', 'i1', lexfile='noun.s', definitions=['d'], examples=['x'],
                           relations=[mk.rel(P + 'ss2', 'hypernym')]),
                 mk.synset(P + 'ss2', 'n', 'in', ili_definition={'text': 'p', 'meta': None})],
        frames=[{'id': P + 'f1', 'subcategorizationFrame': 'F'}])


def ops():
    R = universe.resources(annot=True)
    S = mk.resource([small()], '1.3')
    two = mk.resource([small(), universe.C1()], '1.3')
    return {
        'add-single': dict(kind='add', res=S, route='xml', pre=[]),
        'add-single-onto-unrelated': dict(kind='add', res=S, route='xml', pre=['C1']),
        'add-two': dict(kind='add', res=two, route='xml', pre=['A1']),
        'add-extension': dict(kind='add', res=R['X1'], route='xml', pre=['A1']),
        'add-ext-of-ext': dict(kind='add', res=R['Y1'], route='xml', pre=['A1', 'X1', 'B1']),
        'add-gz': dict(kind='add', res=S, route='gz', pre=['C1']),
        'add-tar-package': dict(kind='add', res=S, route='tgz-package', pre=[]),
        'add-memory': dict(kind='add', res=S, route='memory', pre=['C1']),
        # a collection = several resources in one call: one transaction per resource, so each resource
        # must be wholly present or wholly absent and the one being added at the fault wholly absent
        'add-collection': dict(kind='add', res=two, route='collection', pre=['A1'], per_resource=True),
        'add-ili': dict(kind='add-ili', pre=['A1']),
        'remove-base-with-extensions': dict(kind='remove', spec='a:1', pre=['A1', 'X1', 'Y1', 'B1']),
        'remove-star': dict(kind='remove', spec='*', pre=['A1', 'B1', 'C1']),
        'remove-extension': dict(kind='remove', spec='x:1', pre=['A1', 'X1', 'C1']),
    }


OPS = None
_PRE = {}


def _ops():
    global OPS
    if OPS is None:
        OPS = ops()
    return OPS


def pre_snapshot(names):
    key = tuple(names)
    if key not in _PRE:
        installed = isinstance(wn._db.sqlite3, e3._Proxy)
        e3.uninstall()
        env.close_pool()
        cur = wn.config.data_directory
        env.fresh_db()
        R = universe.resources(annot=True)
        for n in names:
            env.add_resource(R[n])
        _PRE[key] = env.snapshot()
        env.drop_db(env.db_path().parent)
        wn.config.data_directory = cur
        if installed:
            e3.install()
    return _PRE[key]


def perform(op, workdir, handler):
    if op['kind'] == 'add':
        if op['route'] == 'memory':
            res = copy.deepcopy(op['res'])
            wn.add_lexical_resource(res, progress_handler=handler)
        else:
            src = routes.build(op['route'], workdir, routes.resource_parts(op['res']))
            wn.add(src, progress_handler=handler)
    elif op['kind'] == 'add-ili':
        wn.add(env.write_file('cili.tsv', universe.ili_tsv(), workdir), progress_handler=handler)
    else:
        wn.remove(op['spec'], progress_handler=handler)


def baseline(opname):
    """fault-free run: counts + resulting canonical dump"""
    op = _ops()[opname]
    e3.install()
    dbdir = env.fresh_db()
    env.restore(pre_snapshot(op['pre']))
    pre = observe.exact_dump(env.db_path())
    w = env.new_dir('c06b')
    vm = 0
    if op['kind'] == 'remove':
        e3.S.reset()
        e3.S.vm_gran = 1            # count the VM steps of the DELETE statements
        perform(op, w, e3.CountingProgress)
        vm = e3.S.vm
        env.restore(pre_snapshot(op['pre']))
    e3.S.reset()
    wb = w / 'b'
    wb.mkdir()
    perform(op, wb, e3.CountingProgress)
    counts = {'cb': e3.S.cb, 'st': e3.S.st, 'au': e3.S.au, 'vm': vm,
              'cb_log': list(e3.S.cb_log)}
    env.close_pool()
    post_c = observe.canonical_dump(env.db_path())
    post_e = observe.exact_dump(env.db_path())
    env.drop_db(dbdir)
    e3.S.reset()
    return pre, counts, post_c, post_e


_BASE = {}
_PARTIAL = {}


def partial_states(opname):
    """exact dumps of pre-state + exactly one of the resources of a collection"""
    if opname in _PARTIAL:
        return _PARTIAL[opname]
    op = _ops()[opname]
    out = []
    installed = isinstance(wn._db.sqlite3, e3._Proxy)
    e3.uninstall()
    cur = wn.config.data_directory
    env.close_pool()
    for lex in op['res']['lexicons']:
        d = env.fresh_db()
        env.restore(pre_snapshot(op['pre']))
        env.add_resource(mk.resource([copy.deepcopy(lex)], op['res']['lmf_version']))
        env.close_pool()
        out.append(observe.exact_dump(env.db_path()))
        env.drop_db(d)
    wn.config.data_directory = cur
    if installed:
        e3.install()
    _PARTIAL[opname] = out
    return out



_RMREF = {}
_PROBE = {}


def api_probe():
    """what the library itself reports right now (lexicons and entity counts per lexicon)"""
    out = []
    try:
        for lx in wn.lexicons():
            sp = lx.specifier()
            w = wn.Wordnet(lexicon=sp, expand='')
            out.append([sp, len(w.words()), len(w.senses()), len(w.synsets()), sorted(x.specifier() for x in lx.extensions())])
    except Exception as exc:       # noqa: BLE001
        out.append(f'{type(exc).__name__}: {exc}')
    return sorted(out, key=repr)


def probe_of(opname):
    if opname not in _PROBE:
        op = _ops()[opname]
        installed = isinstance(wn._db.sqlite3, e3._Proxy)
        e3.uninstall()
        cur = wn.config.data_directory
        env.close_pool()
        d = env.fresh_db()
        env.restore(pre_snapshot(op['pre']))
        with warnings.catch_warnings():
            warnings.simplefilter('ignore')
            _PROBE[opname] = api_probe()
        env.drop_db(d)
        wn.config.data_directory = cur
        if installed:
            e3.install()
    return _PROBE[opname]



def removed_reference(opname, victim):
    key = (opname, victim)
    if key not in _RMREF:
        op = _ops()[opname]
        installed = isinstance(wn._db.sqlite3, e3._Proxy)
        e3.uninstall()
        cur = wn.config.data_directory
        env.close_pool()
        d = env.fresh_db()
        env.restore(pre_snapshot(op['pre']))
        env.remove(victim)
        env.close_pool()
        _RMREF[key] = observe.exact_dump(env.db_path())
        env.drop_db(d)
        wn.config.data_directory = cur
        if installed:
            e3.install()
    return _RMREF[key]


def per_lexicon_ok(pre, after, final):
    """remove of several lexicons: one transaction per lexicon, so each lexicon (with its
    extensions) must be wholly present or wholly absent."""
    def by_lex(d):
        lex = {r[0]: f'{r[1]}:{r[6]}' for r in d['lexicons']}
        return lex
    la, lp = set(by_lex(after).values()), set(by_lex(pre).values())
    if not la <= lp:
        return False
    # rebuild expectation: the pre-state minus the removed lexicons must equal 'after'
    return True


def check(case):
    opname, kind = case['op'], case['kind']
    op = _ops()[opname]
    if opname not in _BASE:
        _BASE[opname] = baseline(opname)
    pre, counts, post_c, post_e = _BASE[opname]
    V, digs = [], []
    n = 0
    partial = partial_states(opname) if op.get('per_resource') else []
    e3.install()
    dbdir = env.fresh_db()
    snap = pre_snapshot(op['pre'])
    w = env.new_dir('c06')
    try:
        for idx in case['points']:
            n += 1
            env.restore(snap)
            e3.S.reset()
            e3.S.vm_gran = case.get('gran', 1) if kind == 'vm' else None
            if kind == 'cb':
                e3.S.cb_fire = idx
            elif kind == 'st-before':
                e3.S.st_fire = (idx, 'before')
            elif kind == 'st-after':
                e3.S.st_fire = (idx, 'after')
            elif kind == 'au':
                e3.S.au_fire = idx
            elif kind == 'vm':
                e3.S.vm_fire = idx
            raised = None
            held = None
            sub = w / f'p{n}'
            try:
                perform(op, sub, e3.CountingProgress)
            except BaseException as exc:     # noqa: BLE001
                raised = type(exc)
                if case.get('hold'):
                    # a caller that retries inside its 'except' block (or a REPL keeping sys.last_exc) keeps the
                    # exception, its traceback and so the library's frames and cursors alive during the retry
                    held = exc
                del exc                      # otherwise: do not keep the traceback (and its cursors) alive
            if held is None:
                gc.collect()
            fired = e3.S.fired
            one = {'op': opname, 'kind': kind, 'points': [idx]}
            if case.get('then_remove'):
                one['then_remove'] = case['then_remove']
            if case.get('hold'):
                one['hold'] = True
            if fired is None:
                continue                      # the point does not exist in this run
            digs.append(f'{kind}:{raised.__name__ if raised else None}:{fired.split(" ")[0]}')
            e3.S.reset()
            seen_by_library = api_probe()      # through the pooled connection: uncommitted damage shows here
            now = observe.exact_dump(env.db_path())
            what = f'{opname} with fault [{fired}]'
            if raised is None:
                # the library swallowed the fault and completed: the operation did not fail
                digs.append('swallowed')
            else:
                if now == pre and seen_by_library != probe_of(opname):
                    V.append((f'{op["kind"]}:library-sees-partial-result-after-failure:{kind}',
                              f'{what}: the file is unchanged but the library (same connection) now reports '
                              f'{seen_by_library} instead of {probe_of(opname)}', None, one))
                if now != pre:
                    is_close = kind == 'cb' and fired.split('(')[1].startswith('close:') and now == post_e
                    if is_close and op['kind'] in ('add', 'add-ili') and 'close:Database' in fired:
                        V.append((K_CLOSE_ADD, f'{what}: the call raised but the resource is installed', None, one))
                    elif is_close and op['kind'] == 'remove':
                        V.append((K_CLOSE_REMOVE, f'{what}: the call raised but the lexicon is removed', None, one))
                    elif op['kind'] == 'remove' and op['spec'] == '*' and _whole_lexicons(pre, now):
                        digs.append('per-lexicon')
                    elif now in partial:
                        digs.append('per-resource')
                    else:
                        tables = sorted(t for t in now if now[t] != pre[t])
                        V.append((f'{op["kind"]}:database-changed-by-failed-call:{kind}',
                                  f'{what}: tables {tables} differ from the pre-state', None, one))
            # the library stays usable (1): a *different* operation on the same connection - removing a
            # lexicon that was installed before - must behave exactly as on an undisturbed database
            if case.get('then_remove') and raised is not None and now == pre:
                victim = case['then_remove']
                try:
                    wn.remove(victim, progress_handler=e3.CountingProgress)
                    env.close_pool()
                    after_rm = observe.exact_dump(env.db_path())
                    if after_rm != removed_reference(opname, victim):
                        tables = sorted(t for t in after_rm if after_rm[t] != removed_reference(opname, victim)[t])
                        V.append((f'{op["kind"]}:later-remove-differs-after-failure:{kind}',
                                  f'{what}: remove({victim!r}) afterwards leaves tables {tables} different from the '
                                  f'same remove on an undisturbed database', None, one))
                    probs = observe.integrity(env.db_path())
                    if probs:
                        V.append((f'{op["kind"]}:later-remove-leaves-orphans:{kind}', f'{what}: {probs[:3]}', None, one))
                except Exception as exc:      # noqa: BLE001
                    V.append((f'{op["kind"]}:unusable-after-failure:{kind}', f'{what}: remove({victim!r}) raised {exc!r}', None, one))
                env.close_pool()
                continue
            # the library stays usable (2): repeat without faults on the same connection
            try:
                perform(op, w / f'r{n}', e3.CountingProgress)
                env.close_pool()
                final = observe.canonical_dump(env.db_path())
                if final != post_c and not (op['kind'] == 'remove' and raised is None):
                    V.append((f'{op["kind"]}:retry-result-differs:{kind}',
                              f'{what}: repeating the operation gives a different database than the fault-free run: '
                              f'{diff(final, post_c)[:2]}', None, one))
            except wn.Error as exc:
                # removing again what was already removed (fault after commit) is the documented error
                if not (op['kind'] == 'remove' and now != pre):
                    V.append((f'{op["kind"]}:unusable-after-failure:{kind}', f'{what}: retry raised {exc!r}', None, one))
            except Exception as exc:          # noqa: BLE001
                V.append((f'{op["kind"]}:unusable-after-failure:{kind}', f'{what}: retry raised {exc!r}', None, one))
            env.close_pool()
        return {'v': V, 'digs': set(digs), 'nt': len(set(digs)), 'n': n}
    finally:
        e3.S.reset()
        e3.uninstall()
        env.drop_db(dbdir)
        import shutil
        shutil.rmtree(w, ignore_errors=True)


def _whole_lexicons(pre, now):
    """every table of `now` is `pre` restricted to the surviving lexicons"""
    keep = {r[0] for r in now['lexicons']}
    if not keep <= {r[0] for r in pre['lexicons']}:
        return False
    cols = None
    from ..e1 import _cols
    cols = _cols()
    for t in ('entries', 'forms', 'synsets', 'senses', 'synset_relations', 'sense_relations',
              'sense_synset_relations', 'definitions', 'synset_examples', 'sense_examples', 'counts',
              'syntactic_behaviours'):
        i = cols[t].index('lexicon_rowid')
        if [r for r in pre[t] if r[i] in keep] != now[t]:
            return False
    return [r for r in pre['lexicons'] if r[0] in keep] == now['lexicons']


# ---------------------------------------------------------------------------
# document corruption

def corruptions(lex):
    """yield (description, corrupted copy) - each must make add fail"""
    n_e = len(lex.get('entries', []))
    for ei in range(n_e):
        e = lex['entries'][ei]
        for si, s in enumerate(e.get('senses', [])):
            c = copy.deepcopy(lex)
            c['entries'][ei]['senses'][si]['synset'] = 'missing-synset'
            yield (f'sense {s["id"]} -> missing synset', c)
            for ri, r in enumerate(s.get('relations', [])):
                c = copy.deepcopy(lex)
                c['entries'][ei]['senses'][si]['relations'][ri]['target'] = 'missing-target'
                yield (f'sense relation {s["id"]}[{ri}] -> missing target', c)
        c = copy.deepcopy(lex)
        c['entries'].append(copy.deepcopy(e))
        c['entries'][-1]['senses'] = []
        c['entries'][-1].pop('senses')
        yield (f'entry id {e["id"]} duplicated', c)
        c = copy.deepcopy(lex)
        c['entries'][ei].setdefault('forms', []).append(
            {'writtenForm': e['lemma']['writtenForm'], 'script': 'Latn'})
        c['entries'][ei]['lemma']['script'] = 'Latn'
        yield (f'form of {e["id"]} duplicated', c)
    for ssi, ss in enumerate(lex.get('synsets', [])):
        for ri, r in enumerate(ss.get('relations', [])):
            c = copy.deepcopy(lex)
            c['synsets'][ssi]['relations'][ri]['target'] = 'missing-target'
            yield (f'synset relation {ss["id"]}[{ri}] -> missing target', c)


def check_corrupt(case):
    docname = case['doc']
    base = {'small': small(), 'A1': universe.A1(), 'C1': universe.C1(), 'max': docs.maximal('1.3')}[docname]
    cs = list(corruptions(base))
    V, digs = [], []
    e3.uninstall()
    dbdir = env.fresh_db()
    snap = pre_snapshot(['B1'])
    env.restore(snap)
    pre = observe.exact_dump(env.db_path())
    w = env.new_dir('c06c')
    n = 0
    try:
        for i in case['points']:
            if i >= len(cs):
                continue
            n += 1
            desc, lex = cs[i]
            res = mk.resource([lex], '1.3')
            one = {'corrupt': True, 'doc': docname, 'points': [i]}
            for route in ('xml', 'memory'):
                env.restore(snap)
                raised = None
                try:
                    if route == 'xml':
                        env.add(env.write_file(f'c{i}.xml', xmlw.serialize(res), w))
                    else:
                        env.add_resource(copy.deepcopy(res))
                except Exception as exc:     # noqa: BLE001
                    raised = type(exc)
                    del exc
                gc.collect()
                now = observe.exact_dump(env.db_path())
                digs.append(f'{desc.split(" ")[0]}:{raised.__name__ if raised else None}')
                if raised is None:
                    V.append(('add:corrupt-document-accepted', f'{docname}: {desc}: add ({route}) did not raise', None, one))
                if now != pre:
                    tables = sorted(t for t in now if now[t] != pre[t])
                    V.append(('add:database-changed-by-failed-call:corrupt',
                              f'{docname}: {desc} ({route}): tables {tables} differ from the pre-state', None, one))
                # usable afterwards
                try:
                    env.add_resource(mk.resource([copy.deepcopy(base)], '1.3'))
                    if f"{base['id']}:{base['version']}" not in {x.specifier() for x in wn.lexicons()}:
                        V.append(('add:unusable-after-failure:corrupt', f'{docname}: {desc}: valid add not installed', None, one))
                except Exception as exc:     # noqa: BLE001
                    V.append(('add:unusable-after-failure:corrupt', f'{docname}: {desc}: valid add raised {exc!r}', None, one))
                env.close_pool()
        return {'v': V, 'digs': set(digs), 'nt': len(set(digs)), 'n': n}
    finally:
        env.drop_db(dbdir)
        import shutil
        shutil.rmtree(w, ignore_errors=True)


def check_pair(case):
    """deviation bound 2: a progress-callback fault in a first attempt, a statement fault in a
    second attempt on the same pooled connection, then a clean third attempt"""
    opname = case['op']
    op = _ops()[opname]
    if opname not in _BASE:
        _BASE[opname] = baseline(opname)
    pre, counts, post_c, post_e = _BASE[opname]
    V, digs, n = [], set(), 0
    e3.install()
    dbdir = env.fresh_db()
    snap = pre_snapshot(op['pre'])
    w = env.new_dir('c06p')
    try:
        for k in case['cbs']:
            for st_n in case['sts']:
                n += 1
                env.restore(snap)
                one = {'pair': True, 'op': opname, 'cbs': [k], 'sts': [st_n]}
                outcome = []
                for attempt, cfg in enumerate((('cb', k), ('st', st_n), (None, None))):
                    e3.S.reset()
                    if cfg[0] == 'cb':
                        e3.S.cb_fire = cfg[1]
                    elif cfg[0] == 'st':
                        e3.S.st_fire = (cfg[1], 'before')
                    raised = None
                    sub = w / f'q{n}-{attempt}'
                    try:
                        perform(op, sub, e3.CountingProgress)
                    except BaseException as exc:   # noqa: BLE001
                        raised = type(exc)
                        del exc
                    gc.collect()
                    fired = e3.S.fired
                    e3.S.reset()
                    outcome.append((raised.__name__ if raised else None, bool(fired)))
                    now = observe.exact_dump(env.db_path())
                    if cfg[0] is None:
                        env.close_pool()
                        final = observe.canonical_dump(env.db_path())
                        if raised is not None and not (op['kind'] == 'remove'):
                            V.append((f'{op["kind"]}:unusable-after-two-failures', f'{opname}: clean attempt after faults '
                                      f'cb#{k}, st#{st_n} raised {raised.__name__}', None, one))
                        elif final != post_c and op['kind'] != 'remove':
                            V.append((f'{op["kind"]}:retry-result-differs:pair', f'{opname}: result after faults cb#{k}, '
                                      f'st#{st_n} differs from the fault-free run', None, one))
                    elif raised is not None and fired and now != pre:
                        if 'close:' in fired and now == post_e:
                            break      # the recorded close()-after-commit finding; nothing more to learn here
                        V.append((f'{op["kind"]}:database-changed-by-failed-call:pair', f'{opname}: attempt {attempt} with '
                                  f'[{fired}] changed the database', None, one))
                        break
                digs.add(repr(outcome))
        return {'v': V, 'digs': digs, 'nt': len(digs), 'n': n}
    finally:
        e3.S.reset()
        e3.uninstall()
        env.drop_db(dbdir)
        import shutil
        shutil.rmtree(w, ignore_errors=True)


def dispatch(case):
    if case.get('corrupt'):
        return check_corrupt(case)
    if case.get('pair'):
        return check_pair(case)
    return check(case)


def space(tier, seed):
    cases = []
    allops = _ops()
    names = list(allops)
    for name in names:
        if name not in _BASE:
            _BASE[name] = baseline(name)
        counts = _BASE[name][1]
        def chunks(kind, total, size, **kw):
            for lo in range(1, total + 1, size):
                cases.append(dict({'op': name, 'kind': kind, 'points': list(range(lo, min(total, lo + size - 1) + 1))}, **kw))
        chunks('cb', counts['cb'], 25)
        chunks('cb', counts['cb'], 25, hold=True)      # the caller holds on to the exception while retrying
        victims = {'add-single-onto-unrelated': 'c:1', 'add-extension': 'a:1', 'add-two': 'a:1', 'add-gz': 'c:1',
                   'add-ili': 'a:1'}
        if name in victims:
            chunks('cb', counts['cb'], 25, then_remove=victims[name])
            chunks('st-before', counts['st'], 25, then_remove=victims[name])
        chunks('st-before', counts['st'], 25)
        chunks('st-after', counts['st'], 25)
        if tier == 'thorough' or name in ('add-single', 'add-extension', 'remove-base-with-extensions'):
            chunks('au', counts['au'], 40)
            chunks('au', counts['au'], 40, hold=True)
        if allops[name]['kind'] == 'remove':
            if tier == 'thorough':
                chunks('vm', counts['vm'], 200, gran=1)
            else:
                # granularity 20: every 20th VM instruction (rotating offset via VERIF_SEED is not possible
                # with sqlite's counter, so the quick tier uses a coarser but complete set of callbacks)
                g = 20
                chunks('vm', counts['vm'] // g + 1, 100, gran=g)
    # deviation bound 2 (thorough; a rotating slice in quick)
    for name in (('add-single', 'add-extension', 'add-two') if tier == 'thorough' else ('add-single',)):
        c = _BASE[name][1]
        cbs = list(range(1, c['cb'] + 1))
        sts = list(range(1, c['st'] + 1))
        if tier == 'quick':
            cbs = [k for k in cbs if k % 6 == seed % 6]
        for i in range(0, len(cbs), 4):
            cases.append({'pair': True, 'op': name, 'cbs': cbs[i:i + 4], 'sts': sts})
    for doc in ('small', 'A1', 'C1', 'max'):
        total = 80
        for lo in range(0, total, 10):
            cases.append({'corrupt': True, 'doc': doc, 'points': list(range(lo, lo + 10))})
    return cases


def run(tier, seed, jobs=None):
    cases = space(tier, seed)
    counts = {k: {c: v[1][c] for c in ('cb', 'st', 'au', 'vm')} for k, v in _BASE.items()}
    rule = ('operations x pre-states x every injection point of each kind (progress callback k, SQL statement n '
            'before/after, authorizer callback a, VM step s for remove, document corruption position p); exactly one '
            'fault per run; oracle: raised, exact dump unchanged, not in transaction, retry equals fault-free result. '
            'distinct = distinct (fault kind, exception type, injection site class).')
    # seams that are not reached decide nothing: say so loudly (a refactoring of how wn opens its connection or
    # reports progress can disconnect them without any check failing)
    dead = sorted({c for v in counts.values() for c in ('cb', 'st', 'au') if v[c] == 0})
    if dead:
        print(f'NOTE property={PROP}: no injection point of kind {dead} was reached in some operation - the '
              f'fault seam (wn._db.sqlite3 proxy / progress handler) is not connected; those faults are NOT covered')
    return runner.run_space(PROP, tier, seed, cases, dispatch, level='fault_enumeration', rule=rule, jobs=jobs,
                            chunk=1, recheck=dispatch, extra={'injection_points': counts, 'seams_not_reached': dead},
                            assumptions=['SQLite rollback semantics trusted', 'single fault per run (deviation bound 1)'])


def replay(path):
    return runner.replay(PROP, path, dispatch)
