"""C15 - information-content weights are conserved, counted once and monotone.

Engine E2: all labelled hypernym DAGs up to 4 nodes and all cyclic digraphs up to 3
nodes x part-of-speech patterns (all nouns; adjective / satellite mix) x every corpus
(multiset of <=3 tokens over an unambiguous word, an ambiguous word, a multi-word lemma
and an unknown word) x distribute_weight x smoothing, against a reference compute();
plus load() on generated WordNet::Similarity files."""
import itertools
import math
import warnings
from collections import Counter

import wn
import wn.ic

from .. import env, mk, runner, budget
from ..graphs import pairs, edges_of, dag_masks, is_dag

PROP = 'C15'

MANIFEST = dict(
    category='exploration', design_ref='DESIGN.md §3 C15',
    technique='bounded-exhaustive enumeration of hypernym graphs x lexicalisations x corpora x flags on the real wn.ic.compute/load vs a reference written from the documented semantics',
    text='For every labelled DAG on up to 4 nodes and every cyclic digraph on up to 3 nodes (with self-loops), in an all-noun and an adjective/satellite colouring, and for every corpus that is a multiset of up to 3 tokens over {a word of one synset, a word of two synsets, a multi-word lemma, an unknown word}, wn.ic.compute is run with distribute_weight on/off and smoothing 1.0 / 0.5 / 0.0 and compared with the reference: per part of speech the total is smoothing + the sum of the (optionally evenly distributed) counts of known words, each synset gets smoothing + that weight for every word synset that is the synset itself or one of its distinct hypernym ancestors - once per word synset however many paths converge; derived obligations (weights never decrease going up, synset_probability in (0,1], information_content >= 0 and not larger for a hypernym, unknown words ignored, satellites counted as adjectives - also through synset_probability / information_content) are checked on every synset. the DAGs (thorough: all digraphs n<=3) are also presented in expanded mode - the graph borrowed from an expand lexicon, only a subset of the nodes stored in the queried lexicon, ancestors reached through *INFERRED* placeholders that have no table entry of their own; load() is compared with the expected structure for every subset of lines and every ROOT-flag placement of generated weight files. Colourings with parts of speech that take no part in the counts (c, p, x, u) next to countable ones on the ambiguous word (hypernym edges inside one part of speech only).',
    note='Corpus tokens are exact lemmas (form search itself is C09). Floats compared with 1e-9 tolerance.',
)

BATCH = 60
TOKENS = ['w0', 'amb', 'stone fruit', 'unk', 'W0']
IC_POS = ['n', 'v', 'a', 'r']


def build(lid, g):
    n, prs = g['n'], pairs(g['n'], g['loops'])
    edges = edges_of(g['h'], prs)
    pos = g['pos']
    rels = {i: [] for i in range(n)}
    for i, j in edges:
        rels[i].append(mk.rel(f'{lid}-{j:08}-{pos[j]}', 'hypernym'))
    sid = [f'{lid}-{i:08}-{pos[i]}' for i in range(n)]
    syns = [mk.synset(sid[i], pos[i], relations=rels[i]) for i in range(n)]
    # 'W0' differs from 'w0' only in case and names another synset: a corpus token finds exactly the
    # synsets of the form it spells (the normalised look-up is a fall-back, not a merge)
    lex_of = {'w0': [0], 'amb': sorted({0, n - 1}), 'stone fruit': [1] if n >= 2 else [],
              'W0': [n - 1] if n >= 2 else []}
    ents = []
    k = 0
    for word, nodes in lex_of.items():
        bypos = {}
        for i in nodes:
            bypos.setdefault(pos[i], []).append(i)
        for p, ns in bypos.items():
            ents.append(mk.entry(f'{lid}-e{k}', word, p,
                                 senses=[mk.sense(f'{lid}-s{k}-{i}', sid[i]) for i in ns]))
            k += 1
    return [mk.lexicon(lid, '1', entries=ents, synsets=syns)], edges, sid, lex_of


def build_expanded(lid, g):
    """expanded mode: the hypernym graph lives in the expand lexicon <lid>q; the queried lexicon has bare
    ILI-linked synsets (and the words) for the nodes of the 'real' mask only - hypernym ancestors are reached
    through *INFERRED* placeholders, which have no key in the weight table"""
    n, prs = g['n'], pairs(g['n'], g['loops'])
    edges = edges_of(g['h'], prs)
    pos = g['pos']
    q = lid + 'q'
    real = [i for i in range(n) if g['real'] >> i & 1]
    qs = [mk.synset(f'{q}-{i}', pos[i], f'i{lid}x{i}',
                    relations=[mk.rel(f'{q}-{j}', 'hypernym') for (a, j) in edges if a == i]) for i in range(n)]
    sid = [f'{lid}-{i:08}-{pos[i]}' for i in range(n)]
    ps = [mk.synset(sid[i], pos[i], f'i{lid}x{i}') for i in real]
    lex_of = {'w0': [0], 'amb': sorted({0, n - 1}), 'stone fruit': [1] if n >= 2 else [],
              'W0': [n - 1] if n >= 2 else []}
    lex_of = {wd: [i for i in ns if i in real] for wd, ns in lex_of.items()}
    ents = []
    k = 0
    for word, nodes in lex_of.items():
        bypos = {}
        for i in nodes:
            bypos.setdefault(pos[i], []).append(i)
        for pp, ns in bypos.items():
            ents.append(mk.entry(f'{lid}-e{k}', word, pp,
                                 senses=[mk.sense(f'{lid}-s{k}-{i}', sid[i]) for i in ns]))
            k += 1
    return ([mk.lexicon(lid, '1', entries=ents, synsets=ps), mk.lexicon(q, '1', synsets=qs)],
            edges, sid, lex_of)


def ancestors(n, edges, x):
    adj = {i: set() for i in range(n)}
    for i, j in edges:
        adj[i].add(j)
    seen, frontier = {x}, [x]
    while frontier:
        u = frontier.pop()
        for v in adj[u]:
            if v not in seen:
                seen.add(v)
                frontier.append(v)
    return seen


def fold(p):
    return 'a' if p == 's' else p


def lookup(lex_of, tok):
    """synsets a corpus token finds: the documented form search with the default normalizer"""
    def stage(q):
        nodes = set()
        for form, ns in lex_of.items():
            nf = form.lower()
            if form == q or (nf != form and nf == q):
                nodes.update(ns)
        return nodes
    found = stage(tok)
    if not found:
        found = stage(tok.lower())
    return sorted(found)


def reference(g, edges, sid, lex_of, corpus, distribute, smoothing):
    n, pos = g['n'], g['pos']
    real = [i for i in range(n) if g.get('real', -1) >> i & 1]
    freq = {p: {None: smoothing} for p in IC_POS}
    for i in real:
        if fold(pos[i]) in freq:
            freq[fold(pos[i])][sid[i]] = smoothing
    for word, count in Counter(corpus).items():
        nodes = lookup(lex_of, word)
        if not nodes:
            continue
        weight = count / len(nodes) if distribute else float(count)
        for i in nodes:
            p = fold(pos[i])
            if p not in freq:
                continue
            freq[p][None] += weight
            for a in ancestors(n, edges, i):
                # ancestors live in the bucket of the word synset's part of speech; placeholders of an
                # expanded wordnet are passed through but have no entry of their own
                if a in real:
                    freq[p][sid[a]] = freq[p].get(sid[a], 0.0) + weight
    return freq


def close(a, b):
    return abs(a - b) <= 1e-9 * max(1.0, abs(a), abs(b))


def check_graph(lid, g, edges, sid, lex_of, corpora, V, obs):
    n, pos = g['n'], g['pos']
    with warnings.catch_warnings():
        warnings.simplefilter('ignore')
        w = wn.Wordnet(lexicon=f'{lid}:1', expand=f'{lid}q:1' if 'real' in g else '')
    real = [i for i in range(n) if g.get('real', -1) >> i & 1]
    ss = {i: w.synset(sid[i]) for i in real}
    mixed_pos = len({fold(p) for p in pos}) > 1
    # (i, j): j is a proper hypernym ancestor of i, both stored in the queried lexicon
    up = [(i, j) for i in real for j in ancestors(n, edges, i) if j != i and j in real] if 'real' in g else edges

    def bad(key, msg):
        V.append((key, f'{msg} :: graph {g}', None, g))
    for corpus in corpora:
        for distribute in (True, False):
            for smoothing in (1.0, 0.5, 0.0):
                st, got = budget.call(wn.ic.compute, list(corpus), w, distribute_weight=distribute,
                                      smoothing=smoothing, budget=3000)
                cfg = f'corpus={list(corpus)} distribute={distribute} smoothing={smoothing}'
                if st == 'budget':
                    bad('compute:nontermination', cfg)
                    continue
                if st != 'ok':
                    bad(f'compute:raises:{type(got).__name__}', f'{cfg}: {got!r}')
                    continue
                exp = reference(g, edges, sid, lex_of, corpus, distribute, smoothing)
                obs.append(sorted((p, sorted((str(k), round(v, 6)) for k, v in d.items())) for p, d in got.items()))
                if set(got) != set(IC_POS):
                    bad('compute:pos-keys', f'{cfg}: keys {sorted(got)}')
                    continue
                for p in IC_POS:
                    if set(got[p]) != set(exp[p]):
                        bad('compute:synset-keys', f'{cfg}: pos {p} keys {sorted(map(str, got[p]))} expected {sorted(map(str, exp[p]))}')
                        continue
                    if not close(got[p][None], exp[p][None]):
                        bad('compute:total', f'{cfg}: total[{p}] = {got[p][None]} expected {exp[p][None]}')
                    for k in exp[p]:
                        if k is not None and not close(got[p][k], exp[p][k]):
                            key = 'compute:weight'
                            if got[p][k] > exp[p][k] and not mixed_pos:
                                key = 'compute:weight-counted-more-than-once'
                            bad(key, f'{cfg}: weight[{p}][{k}] = {got[p][k]} expected {exp[p][k]}')
                            break
                # derived obligations on the implementation's own numbers
                if not mixed_pos:
                    for i, j in up:
                        p = fold(pos[i])
                        if p in got and got[p].get(sid[j], 0) + 1e-9 < got[p].get(sid[i], 0):
                            bad('monotone:weight-decreases-upwards', f'{cfg}: w[{j}] < w[{i}]')
                if smoothing > 0:
                    for i in real:
                        p = fold(pos[i])
                        if p not in IC_POS:
                            continue
                        try:
                            pr = wn.ic.synset_probability(ss[i], got)
                            ic = wn.ic.information_content(ss[i], got)
                        except Exception as exc:   # noqa: BLE001
                            bad(f'information_content:raises:{type(exc).__name__}:pos={pos[i]}',
                                f'{cfg}: node {i} pos {pos[i]}: {exc!r}')
                            continue
                        e_pr = exp[p][sid[i]] / exp[p][None]
                        if not close(pr, e_pr) and not mixed_pos:
                            bad('synset_probability:differs', f'{cfg}: node {i}: {pr} expected {e_pr}')
                        if not (0 < pr <= 1 + 1e-12):
                            bad('synset_probability:out-of-range', f'{cfg}: node {i}: p = {pr}')
                        if ic < -1e-12:
                            bad('information_content:negative', f'{cfg}: node {i}: IC = {ic}')
                    if not mixed_pos:
                        for i, j in up:
                            try:
                                if wn.ic.information_content(ss[j], got) > wn.ic.information_content(ss[i], got) + 1e-9:
                                    bad('information_content:hypernym-more-informative', f'{cfg}: IC[{j}] > IC[{i}]')
                            except Exception:     # noqa: BLE001
                                pass


def check_twin(case):
    """two versions of one lexicon (identical synset ids, different hypernym edges) covered by one Wordnet"""
    env.fresh_db()
    dbdir = env.db_path().parent
    V = []
    try:
        n = 3
        gA = {'n': n, 'loops': False, 'h': case['ha'], 'pos': 'nnn'}
        gB = {'n': n, 'loops': False, 'h': case['hb'], 'pos': 'nnn'}
        (lexA,), edgesA, sid, lex_of = build('tw', gA)
        (lexB,), edgesB, _, _ = build('tw', gB)
        lexB['version'] = '2'
        for e_ in lexB['entries']:
            e_['lemma']['writtenForm'] += '2'            # version 2 uses other words
        order = [lexA, lexB] if case['order'] == 'ab' else [lexB, lexA]
        for lx in order:
            env.add_resource(mk.resource([lx], '1.0'))
        with warnings.catch_warnings():
            warnings.simplefilter('ignore')
            w = wn.Wordnet(lexicon='tw:1 tw:2', expand='')
        for corpus in (['w0'], ['amb', 'w0'], ['w02'], ['w0', 'amb2', 'amb2']):
            for distribute in (True, False):
                # (the documentation asks for a Wordnet of a single lexicon: an implementation that refuses this
                # one with wn.Error is right too; if it computes, each synset must follow its own version's edges)
                try:
                    got = wn.ic.compute(corpus, w, distribute_weight=distribute, smoothing=1.0)
                except wn.Error:
                    continue
                # reference: each version contributes along its own edges; ids are shared, so weights add up
                exp = {p: {None: 1.0} for p in IC_POS}
                for i in range(n):
                    exp['n'][sid[i]] = 1.0
                for word, count in Counter(corpus).items():
                    for edges, suffix in ((edgesA, ''), (edgesB, '2')):
                        if not word.endswith('2') == bool(suffix):
                            continue
                        nodes = lookup(lex_of, word[:-1] if suffix else word)
                        if not nodes:
                            continue
                        wgt = count / len(nodes) if distribute else float(count)
                        for i in nodes:
                            exp['n'][None] += wgt
                            for a in ancestors(n, edges, i):
                                exp['n'][sid[a]] += wgt
                for k in exp['n']:
                    if not close(got['n'].get(k, -1), exp['n'][k]):
                        V.append(('compute:weight:two-versions-sharing-ids',
                                  f'{case} corpus={corpus} distribute={distribute}: weight[{k}] = {got["n"].get(k)} '
                                  f'expected {exp["n"][k]}'))
                        break
        return {'v': V, 'd': runner.digest(case)}
    finally:
        env.drop_db(dbdir)


def check(case):
    if case.get('twin'):
        return check_twin(case)
    if case.get('load'):
        return check_load(case)
    env.fresh_db()
    dbdir = env.db_path().parent
    V, digs = [], []
    try:
        built, lexs = [], []
        for k, g in enumerate(case['graphs']):
            lid = f'ic{k}'
            lex, edges, sid, lex_of = (build_expanded if 'real' in g else build)(lid, g)
            lexs.extend(lex)
            built.append((lid, g, edges, sid, lex_of))
        env.add_resource(mk.resource(lexs, '1.0'))
        corpora = [tuple(c) for c in case['corpora']]
        n = 0
        for lid, g, edges, sid, lex_of in built:
            obs = []
            check_graph(lid, g, edges, sid, lex_of, corpora, V, obs)
            n += len(corpora) * 6
            digs.append(runner.digest(obs))
        return {'v': V, 'digs': digs, 'nt': len(digs), 'n': n}
    finally:
        env.drop_db(dbdir)


def check_load(case):
    env.fresh_db()
    dbdir = env.db_path().parent
    V, digs = [], set()
    n = 0
    try:
        nn = case['n']
        pos = case['pos']
        g = {'n': nn, 'loops': False, 'h': 0, 'pos': pos}
        (lex,), edges, sid, lex_of = build('icl', g)
        env.add_resource(mk.resource([lex], '1.0'))
        w = wn.Wordnet(lexicon='icl:1', expand='')
        d = env.new_dir('icl')
        for r in range(nn + 1):
            for lines in itertools.combinations(range(nn), r):
                for roots in itertools.chain.from_iterable(itertools.combinations(lines, k) for k in range(len(lines) + 1)):
                    n += 1
                    text = 'wnver::abc\n' + ''.join(
                        f'{i}{pos[i]} {i * 2 + 1.5}{" ROOT" if i in roots else ""}\n' for i in lines)
                    f = env.write_file('ic.dat', text, d)
                    one = {'load': True, 'n': nn, 'pos': pos, 'only': [list(lines), list(roots)]}
                    try:
                        got = wn.ic.load(f, w)
                    except Exception as exc:      # noqa: BLE001
                        V.append((f'load:raises:{type(exc).__name__}', f'lines {lines} roots {roots}: {exc!r}', None, one))
                        continue
                    exp = {p: {None: 0.0} for p in IC_POS}
                    for i in range(nn):
                        if fold(pos[i]) in exp:
                            exp[fold(pos[i])][sid[i]] = 0.0
                    for i in lines:
                        exp[pos[i]][sid[i]] = i * 2 + 1.5
                        if i in roots:
                            exp[pos[i]][None] += i * 2 + 1.5
                    digs.add(runner.digest(sorted((p, sorted((str(k), v) for k, v in dd.items())) for p, dd in got.items())))
                    if got != exp:
                        V.append(('load:differs', f'lines {lines} roots {roots}: {got} expected {exp}', None, one))
        return {'v': V, 'digs': digs, 'nt': len(digs), 'n': n}
    finally:
        env.drop_db(dbdir)


def corpora(maxlen):
    out = []
    for r in range(maxlen + 1):
        out += [list(c) for c in itertools.combinations_with_replacement(TOKENS, r)]
    return out


def space(tier, seed):
    gs = []
    for n in (1, 2, 3):
        for h in range(1 << (n * n)):
            prs = pairs(n, True)
            dag = is_dag(n, edges_of(h, prs))
            gs.append({'n': n, 'loops': True, 'h': h, 'pos': 'n' * n, 'dag': dag})
    for h in dag_masks(4):
        gs.append({'n': 4, 'loops': False, 'h': h, 'pos': 'nnnn', 'dag': True})
    # adjective / satellite colourings (s counts as a)
    for n in (2, 3):
        for h in dag_masks(n):
            for p in (['as', 'sa', 'ss'] if n == 2 else ['asa', 'sas', 'ssa']):
                gs.append({'n': n, 'loops': False, 'h': h, 'pos': p, 'dag': True})
    # parts of speech that take no part in the counts (c, p, x, u) next to countable ones: 'amb' names node 0 and
    # node n-1, so a distributed weight is divided by ALL synsets of the word, counted or not
    for n in (2, 3):
        for h in dag_masks(n):
            for p in (['nc', 'cn', 'xu', 'vp'] if n == 2 else ['nnc', 'xnn', 'nun', 'pvx', 'cnc']):
                # only graphs whose hypernym edges stay inside one part of speech: the weight tables are per part of
                # speech and the property does not say where a cross-POS ancestor would be counted (the validator
                # warns about such edges, W501; compute() raises KeyError on them - see DESIGN 9.5, wave 6)
                if all(fold(p[i]) == fold(p[j]) for i, j in edges_of(h, pairs(n, False))):
                    gs.append({'n': n, 'loops': False, 'h': h, 'pos': p, 'dag': True})
    if tier == 'thorough':
        for h in dag_masks(4):
            gs.append({'n': 4, 'loops': False, 'h': h, 'pos': 'asas', 'dag': True})
    # expanded mode: the graph is borrowed from an expand lexicon; only the nodes of the mask (always node 0,
    # which carries the words w0 / amb) are stored in the queried lexicon, the others are placeholders
    for n, masks in ((2, (1, 3)), (3, (1, 3, 5, 7)), (4, (1, 9, 3) if tier == 'quick' else (1, 3, 5, 9, 7, 11, 13, 15))):
        for h in (range(1 << (n * n)) if n < 4 and tier == 'thorough' else dag_masks(n)):
            for m in masks:
                gs.append({'n': n, 'loops': n < 4 and tier == 'thorough', 'h': h, 'pos': 'n' * n, 'dag': True, 'real': m})
    cs = corpora(3 if tier == 'thorough' else 2)
    if tier == 'quick':
        cs += [['w0', 'w0', 'amb'], ['amb', 'amb', 'stone fruit'], ['w0', 'amb', 'stone fruit'],
               ['unk', 'unk', 'unk'], [TOKENS[seed % 4]] * 3]
    cases = [{'graphs': gs[i:i + BATCH], 'corpora': cs} for i in range(0, len(gs), BATCH)]
    dm = dag_masks(3)
    for ha in dm:
        for hb in dm:
            if ha != hb and (tier == 'thorough' or (ha + hb) % 3 == seed % 3):
                for order in ('ab', 'ba'):
                    cases.append({'twin': True, 'ha': ha, 'hb': hb, 'order': order})
    for nn, pos in ((1, 'n'), (2, 'nv'), (3, 'nnv'), (3, 'nan')):
        cases.append({'load': True, 'n': nn, 'pos': pos})
    return cases


def run(tier, seed, jobs=None):
    cases = space(tier, seed)
    ng = sum(len(c.get('graphs', [])) for c in cases)
    rule = ('graphs: all digraphs with self-loops n<=3, all DAGs n=4, a/s colourings of DAGs n<=3 (thorough: n=4 and an '
            'a/s mix); lexicalisation: w0 -> node 0, amb -> nodes {0, n-1}, "stone fruit" -> node 1; corpora: every multiset '
            'of <=2 tokens plus 5 triples (quick) / <=3 tokens (thorough) over {w0, amb, stone fruit, unk}; distribute on/off; '
            'smoothing 1.0/0.5/0.0. evaluations = compute()/load() calls; distinct = distinct weight tables.')
    return runner.run_space(PROP, tier, seed, cases, check, rule=rule, jobs=jobs, chunk=1, recheck=_one,
                            samples=[cases[0]['graphs'][7], cases[3]['graphs'][0], cases[-1]],
                            extra={'graphs': ng, 'corpora': len(cases[0]['corpora'])})


def _one(c):
    if 'graphs' in c or c.get('load') or c.get('twin'):
        return check(c)
    return check({'graphs': [c], 'corpora': corpora(3)})


def replay(path):
    return runner.replay(PROP, path, _one)
