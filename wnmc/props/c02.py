"""C02 - WN-LMF load/dump is a lossless round trip in every supported version.

Engine E2: (i) every generated resource in loader normal form is dumped in every LMF
version and loaded back; the result must equal the projection of the resource onto what
that version can express, and dumping again must reproduce the same bytes.
(ii) 'messy' but valid XML renderings of the same documents (quoting, attribute order,
explicit defaults, comments, character references) must reach the same fixed point."""
import copy

import wn
from wn import lmf

from .. import env, runner, docgen, xmlw, docs
from ..refmodel import diff

PROP = 'C02'

MANIFEST = dict(
    category='exploration', design_ref='DESIGN.md §3 C02',
    technique='bounded-exhaustive enumeration of resources x LMF versions through the real dump/load, exact equality with the version projection and byte-level fixed point',
    text='Every generated resource in loader normal form (feature deviations incl. extensions with every External* element, list shapes, every string slot x payload alphabet) is dumped by the real lmf.dump in its own and in every other LMF version and loaded back: the result must equal the projection onto what that version can express, dumping again must give identical bytes, and is_lmf must accept it; messy-but-valid renderings (single quotes, reversed attributes, explicit defaults, comments, character references) must reach the same fixed point; xml:space=preserve text must survive. Exhaustive within the deviation bound.',
    note='Optional attributes range over non-empty values (an empty optional attribute is indistinguishable from an absent one in the dumper by design).',
)
K_PRESERVE = 'dump:xml-space-preserve-text-not-preserved'
XMLSPACE = 'http://www.w3.org/XML/1998/namespace space'


def proj(resource, e):
    """what LMF version e can express of resource"""
    r = copy.deepcopy(resource)
    r['lmf_version'] = e
    for lex in r['lexicons']:
        if e == '1.0':
            lex.pop('logo', None)
            lex.pop('requires', None)
            lex.pop('frames', None)
            for ent in lex.get('entries', []):
                forms = ([ent['lemma']] if ent.get('lemma') else []) + ent.get('forms', [])
                for f in forms:
                    f.pop('pronunciations', None)
                    if not f.get('external'):
                        f.pop('id', None)
                for s in ent.get('senses', []):
                    s.pop('subcat', None)
            for ss in lex.get('synsets', []):
                ss.pop('members', None)
                ss.pop('lexfile', None)
        else:
            for ent in lex.get('entries', []):
                ent.pop('frames', None)
            for f in lex.get('frames', []):
                f.pop('senses', None)
    return r


def with_defaults(resource):
    r = copy.deepcopy(resource)
    for lex in r['lexicons']:
        for ent in lex.get('entries', []):
            forms = ([ent['lemma']] if ent.get('lemma') else []) + ent.get('forms', [])
            for f in forms:
                for p in f.get('pronunciations', []):
                    p.setdefault('phonemic', True)
            for s in ent.get('senses', []):
                if not s.get('external'):
                    s.setdefault('lexicalized', True)
        for ss in lex.get('synsets', []):
            if not ss.get('external'):
                ss.setdefault('lexicalized', True)
    return r


def strip_defaults(resource):
    r = copy.deepcopy(resource)
    for lex in r['lexicons']:
        for ent in lex.get('entries', []):
            forms = ([ent['lemma']] if ent.get('lemma') else []) + ent.get('forms', [])
            for f in forms:
                for p in f.get('pronunciations', []):
                    if p.get('phonemic') is True:
                        del p['phonemic']
            for s in ent.get('senses', []):
                if s.get('lexicalized') is True:
                    del s['lexicalized']
        for ss in lex.get('synsets', []):
            if ss.get('lexicalized') is True:
                del ss['lexicalized']
    return r


STYLES = {
    'single': dict(quote="'"),
    'reverse': dict(reverse_attrs=True),
    'defaults': dict(explicit_defaults=True),
    'comments': dict(comments=True),
    'charrefs': dict(charrefs=True),
    'flat': dict(indent=False, self_close=False),
    'all': dict(quote="'", reverse_attrs=True, explicit_defaults=True, comments=True,
                charrefs=True, indent=False, self_close=False),
}


def _key(d):
    path = d.split(': ', 1)[0]
    import re
    segs = [re.sub(r'\[\d+\]', '', s) for s in path.split('/') if s]
    return '.'.join(s for s in segs if s)[:80]


def check(case):
    V = []
    d = env.new_dir('c02')
    try:
        b = docgen.build(case)
        R = b['resource']
        if case.get('preserve'):
            return check_preserve(case, d)
        style = case.get('style')
        if style:
            st = xmlw.Style(**STYLES[style])
            F = env.write_file('f.xml', xmlw.serialize(R, st, raw_text=b['raw_text']), d)
            ok, L0 = runner.guarded(lmf.load, F, progress_handler=None)
            if not ok:
                return {'v': [(f'load:raises:{L0[0]}', f'load of a valid {style}-styled document raised {L0}')], 'd': 'x'}
            expL0 = with_defaults(R) if STYLES[style].get('explicit_defaults') else R
            if L0 != expL0:
                for x in diff(L0, expL0)[:3]:
                    V.append((f'load:differs:{_key(x)}', f'load({style}) vs document: {x}'))
            p1, p2 = d / 'd1.xml', d / 'd2.xml'
            lmf.dump(L0, p1)
            L1 = lmf.load(p1, progress_handler=None)
            lmf.dump(L1, p2)
            if p1.read_bytes() != p2.read_bytes():
                V.append(('fixpoint:bytes-differ', f'dump(load(F)) is not a fixed point for style {style}'))
            if L1 != strip_defaults(L0):
                for x in diff(L1, strip_defaults(L0))[:3]:
                    V.append((f'roundtrip:{_key(x)}', f'load(dump(load(F))) vs load(F): {x}'))
            return {'v': V, 'd': runner.digest(p1.read_text()[:20000])}
        e = case.get('dump_as', R['lmf_version'])
        if 'numscore' in case:
            # lmf.Metadata declares confidenceScore as a number; an in-memory resource may hold one
            R = copy.deepcopy(R)
            _set_scores(R, case['numscore'])
        R2 = copy.deepcopy(R)
        R2['lmf_version'] = e
        before = copy.deepcopy(R2)
        p1, p2 = d / 'd1.xml', d / 'd2.xml'
        ok, err = runner.guarded(lmf.dump, R2, p1)
        if not ok:
            return {'v': [(f'dump:raises:{err[0]}@{err[1]}', f'dump raised {err}')], 'd': 'x'}
        if not lmf.is_lmf(p1):
            V.append(('dump:not-is_lmf', 'is_lmf() rejects a file written by dump()'))
        ok, L = runner.guarded(lmf.load, p1, progress_handler=None)
        if not ok:
            return {'v': V + [(f'load:raises-on-dump:{L[0]}', f'load of dump output raised {L}')], 'd': 'x'}
        exp = proj(R, e)
        if 'numscore' in case:
            _set_scores(exp, str(case['numscore']))      # the loader returns the attribute text
        if L != exp:
            for x in diff(L, exp)[:3]:
                V.append((f'roundtrip:{_key(x)}', f'load(dump(R,{e})) (first) vs proj(R) (second): {x}'))
        lmf.dump(L, p2)
        if p1.read_bytes() != p2.read_bytes():
            V.append(('fixpoint:bytes-differ', 'dump(load(dump(R))) != dump(R)'))
        return {'v': V, 'd': runner.digest(p1.read_text()[:20000])}
    finally:
        import shutil
        shutil.rmtree(d, ignore_errors=True)


def _set_scores(node, value):
    if isinstance(node, dict):
        m = node.get('meta')
        if isinstance(m, dict) and 'confidenceScore' in m:
            m['confidenceScore'] = value
        for v in node.values():
            _set_scores(v, value)
    elif isinstance(node, list):
        for v in node:
            _set_scores(v, value)


def check_preserve(case, d):
    """xml:space="preserve" text: load() returns the un-normalised text; does it survive?"""
    v = case['v']
    raw = case.get('raw', '  two  spaces\n kept ')
    rawtext = case.get('rawtext', raw)      # what the XML fragment 'raw' denotes
    sp = 'xml:space="preserve"'
    pron = f'<Pronunciation {sp}>{raw}p</Pronunciation>' if v != '1.0' else ''
    xml = '\n'.join(xmlw.header(v)) + f"""
<LexicalResource xmlns:dc="{xmlw.DC_URIS[v]}">
  <Lexicon id="p" label="l" language="en" email="e" license="x" version="1">
    <LexicalEntry id="p-e"><Lemma writtenForm="w" partOfSpeech="n">{pron}<Tag category="c" {sp}>{raw}t</Tag></Lemma>
      <Sense id="p-n" synset="p-s"><Example {sp}>{raw}x</Example></Sense></LexicalEntry>
    <Synset id="p-s" ili="in"><Definition {sp}>{raw}d</Definition><ILIDefinition {sp}>{raw}i</ILIDefinition><Example {sp}>{raw}y</Example></Synset>
  </Lexicon>
</LexicalResource>
"""
    F = env.write_file('f.xml', xml, d)
    L0 = lmf.load(F, progress_handler=None)

    def texts(L):
        lx = L['lexicons'][0]
        e, ss = lx['entries'][0], lx['synsets'][0]
        out = {'tag': e['lemma']['tags'][0]['text'], 'sense-example': e['senses'][0]['examples'][0]['text'],
               'definition': ss['definitions'][0]['text'], 'ilidef': ss['ili_definition']['text'],
               'synset-example': ss['examples'][0]['text']}
        if v != '1.0':
            out['pron'] = e['lemma']['pronunciations'][0]['text']
        return out
    t0 = texts(L0)
    V = []
    for k, t in t0.items():
        if not t.startswith(rawtext):
            V.append(('load:preserve-ignored', f'xml:space=preserve {k} text loaded as {t!r}'))
    p1, p2 = d / 'd1.xml', d / 'd2.xml'
    lmf.dump(L0, p1)
    L1 = lmf.load(p1, progress_handler=None)
    t1 = texts(L1)
    for k in t0:
        if t1[k] != t0[k]:
            V.append((K_PRESERVE + ':' + k, f'{k} text {t0[k]!r} loaded under xml:space=preserve comes back as {t1[k]!r}'))
    if L1 != L0:
        for x in diff(L1, L0)[:3]:
            V.append((f'roundtrip:preserve:{_key(x)}', f'load(dump(load(F))) vs load(F): {x}'))
    lmf.dump(L1, p2)
    if p1.read_bytes() != p2.read_bytes():
        V.append(('fixpoint:bytes-differ', 'preserve document: dump is not a fixed point'))
    return {'v': V, 'd': 'preserve' + v}


def space(tier, seed):
    cases = []
    fl = ('nopos', 'noframeid')
    D = 2 if tier == 'thorough' else 1
    for v in docs.VERSIONS:
        feats = docgen.feature_space(v, 1, flags=fl)
        exts = (docgen.ext_feature_space(v, 1, flags=('annot',)) if v != '1.0' else [])
        cases += feats + exts + docgen.multi_space(v)
        # cross-version dumps
        for e in docs.VERSIONS:
            if e == v:
                continue
            for c in feats:
                if tier == 'thorough' or c['base'] == 'M':
                    cases.append(dict(c, dump_as=e))
            if e != '1.0':
                for c in exts:
                    if tier == 'thorough' or not c['delta']:
                        cases.append(dict(c, dump_as=e))
        cases += docgen.shape_space(v, counts=(0, 1, 3))
        # messy renderings
        for st in STYLES:
            cases.append({'v': v, 'kind': 'feat', 'base': 'M', 'delta': [], 'style': st})
            cases.append({'v': v, 'kind': 'feat', 'base': 'm', 'delta': [], 'style': st})
            if v != '1.0':
                cases.append({'v': v, 'kind': 'ext', 'base': 'M', 'delta': [], 'flags': ['annot'], 'style': st})
        cases.append({'v': v, 'kind': 'feat', 'base': 'm', 'delta': [], 'preserve': True})
        # whitespace that is not ASCII (and no ASCII irregularity) must survive as well
        for raw in ('a\u00a0b', 'a\u3000b\u2028c', '\u2009thin', 'tab\tonly'):
            cases.append({'v': v, 'kind': 'feat', 'base': 'm', 'delta': [], 'preserve': True, 'raw': raw})
        # a carriage return can only be given as a character reference; written back literally it would be
        # read as a line feed the next time
        for raw, rawtext in (('a&#13;b', 'a\rb'), ('l1&#13;&#10;l2', 'l1\r\nl2'), ('&#13;', '\r')):
            cases.append({'v': v, 'kind': 'feat', 'base': 'm', 'delta': [], 'preserve': True, 'raw': raw, 'rawtext': rawtext})
        for score in (0, 0.0, 0.25, 1):
            cases.append({'v': v, 'kind': 'feat', 'base': 'M', 'delta': [], 'numscore': score})
    pvers = docs.VERSIONS if tier == 'thorough' else [docs.VERSIONS[seed % 4], '1.3']
    for v in dict.fromkeys(pvers):
        pl = docgen.payload_space(v)
        cases += pl
        if tier == 'thorough':
            cases += [dict(c, style='all') for c in pl]
    if tier == 'quick':
        cases += [dict(c, style='all') for c in docgen.payload_space(
            '1.3', attr_payloads=['a"b', "a'b", 'a<b', 'a&amp;b', 'a\nb', ' lead', 'é'],
            text_payloads=['a<b', 'a&amp;b', ' lead', 'é', ''])]
    if D >= 2:
        for v in ('1.0', '1.3'):
            cases += [c for c in docgen.feature_space(v, 2, flags=fl) if len(c['delta']) == 2]
    return cases


RULE = ('resources in loader normal form for LMF 1.0-1.3 (minimal/maximal +- each optional feature, '
        'extensions with every External* element, multi-lexicon, list shapes, every string slot x payload) '
        'x dump version (own version for all, every other version for the feature space): '
        'load(dump(R,e)) == proj_e(R) and dump is a byte-level fixed point; plus 7 messy-but-valid XML '
        'renderings per document and an xml:space=preserve probe. distinct = distinct dumped files.')


def run(tier, seed, jobs=None):
    return runner.run_space(
        PROP, tier, seed, space(tier, seed), check, rule=RULE, jobs=jobs, chunk=16,
        assumptions=['own XML writer trusted', 'optional attributes range over non-empty values',
                     'resources without explicit default values (phonemic/lexicalized true)'])


def replay(path):
    return runner.replay(PROP, path, check)
