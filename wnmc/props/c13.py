"""C13 - taxonomy functions agree with graph-theoretic definitions on any hypernym graph.

Engine E2: every labelled digraph up to a node bound is loaded into the real
database (many graphs = many lexicons per database) and every taxonomy function is
compared with the plain-Python reference in wnmc.graphs.Ref."""
import itertools

import wn
import wn.taxonomy as tx

from .. import env, mk, runner, budget
from ..graphs import pairs, edges_of, Ref, dag_masks
from ..observe import ili_of

PROP = 'C13'

MANIFEST = dict(
    category='exploration',
    design_ref='DESIGN.md §3 C13, §2.6',
    technique='bounded-exhaustive enumeration of all labelled hypernym digraphs (n<=4, DAGs n=5) on the real code vs a reference graph model',
    text='Every labelled digraph up to the node bound (self-loops, cycles, edge typings, pos colourings, hyponym-declaration modes) is loaded into the real SQLite store and every taxonomy function is compared with a plain-Python reference on every node / ordered pair / simulate_root value; the n<=3 digraphs with self-loops and the loop-free 4-node digraphs are presented a second time in expanded mode - stored in an expand lexicon and seen from a lexicon that has bare ILI-linked synsets for only the first r nodes, all others appearing as *INFERRED* placeholders (all functions start from the stored synsets and from every placeholder navigation reaches; one family stores the real synsets in two queried lexicons); termination is decided by a step budget counted in relation queries. Exhaustive within the bound, nothing sampled.',
    note='lowest_common_hypernyms and simulate_root distances are compared exactly on DAGs only (depth is not a function of the node on cyclic graphs); graphs with >=6 nodes and the "random larger" half of the quantifier are outside the bound.',
)
BATCH = 128
K_CYCLIC_TD = 'taxonomy_depth:underreports-on-cyclic-graph'


def build_lexicon(lid, g):
    n = g['n']
    if 'edges' in g:            # explicit edge list (structured families beyond the exhaustive bound)
        edges = [tuple(e) for e in g['edges']]
        prs = []
    else:
        prs = pairs(g['n'], g['loops'])
        edges = edges_of(g['h'], prs)
    inst = set(edges_of(g.get('inst', 0), prs))
    pos = g.get('pos') or 'n' * n
    hypo_mode = g.get('hypo', 'recip')
    rels = {i: [] for i in range(n)}
    for (i, j) in edges:
        rels[i].append(mk.rel(f'{lid}-{j}', 'instance_hypernym' if (i, j) in inst else 'hypernym'))
    hypo = set()
    if hypo_mode == 'recip':
        hypo = {(j, i) for (i, j) in edges}
    elif hypo_mode == 'skew':
        hypo = set(edges)
    for (i, j) in sorted(hypo):
        rels[i].append(mk.rel(f'{lid}-{j}', 'instance_hyponym' if (j, i) in inst else 'hyponym'))
    if g.get('decoy'):
        # relations of other types (some sorting before 'hypernym' in the lookup table) that the
        # taxonomy functions must ignore: the reverse of every hypernym edge and a full clique
        for (i, j) in edges:
            rels[j].append(mk.rel(f'{lid}-{i}', 'also'))
        for i in range(n):
            for j in range(n):
                if i != j:
                    rels[i].append(mk.rel(f'{lid}-{j}', 'antonym' if (i + j) % 2 else 'holo_part'))
    if 'real' in g:
        # expanded mode: the graph lives in the expand lexicon <lid>q; the queried lexicon <lid> has bare
        # synsets for the nodes of the 'real' mask only, linked by ILI - all other nodes of the graph are
        # seen as *INFERRED* placeholder synsets
        q = lid + 'q'
        for i in rels:
            for r in rels[i]:
                r['target'] = q + r['target'][len(lid):]
        qs = [mk.synset(f'{q}-{i}', pos[i], _ili(lid, i), relations=rels[i]) for i in range(n)]
        sp = g.get('split', 0)          # real nodes of this mask are stored in a second queried lexicon <lid>b
        ps = [mk.synset(f'{lid}-{i}', pos[i], _ili(lid, i)) for i in range(n) if g['real'] >> i & 1 and not sp >> i & 1]
        ps2 = [mk.synset(f'{lid}-{i}', pos[i], _ili(lid, i)) for i in range(n) if g['real'] >> i & 1 and sp >> i & 1]
        # nodes of mask 'dup' are stored in *both* queried lexicons (two synsets, one ILI): the copy is node i + n
        for i in range(n):
            if g.get('dup', 0) >> i & 1:
                ps2.append(mk.synset(f'{lid}-{i + n}', pos[i], _ili(lid, i)))
        if g.get('dup'):
            cp = lambda x: [x, x + n] if g['dup'] >> x & 1 else [x]       # noqa: E731
            edges = [(a2, b2) for (a, b) in edges for a2 in cp(a) for b2 in cp(b)]
            hypo = {(b, a) for (a, b) in edges}
        second = []
        if sp and g.get('splitext'):    # ... which is a lexicon extension of <lid>
            second = [mk.lexicon(lid + 'b', extends={'id': lid, 'version': '1'}, synsets=ps2)]
        elif sp:
            second = [mk.lexicon(lid + 'b', synsets=ps2)]
        return [mk.lexicon(lid, synsets=ps), mk.lexicon(q, synsets=qs)] + second, edges, hypo
    if 'ext' in g:
        # extension mode: the nodes of mask ext['nodes'] and the edges of mask ext['edges'] (index into the edge
        # list; plus every edge touching an extension node) are declared by the lexicon extension <lid>x, the
        # reciprocal hyponym with its hypernym edge. scope 'both' queries base + extension and must see the
        # whole graph, scope 'base' only the base part.
        xn, xe = g['ext']['nodes'], g['ext']['edges']
        in_x = {(i, j) for k, (i, j) in enumerate(edges) if xe >> k & 1 or xn >> i & 1 or xn >> j & 1}
        brel = {i: [] for i in range(n)}
        xrel = {i: [] for i in range(n)}
        for (i, j) in edges:
            (xrel if (i, j) in in_x else brel)[i].append(mk.rel(f'{lid}-{j}', 'hypernym'))
            (xrel if (i, j) in in_x else brel)[j].append(mk.rel(f'{lid}-{i}', 'hyponym'))
        base = mk.lexicon(lid, synsets=[mk.synset(f'{lid}-{i}', pos[i], relations=brel[i])
                                        for i in range(n) if not xn >> i & 1])
        xs = [mk.synset(f'{lid}-{i}', pos[i], relations=xrel[i]) for i in range(n) if xn >> i & 1]
        xs += [{'id': f'{lid}-{i}', 'external': True, 'relations': xrel[i]}
               for i in range(n) if not xn >> i & 1 and xrel[i]]
        ext = mk.lexicon(lid + 'x', extends={'id': lid, 'version': '1'}, synsets=xs)
        if g.get('scope') == 'base':
            edges = [e for e in edges if e not in in_x]
        return [base, ext], edges, {(j, i) for (i, j) in edges}
    syns = [mk.synset(f'{lid}-{i}', pos=pos[i], relations=rels[i]) for i in range(n)]
    return [mk.lexicon(lid, synsets=syns)], edges, hypo


def _ili(lid, i):
    return f'i{lid}x{i}'


def _name(ss, lid):
    if ss.id == '*INFERRED*':
        return int(ili_of(ss)[len(lid) + 2:])
    return Ref.ROOT if ss.id == '*ROOT*' else int(ss.id[len(lid) + 1:])


def _cycle_bound(ref):
    """nodes that lie on a directed cycle of length >= 2 or whose hypernym chains reach one"""
    adj = ref.adj

    def reach(i):
        seen, todo = set(), list(adj.get(i, ()))
        while todo:
            j = todo.pop()
            if j not in seen:
                seen.add(j)
                todo.extend(adj.get(j, ()))
        return seen
    r = {i: reach(i) for i in range(ref.n)}
    on_cycle = {i for i in r if i in r[i]}
    return {i for i in r if i in on_cycle or r[i] & on_cycle}


def _discover(ss, lid):
    """expanded mode: add the placeholder synsets that navigation from the real ones reaches"""
    todo = list(ss.values())
    while todo:
        x = todo.pop()
        st, v = budget.call(x.get_related, budget=4000)
        if st != 'ok':
            continue
        for y in v:
            k = _name(y, lid)
            if k not in ss:
                ss[k] = y
                todo.append(y)


def check_graph(lid, g, edges, hypo):
    """-> (violations, digest)"""
    V = []
    n = g['n'] * (2 if g.get('dup') else 1)
    ref = Ref(n, edges)
    expanded = 'real' in g
    if expanded:
        if g.get('mode') == 'default':
            # default mode: every installed lexicon is queried and every lexicon is an expand lexicon; the
            # graphs of one database do not share ILIs, so the graph seen from <lid>'s synsets is the same
            w = wn.Wordnet()
        else:
            w = wn.Wordnet(lexicon=f'{lid}:1 {lid}b:1' if g.get('split') else f'{lid}:1', expand=f'{lid}q:1')
        real = [i for i in range(g['n']) if g['real'] >> i & 1] + [i + g['n'] for i in range(g['n']) if g.get('dup', 0) >> i & 1]
        ss = {i: w.synset(f'{lid}-{i}') for i in real}
        _discover(ss, lid)
    elif 'ext' in g:
        both = g.get('scope') != 'base'
        if g.get('mode') == 'default':      # default mode: a synset sees its lexicon's extension family
            w = wn.Wordnet()
        else:
            w = wn.Wordnet(lexicon=f'{lid}:1 {lid}x:1' if both else f'{lid}:1')
        real = [i for i in range(n) if both or not g['ext']['nodes'] >> i & 1]
        ss = {i: w.synset(f'{lid}-{i}') for i in real}
    else:
        w = wn.Wordnet(lexicon=f'{lid}:1')
        real = list(range(n))
        ss = {i: w.synset(f'{lid}-{i}') for i in range(n)}
    nodes = sorted(ss)
    obs = []

    def bad(key, msg):
        V.append((key, f'{msg} graph={g}', None, g))

    def call(what, fn, *a, **kw):
        st, v = budget.call(fn, *a, budget=4000, **kw)
        if st == 'budget':
            bad(f'nontermination:{what}', f'{what} exceeded the step budget')
            return None, False
        if st == 'raise':
            return v, False
        return v, True

    pos = g.get('pos') or 'n' * n
    # per node
    for i in nodes:
        for sim in (False, True):
            v, ok = call('hypernym_paths', ss[i].hypernym_paths, simulate_root=sim)
            if v is None:
                continue
            if not ok:
                bad('hypernym_paths:raises', f'hypernym_paths({i},{sim}) raised {v!r}')
                continue
            got = sorted(tuple(_name(x, lid) for x in p) for p in v)
            exp = sorted(ref.paths_root(i) if sim else ref.paths(i), key=str)
            got = sorted(got, key=str)
            obs.append(got)
            if got != exp:
                bad('hypernym_paths:differs',
                    f'hypernym_paths({i},sim={sim}) = {got} expected {exp}')
            for nm, f, r in (('min_depth', tx.min_depth, ref.min_depth),
                             ('max_depth', tx.max_depth, ref.max_depth)):
                v, ok = call(nm, f, ss[i], simulate_root=sim)
                if v is None:
                    continue
                if not ok or v != r(i, sim):
                    bad(f'{nm}:differs', f'{nm}({i},sim={sim}) = {v!r} expected {r(i, sim)}')
    # roots / leaves / taxonomy_depth per pos
    has_hypo = {i for (i, j) in hypo}
    whole = g.get('mode') != 'default'      # a default-mode Wordnet holds every graph of the database
    for p in sorted(set(pos) | {'n'}) if whole else ():
        grp = {p} | ({'a', 's'} if p in 'as' else set())
        members = [i for i in real if pos[i] in grp]
        v, ok = call('roots', tx.roots, w, pos=p)
        if v is not None:
            got = sorted(_name(x, lid) for x in v) if ok else v
            exp = sorted(i for i in members if i not in ref.has_hyper)
            if got != exp:
                bad('roots:differs', f'roots(pos={p}) = {got!r} expected {exp}')
        v, ok = call('leaves', tx.leaves, w, pos=p)
        if v is not None:
            got = sorted(_name(x, lid) for x in v) if ok else v
            exp = sorted(i for i in members if i not in has_hypo)
            if got != exp:
                bad('leaves:differs', f'leaves(pos={p}) = {got!r} expected {exp}')
        v, ok = call('taxonomy_depth', tx.taxonomy_depth, w, p)
        if v is not None:
            exp = max((ref.max_depth(i) for i in members), default=0)
            obs.append(('td', p, v if ok else repr(v)))
            if not ok or v != exp:
                # the recorded finding: with a directed cycle (length >= 2) the 'all hypernyms seen' pruning skips
                # synsets whose own chains through or around the cycle are longer. Accepted only as an
                # under-report explained by synsets that lie on or reach such a cycle: the value must still
                # cover every other member (self-loops alone, or a cycle elsewhere in the graph, excuse nothing).
                cyc = _cycle_bound(ref)
                touched = [i for i in members if i in cyc]
                floor = max((ref.max_depth(i) for i in members if i not in cyc), default=0)
                if ok and touched and floor <= v < exp:
                    bad(K_CYCLIC_TD, f'taxonomy_depth({p}) = {v} expected {exp}')
                else:
                    bad('taxonomy_depth:differs', f'taxonomy_depth({p}) = {v!r} expected {exp}')
    # all-pos roots
    v, ok = call('roots', tx.roots, w) if whole else (None, False)
    if v is not None:
        got = sorted(_name(x, lid) for x in v) if ok else v
        exp = sorted(i for i in ref.roots() if i in real)
        if got != exp:
            bad('roots:differs', f'roots() = {got!r} expected {exp}')
    # pairs
    und = {(i, j) for (i, j) in edges} | {(j, i) for (i, j) in edges}
    rootset = ref.roots()
    # expanded mode: pairs over the stored synsets and every placeholder navigation reaches ("a is b" means
    # the same node of the graph, i.e. the same ILI for placeholders - the repository's tests pin '==' between
    # any two placeholder synsets, so the library cannot use '==' for that and the check does not either)
    pair_nodes = nodes if expanded else real
    for a in pair_nodes:
        for b in pair_nodes:
            for sim in (False, True):
                exp_c = ref.common(a, b, sim)
                v, ok = call('common_hypernyms', tx.common_hypernyms, ss[a], ss[b], simulate_root=sim)
                if v is not None:
                    got = sorted((_name(x, lid) for x in v), key=str) if ok else v
                    if got != sorted(exp_c, key=str):
                        bad('common_hypernyms:differs',
                            f'common_hypernyms({a},{b},sim={sim}) = {got!r} expected {sorted(exp_c, key=str)}')
                v, ok = call('lowest_common_hypernyms', ss[a].lowest_common_hypernyms, ss[b], simulate_root=sim)
                if v is not None:
                    if not ok:
                        bad('lowest_common_hypernyms:raises', f'lch({a},{b},{sim}) raised {v!r}')
                    else:
                        got = [_name(x, lid) for x in v]
                        obs.append(sorted(got, key=str))
                        if len(set(got)) != len(got):
                            bad('lowest_common_hypernyms:duplicates', f'lch({a},{b},{sim}) = {got}')
                        if ref.dag:
                            exp = ref.lch(a, b, sim)
                            if set(got) != exp:
                                bad('lowest_common_hypernyms:differs',
                                    f'lch({a},{b},sim={sim}) = {got} expected {sorted(exp, key=str)}')
                        else:
                            if not set(got) <= exp_c or bool(got) != bool(exp_c):
                                bad('lowest_common_hypernyms:not-common',
                                    f'lch({a},{b},sim={sim}) = {got} common = {sorted(exp_c, key=str)}')
                v, ok = call('shortest_path', tx.shortest_path, ss[a], ss[b], simulate_root=sim)
                if v is None:
                    continue
                exp_len = ref.sp_len(a, b, sim)
                shared = bool(ref.common(a, b, False)) or sim
                if not ok:
                    if not isinstance(v, wn.Error):
                        bad('shortest_path:raises-other', f'shortest_path({a},{b},{sim}) raised {v!r}')
                    elif shared:
                        bad('shortest_path:spurious-error',
                            f'shortest_path({a},{b},sim={sim}) raised although something is shared')
                    obs.append('E')
                    continue
                path = [_name(x, lid) for x in v]
                obs.append(len(path))
                if not shared:
                    bad('shortest_path:missing-error',
                        f'shortest_path({a},{b},sim={sim}) = {path} but nothing is shared')
                    continue
                if (not path) != (a == b):
                    bad('shortest_path:empty-iff-same', f'shortest_path({a},{b},{sim}) = {path}')
                if path and path[-1] != b:
                    bad('shortest_path:end', f'shortest_path({a},{b},{sim}) = {path} does not end at b')
                prev = a
                for cur in path:
                    if Ref.ROOT in (prev, cur):
                        other = cur if prev == Ref.ROOT else prev
                        if not sim or (ref.dag and other not in rootset) or prev == cur:
                            bad('shortest_path:not-genuine', f'shortest_path({a},{b},{sim}) = {path}')
                    elif (prev, cur) not in und or prev == cur:
                        bad('shortest_path:not-genuine',
                            f'shortest_path({a},{b},sim={sim}) = {path}: {prev}-{cur} not linked')
                    prev = cur
                if (not sim or ref.dag) and len(path) != exp_len:
                    bad('shortest_path:length',
                        f'len(shortest_path({a},{b},sim={sim})) = {len(path)} expected {exp_len}')
                # symmetry of length
                v2, ok2 = call('shortest_path', tx.shortest_path, ss[b], ss[a], simulate_root=sim)
                if v2 is not None and (not ok2 or len(v2) != len(path)):
                    bad('shortest_path:asymmetric',
                        f'len sp({a},{b})={len(path)} vs sp({b},{a})={v2 if not ok2 else len(v2)} sim={sim}')
    return V, runner.digest(obs)


def build_twin(lid, g):
    """two versions of one lexicon id with identical synset ids and ILIs but different hypernym edges"""
    n, prs = g['n'], pairs(g['n'], False)
    out = []
    for ver, h in (('1', g['h']), ('2', g['twin'])):
        edges = edges_of(h, prs)
        syns = [mk.synset(f'{lid}-{i}', 'n', _ili(lid, i),
                          relations=[mk.rel(f'{lid}-{j}', 'hypernym') for (a, j) in edges if a == i]
                          + [mk.rel(f'{lid}-{a}', 'hyponym') for (a, j) in edges if j == i]) for i in range(n)]
        out.append((mk.lexicon(lid, ver, synsets=syns), edges))
    return out


def check_twin(lid, g, built):
    """both versions in one Wordnet: every synset keeps the taxonomy of its own version, the Wordnet-level
    functions see the disjoint union"""
    V = []
    n = g['n']

    def bad(key, msg):
        V.append((key, f'{msg} graph={g}', None, g))
    w = wn.Wordnet(lexicon=f'{lid}:1 {lid}:2', expand='')
    refs = {ver: Ref(n, edges) for ver, (_, edges) in zip(('1', '2'), built)}
    by = {}
    for ss in w.synsets():
        by[(ss.lexicon().version, _name(ss, lid))] = ss
    if len(by) != 2 * n:
        bad('twin:synsets', f'{len(by)} synsets, expected {2 * n}')
        return V, 'x'
    obs = []
    for (ver, i), ss in sorted(by.items()):
        ref = refs[ver]
        st, v = budget.call(ss.hypernym_paths, budget=4000)
        got = sorted((tuple(_name(x, lid) for x in p) for p in v), key=str) if st == 'ok' else v
        if got != sorted(ref.paths(i), key=str):
            bad('twin:hypernym_paths', f'version {ver} node {i}: {got!r} expected {sorted(ref.paths(i), key=str)}')
        elif any(x.lexicon().version != ver for p in v for x in p):
            bad('twin:hypernym_paths:other-version', f'version {ver} node {i}: a path leaves the version')
        st, v = budget.call(tx.max_depth, ss, budget=4000)
        if st != 'ok' or v != ref.max_depth(i, False):
            bad('twin:max_depth', f'version {ver} node {i}: {v!r} expected {ref.max_depth(i, False)}')
        obs.append(got)
    exp = max(ref.max_depth(i, False) for ref in refs.values() for i in range(n))
    st, v = budget.call(tx.taxonomy_depth, w, 'n', budget=8000)
    if st != 'ok' or v != exp:
        bad('twin:taxonomy_depth', f'taxonomy_depth = {v!r} expected {exp} (the deeper of the two versions)')
    st, v = budget.call(tx.roots, w, budget=8000)
    exp_r = sorted((ver, i) for ver, ref in refs.items() for i in ref.roots())
    got_r = sorted((x.lexicon().version, _name(x, lid)) for x in v) if st == 'ok' else v
    if got_r != exp_r:
        bad('twin:roots', f'roots = {got_r!r} expected {exp_r}')
    for ver in ('1', '2'):
        for a in range(n):
            for b in range(n):
                st, v = budget.call(tx.shortest_path, by[(ver, a)], by[(ver, b)], budget=8000)
                ref = refs[ver]
                shared = bool(ref.common(a, b, False))
                if (st == 'ok') != shared:
                    bad('twin:shortest_path:error-rule', f'version {ver} ({a},{b}): {v!r} shared={shared}')
                elif st == 'ok' and len(v) != ref.sp_len(a, b, False):
                    bad('twin:shortest_path:length', f'version {ver} ({a},{b}): {len(v)} expected {ref.sp_len(a, b, False)}')
    return V, runner.digest(obs)


def check(case):
    """case = {'graphs': [g, ...]} with g = {n, loops, h, inst?, pos?, hypo?}"""
    env.fresh_db()
    gs = case['graphs']
    built = []
    lexs = []
    twins = []
    for k, g in enumerate(gs):
        lid = f'g{k}'
        if 'twin' in g:
            tw = build_twin(lid, g)
            twins.append((lid, g, tw))
            continue
        lex, edges, hypo = build_lexicon(lid, g)
        lexs.extend(lex)
        built.append((lid, g, edges, hypo))
    for lid, g, tw in twins:           # the second version of each pair is added after the first
        lexs.append(tw[0][0])
    env.add_resource(mk.resource([x for x in lexs if not x.get('extends')]))
    if any(x.get('extends') for x in lexs):
        env.add_resource(mk.resource([x for x in lexs if x.get('extends')]))
    if twins:
        env.add_resource(mk.resource([tw[1][0] for _, _, tw in twins]))
    V, digs, nt = [], [], 0
    for lid, g, tw in twins:
        v, d = check_twin(lid, g, tw)
        V.extend(v)
        nt += 1
        digs.append(d)
    for lid, g, edges, hypo in built:
        v, d = check_graph(lid, g, edges, hypo)
        V.extend(v)
        if g.get('h') or g.get('edges'):
            nt += 1
            digs.append(d)
    d = env.db_path().parent
    env.drop_db(d)
    return {'v': V, 'digs': digs, 'nt': nt, 'n': len(gs)}


def family_graphs(tier):
    """Structured DAG families beyond the exhaustive node bound, derived from the shape of the
    definitions: two chains x -> ... -> t <- ... <- y (lengths 0..3) where x, y and the inner nodes may
    have an extra hypernym that is a root of its own or a root shared with another node - the
    graphs on which a path through the simulated root, a second lowest common hypernym or a
    shortcut edge competes with the path through the real common hypernym."""
    out = []
    L = (0, 1, 2, 3)
    for la in L:
        for lb in L:
            if la + lb == 0:
                continue
            # nodes: t = 0, chain A = 1..la (x = la, or t if la == 0), chain B = la+1..la+lb
            a = list(range(1, la + 1))
            b = list(range(la + 1, la + lb + 1))
            edges = []
            prev = 0
            for v in a:
                edges.append((v, prev))
                prev = v
            x = prev
            prev = 0
            for v in b:
                edges.append((v, prev))
                prev = v
            y = prev
            n0 = 1 + la + lb
            cand = sorted({x, y} | (set(a[:1]) | set(b[:1]) if tier == 'thorough' else set()))
            opts = [()] + [(c,) for c in cand] + [(c, d) for c in cand for d in cand if c < d]
            for sh in opts:
                for shared in ((False, True) if len(sh) == 2 else (False,)):
                    e2 = list(edges)
                    n = n0
                    if shared:
                        for c in sh:
                            e2.append((c, n))
                        n += 1
                    else:
                        for c in sh:
                            e2.append((c, n))
                            n += 1
                    if n <= 4:
                        continue        # covered exhaustively
                    out.append({'n': n, 'edges': [list(e) for e in e2]})
    # two roots X, Y; a and b each reach both roots by chains of length 1 or 2: several lowest common
    # hypernyms of equal depth at different distances from the two synsets
    for pa, qa, pb, qb in itertools.product((1, 2), repeat=4):
        e2, n = [], 4          # X=0, Y=1, a=2, b=3
        for src, dst, ln in ((2, 0, pa), (2, 1, qa), (3, 0, pb), (3, 1, qb)):
            prev = src
            for _ in range(ln - 1):
                e2.append([prev, n])
                prev = n
                n += 1
            e2.append([prev, dst])
        out.append({'n': n, 'edges': e2})
    # shortcut edges on a chain: c0 -> c1 -> ... -> ck plus one skip edge
    for k in (4, 5):
        for i in range(k):
            for j in range(i + 2, k + 1):
                e2 = [[v, v + 1] for v in range(k)] + [[i, j]]
                out.append({'n': k + 1, 'edges': e2})
    return out


def space(tier, seed):
    gs = family_graphs(tier)
    # all labelled digraphs with self-loops, n <= 3, both hyponym-declaration modes
    for n in (1, 2, 3):
        for h in range(1 << (n * n)):
            gs.append({'n': n, 'loops': True, 'h': h})
    # edge typing: all 2-colourings for n <= 2, and for n = 3 on loop-free graphs
    for n in (1, 2):
        for h in range(1 << (n * n)):
            sub = h
            while sub:
                gs.append({'n': n, 'loops': True, 'h': h, 'inst': sub})
                sub = (sub - 1) & h
    for h in range(1 << 6):
        sub = h
        while sub:
            if tier == 'thorough' or bin(sub).count('1') == 1 or sub == h:
                gs.append({'n': 3, 'loops': False, 'h': h, 'inst': sub})
            sub = (sub - 1) & h
    # decoy relation types: these graphs come first, so that the first database a worker may see gives
    # 'hypernym' another lookup rowid than all the other databases do (types sorting before it are
    # inserted first) - a process-wide cache of lookup rowids would go stale
    gs = [{'n': 3, 'loops': False, 'h': h, 'decoy': True} for h in range(1, 1 << 6)] + gs
    # hyponym declaration modes (leaves read declared hyponyms)
    for mode in ('none', 'skew'):
        for n in (2, 3):
            for h in range(1 << (n * (n - 1))):
                gs.append({'n': n, 'loops': False, 'h': h, 'hypo': mode})
    # part-of-speech colourings (roots/leaves/taxonomy_depth, a/s merge)
    poss = ['nnv', 'asn', 'saa', 'ass', 'vna', 'sns', 'aas', 'nsa']
    if tier == 'thorough':
        from itertools import product
        poss = [''.join(p) for p in product('nasv', repeat=3)]
    else:
        poss = poss[:4] + [poss[4 + seed % 4]]
    for p in poss:
        for h in range(1 << 6):
            gs.append({'n': 3, 'loops': False, 'h': h, 'pos': p})
    # all loop-free labelled digraphs on 4 nodes
    for h in range(1 << 12):
        gs.append({'n': 4, 'loops': False, 'h': h})
    # expanded mode: the same digraphs stored in an expand lexicon and seen from a lexicon that has only
    # the first r nodes (by relabelling symmetry every subset of that size), the others being *INFERRED*
    # placeholders; start nodes are the real synsets and every placeholder navigation reaches
    for n in (1, 2, 3):
        for h in range(1 << (n * n)):
            for r in range(1, n + 1):
                gs.append({'n': n, 'loops': True, 'h': h, 'real': (1 << r) - 1})
    dags4 = set(dag_masks(4))
    for h in range(1 << 12):
        if tier == 'quick' and h not in dags4 and h % 8 != seed % 8:
            continue        # quick: all 4-node DAGs, every 8th cyclic graph (rotating with the seed)
        for r in ((1, 2, 3, 4) if tier == 'thorough' else (1, 2)):
            gs.append({'n': 4, 'loops': False, 'h': h, 'real': (1 << r) - 1})
    # the expanded and the extension form once more through a default-mode Wordnet() (all lexicons queried, all
    # lexicons expand lexicons, a synset sees its own lexicon's extension family)
    for n in (2, 3):
        for h in range(1 << (n * n)):
            for r in range(1, n + 1):
                gs.append({'n': n, 'loops': True, 'h': h, 'real': (1 << r) - 1, 'mode': 'default'})
    if tier == 'thorough':
        for h in range(1 << 12):
            for r in (1, 2, 3):
                gs.append({'n': 4, 'loops': False, 'h': h, 'real': (1 << r) - 1, 'mode': 'default'})
    # expanded mode with the stored synsets split over two queried lexicons (node 0 in one, node 1 - and
    # node 2 where it is stored - in the other): a placeholder reached from either lexicon is one node
    for h in range(1 << 9):
        gs.append({'n': 3, 'loops': True, 'h': h, 'real': 3, 'split': 2})
        gs.append({'n': 3, 'loops': True, 'h': h, 'real': 7, 'split': 6})
    for h in (dag_masks(4) if tier == 'quick' else range(1 << 12)):
        gs.append({'n': 4, 'loops': False, 'h': h, 'real': 3, 'split': 2})
    # two versions of one lexicon id (same synset ids and ILIs, different edges) selected together: all ordered
    # pairs of 3-node DAGs
    d3 = dag_masks(3)
    for h1 in d3:
        for h2 in d3:
            if h1 != h2:
                gs.append({'n': 3, 'loops': False, 'h': h1, 'twin': h2})
    # ... with node 0 stored in both queried lexicons (two local synsets for one ILI): a borrowed relation to
    # that ILI has both as targets
    for h in range(1 << 9):
        gs.append({'n': 3, 'loops': True, 'h': h, 'real': 3, 'split': 2, 'dup': 1})
    # ... and with the second lexicon being an extension of the first, queried together or in default mode
    for h in range(1 << 9):
        gs.append({'n': 3, 'loops': True, 'h': h, 'real': 3, 'split': 2, 'splitext': True})
        gs.append({'n': 3, 'loops': True, 'h': h, 'real': 3, 'split': 2, 'splitext': True, 'mode': 'default'})
        if tier == 'thorough':
            gs.append({'n': 3, 'loops': True, 'h': h, 'real': 7, 'split': 4, 'splitext': True, 'mode': 'default'})
    # extension mode: part of the graph (one node or none, one edge / all edges / none beyond the node's)
    # is contributed by a lexicon extension; seen with and without the extension in scope
    for n, hs in ((3, range(1, 1 << 6)), (4, dag_masks(4) if tier == 'quick' else range(1, 1 << 12))):
        for h in hs:
            ne = bin(h).count('1')
            for xn in (0, 1 << (n - 1)):
                for xe in sorted({0, (1 << ne) - 1} | ({1 << k for k in range(ne)} if n == 3 else {1})):
                    if not xn and not xe:
                        continue
                    for scope in ('both', 'base'):
                        gs.append({'n': n, 'loops': False, 'h': h, 'ext': {'nodes': xn, 'edges': xe}, 'scope': scope})
    if tier == 'thorough':
        for h in range(1 << 16):
            if any(h >> k & 1 for k in (0, 5, 10, 15)):   # the ones with >=1 self-loop
                gs.append({'n': 4, 'loops': True, 'h': h})
        for h in dag_masks(5):
            gs.append({'n': 5, 'loops': False, 'h': h})
    gs += [dict(g, mode='default') for g in gs if 'ext' in g and g['scope'] == 'both' and (g['n'] == 3 or tier == 'thorough')]
    return gs


def run(tier, seed, jobs=None):
    gs = space(tier, seed)
    cases = [{'graphs': gs[i:i + BATCH]} for i in range(0, len(gs), BATCH)]
    rule = ('every labelled hypernym digraph: n<=3 with self-loops; edge typings '
            'hypernym/instance_hypernym; hyponym-declaration modes; pos colourings; all '
            'loop-free digraphs on 4 nodes; the n<=3 graphs (r=1..n real nodes) and the 4-node DAGs + every 8th cyclic loop-free 4-node graph (r=1,2; thorough: all, r=1..4) again in expanded mode, split over two queried lexicons, through a default-mode Wordnet, and with part of the graph in a lexicon extension with *INFERRED* placeholders' +
            ('; all digraphs with self-loops on 4 nodes; all DAGs on 5 nodes' if tier == 'thorough' else '') +
            '. Each graph: every node, ordered pair, simulate_root value, every taxonomy function '
            'vs the plain-Python reference. Non-trivial = graph has >=1 edge; distinct = distinct '
            'observation digests (paths, depths, lch sets, path lengths).')
    return runner.run_space(
        PROP, tier, seed, cases, check, level='exploration', rule=rule, jobs=jobs, chunk=1,
        samples=[gs[5], gs[700], gs[-1]], recheck=_one,
        extra={'graphs': len(gs), 'bound': 'n<=4 (quick) / n<=4 with loops + DAGs n=5 (thorough)'},
        assumptions=['SQLite, CPython trusted', 'reference graph algorithms in wnmc/graphs.py',
                     'lowest_common_hypernyms and simulate_root distances compared exactly on DAGs only'])


def _one(c):
    return check(c if 'graphs' in c else {'graphs': [c]})


def replay(path):
    return runner.replay(PROP, path, _one)
