"""C18 - the validator always produces a report and each check is exact.

Engine E2: a valid base lexicon and a fault alphabet (each fault at every applicable
position), singly (quick) and in all ordered pairs (thorough) x every selection of check
codes; each report is compared with reference checks written from the documented
conditions; E204/E401 must imply rejection by add; CLI exit status."""
import contextlib
import copy
import json
import io
import itertools
import os
import runpy
import sys
from collections import Counter

import wn
from wn import validate as V_
from wn.constants import (SENSE_RELATIONS, SENSE_SYNSET_RELATIONS, SYNSET_RELATIONS,
                          REVERSE_RELATIONS)

from .. import env, mk, runner, xmlw, observe

PROP = 'C18'

MANIFEST = dict(
    category='exploration', design_ref='DESIGN.md §3 C18',
    technique='exhaustive enumeration of a fault alphabet x positions (single faults; all ordered pairs) x check selections on the real validator vs reference checks; add-rejection and CLI exit status cross-checked',
    text='A valid base lexicon (4 entries, 5 senses, 4 synsets, reciprocated relations) is damaged by each of ~40 faults (duplicate id of every kind, sense to a missing synset, dangling sense/synset relation target incl. a hypernym to a missing synset, synset relation targeting a sense, empty synset, entry without senses, redundant sense, redundant entry, repeated ILI, proposed ILI without definition, spurious ILIDefinition, blank definition/example, repeated definition, invalid relation type for each relation table, redundant relation with and without dc:type, missing reverse, hypernym part-of-speech clash, self-loops) at every applicable position, singly and (thorough) in every ordered pair. validate() must return (never raise) for every selection (each of the 18 codes, E, W, both, pairs of codes), the report keys must be exactly the selected codes in table order, and for every code the set of reported entities and their context must equal the reference check. Whenever E204 or E401 is reported, add_lexical_resource must raise and leave the exact table dump unchanged; the CLI exit status must be 1 exactly when some item is reported.',
    note='Reference checks are written from the module table and the check docstrings of wn.validate; the relation inventories and the table of reverse relations are read from docs/api/wn.constants.rst (the constants of the library must equal them); REVERSE_RELATIONS is additionally required to be an involution.',
)

def documented_inventories():
    """relation inventories as documented in docs/api/wn.constants.rst (the specification the W402 check
    refers to); {} if the file is not there"""
    import re
    from pathlib import Path
    p = Path(wn.__file__).resolve().parent.parent / 'docs' / 'api' / 'wn.constants.rst'
    if not p.exists():
        return {}
    out, cur = {}, None
    for line in p.read_text().splitlines():
        m = re.match(r'\.\. data:: (\w+)', line)
        if m:
            cur = m.group(1)
            out[cur] = set()
            continue
        m = re.match(r'\s+- ``([^`]+)``', line)
        if m and cur:
            out[cur].add(m.group(1))
        elif line and not line.startswith(' ') and not line.startswith('..'):
            cur = None if not line.startswith('-') else cur
    return {k: v for k, v in out.items() if v}


def documented_reverse_relations():
    """REVERSE_RELATIONS as documented (a Python dict literal in docs/api/wn.constants.rst); None if absent"""
    import ast
    import re
    from pathlib import Path
    p = Path(wn.__file__).resolve().parent.parent / 'docs' / 'api' / 'wn.constants.rst'
    if not p.exists():
        return None
    m = re.search(r'\.\. data:: REVERSE_RELATIONS.*?(\{.*?\})', p.read_text(), flags=re.S)
    try:
        return dict(ast.literal_eval(m.group(1))) if m else None
    except (ValueError, SyntaxError):
        return None


K_DOC_REVERSE = 'constants:documented-reverse-relations-also-pertainym-not-in-REVERSE_RELATIONS'
DOC = documented_inventories()
# the W404 reference uses the *documented* table of reverse relations (the library's own only if none is documented)
REVERSE_D = documented_reverse_relations() or dict(REVERSE_RELATIONS)
# entries that are documented but that the library does not have fall under a recorded finding; the W404
# reference leaves them out so that nothing else is absorbed
REVERSE_W404 = {k: v for k, v in REVERSE_D.items() if k not in ('also', 'pertainym') or k in REVERSE_RELATIONS}
SENSE_RELATIONS_D = DOC.get('SENSE_RELATIONS', set(SENSE_RELATIONS))
SENSE_SYNSET_RELATIONS_D = DOC.get('SENSE_SYNSET_RELATIONS', set(SENSE_SYNSET_RELATIONS))
SYNSET_RELATIONS_D = DOC.get('SYNSET_RELATIONS', set(SYNSET_RELATIONS))

CODES = ['E101', 'W201', 'W202', 'W203', 'E204', 'W301', 'W302', 'W303', 'W304', 'W305', 'W306', 'W307',
         'E401', 'W402', 'W403', 'W404', 'W501', 'W502']


def base():
    P = 'v-'
    return mk.lexicon('v', '1', entries=[
        mk.entry(P + 'e1', 'one', 'n', forms=[{'writtenForm': 'ones', 'id': P + 'f1'}],
                 senses=[mk.sense(P + 's1', P + 'ss1', relations=[mk.rel(P + 's3', 'antonym'),
                                                                   mk.rel(P + 'ss2', 'domain_topic')]),
                         mk.sense(P + 's2', P + 'ss2')]),
        mk.entry(P + 'e2', 'two', 'n', senses=[mk.sense(P + 's3', P + 'ss3', relations=[mk.rel(P + 's1', 'antonym')])]),
        mk.entry(P + 'e3', 'three', 'v', senses=[mk.sense(P + 's4', P + 'ss4', subcat=[P + 'fr1'])]),
        mk.entry(P + 'e4', 'four', 'n', senses=[mk.sense(P + 's5', P + 'ss1')]),
    ], synsets=[
        mk.synset(P + 'ss1', 'n', 'i1', definitions=['first'], examples=['ex one'],
                  relations=[mk.rel(P + 'ss2', 'hypernym')]),
        mk.synset(P + 'ss2', 'n', 'i2', definitions=['second'],
                  relations=[mk.rel(P + 'ss1', 'hyponym'), mk.rel(P + 'ss3', 'hyponym')]),
        mk.synset(P + 'ss3', 'n', 'in', ili_definition={'text': 'proposed one', 'meta': None},
                  definitions=['third'], relations=[mk.rel(P + 'ss2', 'hypernym')]),
        mk.synset(P + 'ss4', 'v', '', definitions=['fourth']),
    ], frames=[{'id': P + 'fr1', 'subcategorizationFrame': 'Somebody ----s'}])


# ---------------------------------------------------------------------------
# fault alphabet: name -> function(lex) mutating in place; raises LookupError if not applicable

def _entry(lex, eid):
    return next(e for e in lex['entries'] if e['id'] == eid)


def _sense(lex, sid):
    return next(s for e in lex['entries'] for s in e.get('senses', []) if s['id'] == sid)


def _synset(lex, ssid):
    return next(s for s in lex['synsets'] if s['id'] == ssid)


def _addrel(obj, r):
    obj.setdefault('relations', []).append(r)


def faults():
    F = {}
    P = 'v-'
    for eid in ('e1', 'e3'):
        F[f'dup-entry-id:{eid}'] = lambda L, eid=eid: L['entries'].append(
            mk.entry(P + eid, 'dup ' + eid, 'n', senses=[mk.sense(P + 'sx' + eid, P + 'ss2')]))
    for sid in ('s1', 's4'):
        F[f'dup-sense-id:{sid}'] = lambda L, sid=sid: _entry(L, P + 'e2')['senses'].append(mk.sense(P + sid, P + 'ss3'))
    for ssid in ('ss1', 'ss4'):
        F[f'dup-synset-id:{ssid}'] = lambda L, ssid=ssid: L['synsets'].append(mk.synset(P + ssid, 'n', ''))
    F['dup-form-id'] = lambda L: _entry(L, P + 'e2').setdefault('forms', []).append({'writtenForm': 'twos', 'id': P + 'f1'})
    F['dup-frame-id'] = lambda L: L['frames'].append({'id': P + 'fr1', 'subcategorizationFrame': 'Other'})
    F['id-equals-lexicon-id'] = lambda L: L['synsets'].append(mk.synset('v', 'n', ''))
    F['entry-id-equals-synset-id'] = lambda L: L['entries'].append(mk.entry(P + 'ss4', 'clash', 'n', senses=[mk.sense(P + 's9', P + 'ss2')]))
    for sid in ('s2', 's4'):
        F[f'sense-missing-synset:{sid}'] = lambda L, sid=sid: _sense(L, P + sid).__setitem__('synset', P + 'nope')
    for sid in ('s1', 's5'):
        F[f'sense-rel-dangling:{sid}'] = lambda L, sid=sid: _addrel(_sense(L, P + sid), mk.rel(P + 'nope', 'also'))
    for ssid in ('ss1', 'ss4'):
        F[f'synset-rel-dangling:{ssid}'] = lambda L, ssid=ssid: _addrel(_synset(L, P + ssid), mk.rel(P + 'nope', 'also'))
        F[f'hypernym-dangling:{ssid}'] = lambda L, ssid=ssid: _addrel(_synset(L, P + ssid), mk.rel(P + 'nope', 'hypernym'))
    F['synset-rel-to-sense'] = lambda L: _addrel(_synset(L, P + 'ss1'), mk.rel(P + 's2', 'also'))
    F['empty-synset'] = lambda L: L['synsets'].append(mk.synset(P + 'ss9', 'n', ''))
    F['empty-synset-with-stale-members'] = lambda L: L['synsets'].append(mk.synset(P + 'ss9', 'n', '', members=[P + 's1', P + 's2']))
    F['entry-without-senses'] = lambda L: L['entries'].append(mk.entry(P + 'e9', 'nine', 'n'))
    F['redundant-sense'] = lambda L: _entry(L, P + 'e1')['senses'].append(mk.sense(P + 's8', P + 'ss1'))
    F['redundant-entry'] = lambda L: L['entries'].append(mk.entry(P + 'e8', 'one', 'n', senses=[mk.sense(P + 's7', P + 'ss1')]))
    F['repeated-ili'] = lambda L: _synset(L, P + 'ss4').__setitem__('ili', 'i1')
    F['proposed-without-definition'] = lambda L: _synset(L, P + 'ss3').pop('ili_definition')
    F['in-on-second-synset-no-def'] = lambda L: _synset(L, P + 'ss4').__setitem__('ili', 'in')
    F['spurious-ili-definition'] = lambda L: _synset(L, P + 'ss1').__setitem__('ili_definition', {'text': 'x', 'meta': None})
    F['blank-definition'] = lambda L: _synset(L, P + 'ss2')['definitions'].append({'text': '   ', 'meta': None})
    F['empty-definition'] = lambda L: _synset(L, P + 'ss4')['definitions'].append({'text': '', 'meta': None})
    F['blank-example'] = lambda L: _synset(L, P + 'ss1')['examples'].append({'text': ' ', 'meta': None})
    F['repeated-definition'] = lambda L: _synset(L, P + 'ss4')['definitions'].append({'text': 'first', 'meta': None})
    F['invalid-type:sense-sense'] = lambda L: (_addrel(_sense(L, P + 's2'), mk.rel(P + 's4', 'hypernym')))
    F['invalid-type:sense-synset'] = lambda L: _addrel(_sense(L, P + 's2'), mk.rel(P + 'ss4', 'antonym'))
    F['invalid-type:synset'] = lambda L: _addrel(_synset(L, P + 'ss4'), mk.rel(P + 'ss1', 'antonym'))
    F['custom-type:synset'] = lambda L: _addrel(_synset(L, P + 'ss4'), mk.rel(P + 'ss1', 'x_custom'))
    F['redundant-relation:synset'] = lambda L: _addrel(_synset(L, P + 'ss1'), mk.rel(P + 'ss2', 'hypernym'))
    F['redundant-relation:sense'] = lambda L: _addrel(_sense(L, P + 's1'), mk.rel(P + 's3', 'antonym'))
    F['same-relation-other-dctype'] = lambda L: _addrel(_synset(L, P + 'ss1'), mk.rel(P + 'ss2', 'hypernym', {'type': 'p'}))
    F['redundant-with-dctype'] = lambda L: [_addrel(_synset(L, P + 'ss4'), mk.rel(P + 'ss1', 'also', {'type': 'p'})) for _ in (0, 1)]
    F['missing-reverse:synset'] = lambda L: _addrel(_synset(L, P + 'ss4'), mk.rel(P + 'ss1', 'hypernym'))
    F['missing-reverse:sense'] = lambda L: _addrel(_sense(L, P + 's2'), mk.rel(P + 's5', 'antonym'))
    F['two-missing-reverses-onto-one-target'] = lambda L: [_addrel(_synset(L, P + s), mk.rel(P + 'ss4', 'mero_part')) for s in ('ss1', 'ss2')]
    F['hypernym-pos-clash'] = lambda L: [_addrel(_synset(L, P + 'ss4'), mk.rel(P + 'ss2', 'hypernym')),
                                         _addrel(_synset(L, P + 'ss2'), mk.rel(P + 'ss4', 'hyponym'))]
    F['hypernym-of-synset-without-pos'] = lambda L: _synset(L, P + 'ss2').pop('partOfSpeech')
    F['self-loop:sense'] = lambda L: _addrel(_sense(L, P + 's2'), mk.rel(P + 's2', 'also'))
    F['self-loop:synset'] = lambda L: _addrel(_synset(L, P + 'ss4'), mk.rel(P + 'ss4', 'similar'))
    F['sense-rel-to-synset-valid'] = lambda L: _addrel(_sense(L, P + 's4'), mk.rel(P + 'ss1', 'exemplifies'))
    return F


FAULTS = faults()


# ---------------------------------------------------------------------------
# reference checks (entity id -> context)

def _multi(it):
    return {x: n for x, n in Counter(it).items() if n > 1}


def reference(lex):
    ents = lex.get('entries', [])
    syns = lex.get('synsets', [])
    senses = [(e, s) for e in ents for s in e.get('senses', [])]
    eids, sids, ssids = Counter(e['id'] for e in ents), Counter(s['id'] for _, s in senses), Counter(s['id'] for s in syns)
    srels = [(s, r) for _, s in senses for r in s.get('relations', [])]
    ssrels = [(ss, r) for ss in syns for r in ss.get('relations', [])]
    R = {}
    allids = [lex['id']] + [f['id'] for e in ents for f in e.get('forms', []) if f.get('id')] + \
        [f['id'] for f in lex.get('frames', []) if f.get('id')] + list(eids.elements()) + list(sids.elements()) + \
        list(ssids.elements())
    R['E101'] = {i: {'count': n} for i, n in _multi(allids).items()}
    R['W201'] = {e['id']: {} for e in ents if not e.get('senses')}
    R['W202'] = {}
    for e in ents:
        red = _multi(s['synset'] for s in e.get('senses', []))
        for s in e.get('senses', []):
            if s['synset'] in red:
                R['W202'][s['id']] = {'entry': e['id'], 'synset': s['synset']}
    # "redundant lexical entry with the same lemma and synset": two *entries*, not two senses of one entry (that
    # is W202) - written from the documented condition, not from the implementation
    R['W203'] = {form: {'synset': ss} for (form, ss) in _multi(
        (e['lemma']['writtenForm'], ssid) for e in ents for ssid in sorted({s['synset'] for s in e.get('senses', [])}))}
    R['E204'] = {s['id']: {'synset': s['synset']} for _, s in senses if s['synset'] not in ssids}
    used = {s['synset'] for _, s in senses}
    R['W301'] = {ss['id']: {} for ss in syns if ss['id'] not in used}
    rep = _multi(ss['ili'] for ss in syns if ss['ili'] and ss['ili'] != 'in')
    R['W302'] = {ss['id']: {'ili': ss['ili']} for ss in syns if ss['ili'] in rep}
    R['W303'] = {ss['id']: {} for ss in syns if ss['ili'] == 'in' and not ss.get('ili_definition')}
    R['W304'] = {ss['id']: None for ss in syns if ss['ili'] and ss['ili'] != 'in' and ss.get('ili_definition')}
    R['W305'] = {ss['id']: {} for ss in syns if any(d['text'].strip() == '' for d in ss.get('definitions', []))}
    R['W306'] = {ss['id']: {} for ss in syns if any(x['text'].strip() == '' for x in ss.get('examples', []))}
    repd = _multi(d['text'] for ss in syns for d in ss.get('definitions', []))
    R['W307'] = {ss['id']: {} for ss in syns if any(d['text'] in repd for d in ss.get('definitions', []))}
    R['E401'] = {}
    for s, r in srels:
        if r['target'] not in sids and r['target'] not in ssids:
            R['E401'][s['id']] = None
    for ss, r in ssrels:
        if r['target'] not in ssids:
            R['E401'][ss['id']] = None
    R['W402'] = {}
    for s, r in srels:
        if (r['target'] in sids and r['relType'] not in SENSE_RELATIONS_D) or \
                (r['target'] in ssids and r['relType'] not in SENSE_SYNSET_RELATIONS_D):
            R['W402'][s['id']] = None
    for ss, r in ssrels:
        if r['relType'] not in SYNSET_RELATIONS_D:
            R['W402'][ss['id']] = None
    red = _multi([(s['id'], r['relType'], r['target'], (r.get('meta') or {}).get('type')) for s, r in srels] +
                 [(ss['id'], r['relType'], r['target'], (r.get('meta') or {}).get('type')) for ss, r in ssrels])
    R['W403'] = {src: None for (src, _, _, _) in red}
    regular = {(s['id'], r['relType'], r['target']) for s, r in srels if r['target'] in sids}
    # a reverse relation can only be missing on an entity that exists (a dangling target is E401's business)
    regular |= {(ss['id'], r['relType'], r['target']) for ss, r in ssrels if r['target'] in ssids}
    R['W404'] = {}
    for (src, typ, tgt) in regular:
        if typ in REVERSE_W404 and (tgt, REVERSE_W404[typ], src) not in regular:
            R['W404'].setdefault(tgt, set()).add((REVERSE_W404[typ], src))
    pos = {ss['id']: ss.get('partOfSpeech') for ss in syns}
    R['W501'] = {}
    for ss, r in ssrels:
        if r['relType'] == 'hypernym' and r['target'] in pos and ss.get('partOfSpeech') != pos[r['target']]:
            R['W501'][ss['id']] = None
    R['W502'] = {x['id']: None for x, r in srels + ssrels if x['id'] == r['target']}
    return R


def selected(select):
    s = set(select)
    return [c for c in CODES if c in s or c[0] in s]


SELECTS = [('E', 'W'), ('E',), ('W',)] + [(c,) for c in CODES]


def mutate(names):
    L = base()
    for nme in names:
        FAULTS[nme](L)
    return L


def run_cli(path, select='E,W'):
    argv = sys.argv
    sys.argv = ['wn', 'validate', str(path), '--select', select]
    out, err = io.StringIO(), io.StringIO()
    code = None
    sys.stdout.flush()
    sys.stderr.flush()
    saved = os.dup(2)
    devnull = os.open(os.devnull, os.O_WRONLY)
    os.dup2(devnull, 2)          # ProgressBar holds the original sys.stderr object
    try:
        with contextlib.redirect_stdout(out), contextlib.redirect_stderr(err):
            try:
                runpy.run_module('wn', run_name='__main__', alter_sys=True)
            except SystemExit as exc:
                code = exc.code
            except Exception as exc:      # noqa: BLE001
                code = f'raised {type(exc).__name__}'
    finally:
        sys.argv = argv
        sys.stderr.flush()
        os.dup2(saved, 2)
        os.close(saved)
        os.close(devnull)
    return code, out.getvalue()


def check(case):
    V, digs = [], []
    n = 0
    d = env.new_dir('c18')
    env.fresh_db()
    dbdir = env.db_path().parent
    other = mk.lexicon('zz', '1', entries=[mk.entry('zz-e', 'z', 'n', senses=[mk.sense('zz-s', 'zz-ss')])],
                       synsets=[mk.synset('zz-ss', 'n', 'i1')])
    env.add_resource(mk.resource([other], '1.3'))
    snap = env.snapshot()
    pre = observe.exact_dump(env.db_path())
    try:
        for names in case['faults']:
            try:
                L = mutate(names)
            except (StopIteration, KeyError, LookupError):
                continue
            ref = reference(L)
            one = {'faults': [names], 'selects': case['selects'], 'cli': case.get('cli')}
            tag = '+'.join(names) or 'valid base'
            keep = copy.deepcopy(L)
            for sel in case['selects']:
                n += 1
                try:
                    rep = V_.validate(copy.deepcopy(L), select=sel, progress_handler=None)
                except Exception as exc:      # noqa: BLE001
                    in_wn, site = runner.exc_site(exc)
                    V.append((f'validate:raises:{type(exc).__name__}@{site}', f'validate({tag}, select={sel}) raised {exc!r}', None, one))
                    continue
                want = selected(sel)
                if list(rep) != want:
                    V.append(('report:keys', f'validate({tag}, select={sel}) keys {list(rep)} expected {want}', None, one))
                    continue
                for code in want:
                    items = rep[code].get('items')
                    if not isinstance(items, dict) or not rep[code].get('message'):
                        V.append(('report:shape', f'{code} entry {rep[code]!r}', None, one))
                        continue
                    if set(items) != set(ref[code]):
                        miss, extra = set(ref[code]) - set(items), set(items) - set(ref[code])
                        V.append((f'{code}:' + ('misses' if miss else '') + ('spurious' if extra else ''),
                                  f'{code} on [{tag}] reports {sorted(items)} expected {sorted(ref[code])}', None, one))
                        continue
                    for k, ctx in ref[code].items():
                        if isinstance(ctx, dict) and items[k] != ctx:
                            V.append((f'{code}:context', f'{code} on [{tag}]: {k} -> {items[k]} expected {ctx}', None, one))
                        if isinstance(ctx, set) and (items[k].get('type'), items[k].get('target')) not in ctx:
                            V.append((f'{code}:context', f'{code} on [{tag}]: {k} -> {items[k]} expected one of {sorted(ctx)}', None, one))
                digs.append(runner.digest([sel, [(c, sorted(rep[c]['items'])) for c in want]]))
            # E204 / E401 => add must reject and change nothing
            if ref['E204'] or ref['E401']:
                env.restore(snap)
                n += 1
                raised = False
                try:
                    env.add_resource(mk.resource([copy.deepcopy(L)], '1.3'))
                except Exception:       # noqa: BLE001
                    raised = True
                env.close_pool()
                if not raised:
                    V.append(('add:accepts-E204/E401-lexicon', f'[{tag}] E204={sorted(ref["E204"])} E401={sorted(ref["E401"])} '
                              f'but add_lexical_resource did not raise', None, one))
                if observe.exact_dump(env.db_path()) != pre:
                    V.append(('add:changes-db-on-E204/E401-lexicon', f'[{tag}]', None, one))
            # CLI exit status
            if case.get('cli'):
                n += 1
                f = env.write_file('v.xml', xmlw.serialize(mk.resource([L], '1.3')), d)
                code, out = run_cli(f)
                anyitem = any(ref[c] for c in CODES)
                if code != (1 if anyitem else 0):
                    V.append(('cli:exit-status', f'[{tag}] exit status {code!r}, items reported: {anyitem}; output {out[:200]!r}', None, one))
                # several lexicons in one file: the status is 1 iff any of them has an item
                clean = mk.lexicon('vc', '1', entries=[mk.entry('vc-e', 'c', 'n', senses=[mk.sense('vc-s', 'vc-ss')])],
                                   synsets=[mk.synset('vc-ss', 'n', '', definitions=['clean'])])
                for layout, lexs in (('faulty-clean', [L, clean]), ('clean-faulty', [clean, L]),
                                     ('faulty-clean-clean', [L, clean, dict(copy.deepcopy(clean), version='2')])):
                    n += 1
                    lx2 = copy.deepcopy(lexs)
                    if len(lx2) == 3:
                        # ids must stay unique in the file
                        third = mk.lexicon('vd', '1', entries=[mk.entry('vd-e', 'd', 'n', senses=[mk.sense('vd-s', 'vd-ss')])],
                                           synsets=[mk.synset('vd-ss', 'n', '', definitions=['clean too'])])
                        lx2[2] = third
                    f2 = env.write_file(f'v-{layout}.xml', xmlw.serialize(mk.resource(lx2, '1.3')), d)
                    code, out = run_cli(f2)
                    if code != (1 if anyitem else 0):
                        V.append((f'cli:exit-status:multi-lexicon:{layout}', f'[{tag}] exit status {code!r}, items reported: '
                                  f'{anyitem}; output {out[:200]!r}', None, one))
        return {'v': V, 'digs': set(digs), 'nt': len(set(digs)), 'n': n}
    finally:
        env.drop_db(dbdir)
        import shutil
        shutil.rmtree(d, ignore_errors=True)


def space(tier, seed):
    names = list(FAULTS)
    cases = []
    singles = [[]] + [[nme] for nme in names]
    sel_all = SELECTS + ([tuple(p) for p in itertools.combinations(CODES, 2)] if tier == 'thorough' else
                         [(CODES[(i + seed) % 18], CODES[(2 * i + 5 + seed) % 18]) for i in range(6)])
    for i in range(0, len(singles), 6):
        cases.append({'faults': singles[i:i + 6], 'selects': [list(s) for s in sel_all], 'cli': True})
    pairs = [[a, b] for a in names for b in names if a != b]
    if tier == 'quick':
        pairs = [p for i, p in enumerate(pairs) if i % 6 == seed % 6]
    sel_pairs = [list(s) for s in SELECTS[:3]]
    for i in range(0, len(pairs), 40):
        cases.append({'faults': pairs[i:i + 40], 'selects': sel_pairs, 'cli': tier == 'thorough' and i % 400 == 0})
    return cases


def run(tier, seed, jobs=None):
    # REVERSE_RELATIONS must be an involution (anchor: constants.py)
    bad = [k for k, v in REVERSE_RELATIONS.items() if REVERSE_RELATIONS.get(v) != k]
    cases = space(tier, seed)
    rule = (f'{len(FAULTS)} faults on the valid base: all single faults x (E,W), E, W, each of 18 codes, code pairs; '
            'ordered fault pairs (quick: every 6th, rotating; thorough: all) x (E,W)/E/W; add-rejection for E204/E401; '
            'CLI exit status. evaluations = validate/add/CLI calls; distinct = distinct (selection, reported-entity) outcomes.')
    rc = runner.run_space(PROP, tier, seed, cases, check, rule=rule, jobs=jobs, chunk=1, recheck=check,
                          samples=[cases[0]['faults'][1], cases[-1]['faults'][0]],
                          extra={'faults': len(FAULTS), 'reverse_relations_involution': not bad})
    problems = []
    if bad:
        problems.append(f'REVERSE_RELATIONS is not an involution: {bad}')
    for name, have in (('SENSE_RELATIONS', SENSE_RELATIONS), ('SENSE_SYNSET_RELATIONS', SENSE_SYNSET_RELATIONS),
                       ('SYNSET_RELATIONS', SYNSET_RELATIONS)):
        if name in DOC and set(have) != DOC[name]:
            problems.append(f'wn.constants.{name} differs from the documented inventory: missing '
                            f'{sorted(DOC[name] - set(have))}, undocumented {sorted(set(have) - DOC[name])}')
    delta = sorted(set(REVERSE_RELATIONS.items()) ^ set(REVERSE_D.items()))
    from .. import findings
    known = findings.load().get(PROP, {})
    if delta == [('also', 'also'), ('pertainym', 'pertainym')] and K_DOC_REVERSE in known:
        print(f'KNOWN-FINDING: property={PROP} key={K_DOC_REVERSE} {known[K_DOC_REVERSE]}')
    elif delta:
        problems.append(f'wn.constants.REVERSE_RELATIONS differs from the documented table: {delta[:6]}')
    unknown = sorted(k for k in REVERSE_RELATIONS if k not in set(SENSE_RELATIONS) | set(SYNSET_RELATIONS))
    if unknown:
        problems.append(f'REVERSE_RELATIONS mentions relation types in no inventory: {unknown}')
    if problems:
        rp = runner.VERIF / 'replays' / PROP
        rp.mkdir(parents=True, exist_ok=True)
        (rp / 'constants.json').write_text(json.dumps({'property': PROP, 'key': 'constants', 'problems': problems}, indent=1))
        print(f'VIOLATION property={PROP} replay={rp / "constants.json"}')
        for pr in problems:
            print('  ' + pr)
        return 1
    return rc


def replay(path):
    return runner.replay(PROP, path, check)
