"""C20 - invalid WN-LMF is rejected as a whole; scans agree with full loads.

Engine E2 (mutation alphabet): every single-fault mutation of generated valid documents
at every position (required attribute removed, unknown / other-version element inserted,
single-valued child duplicated, tag line dropped or mismatched, header altered) must be
rejected by load() and by add() without any change to the database; valid re-stylings
must be accepted and load equal; is_lmf() <=> load() accepts the header;
scan_lexicons() == the ids/versions/labels/bases of load()."""
import copy
import re

import wn
from wn import lmf

from .. import env, runner, docgen, xmlw, docs, observe
from ..refmodel import diff

PROP = 'C20'

MANIFEST = dict(
    category='exploration', design_ref='DESIGN.md §3 C20, §9.5',
    technique='exhaustive single-fault mutation of generated WN-LMF documents at every position, run through the real load/add/is_lmf/scan_lexicons, with a byte-exact unchanged-database oracle',
    text='For minimal, maximal and extension documents of every LMF version, every position-wise single-fault mutant of the must-reject classes named by the property is fed to lmf.load and to wn.add (on a database that already holds a lexicon; the exact table dump must be unchanged and the library usable afterwards); every valid re-styling must load to the same resource; is_lmf is compared with the header stage of load on every header variant; scan_lexicons is compared with load on every styling and on lexicon attribute payloads (quotes, escapes, apostrophes, angle brackets); block-boundary sweeps place a (single- or multi-line) lexicon start tag at every byte offset around power-of-two boundaries (4 KiB ... 1 MiB) and cut documents off at exact multiples of such sizes, so that buffered scanning or parsing cannot hide a lexicon or accept a truncated file. Exhaustive over the mutation alphabet x positions and over the stated offsets.',
    note='Wrong nesting of otherwise known elements and DTD validity beyond what the property lists are not checked. Header variants the property does not classify (BOM, lower-case encoding name) are only required to be treated consistently by is_lmf and load.',
)

REQUIRED = {
    'Lexicon': ['id', 'version', 'label', 'language', 'email', 'license'],
    'LexiconExtension': ['id', 'version', 'label', 'language', 'email', 'license'],
    'Requires': ['id', 'version'], 'Extends': ['id', 'version'],
    'LexicalEntry': ['id'], 'ExternalLexicalEntry': ['id'],
    'Lemma': ['writtenForm', 'partOfSpeech'], 'Form': ['writtenForm'], 'ExternalForm': ['id'],
    'Tag': ['category'], 'Sense': ['id', 'synset'], 'ExternalSense': ['id'],
    'SenseRelation': ['target', 'relType'], 'SynsetRelation': ['target', 'relType'],
    'Synset': ['id', 'ili'], 'ExternalSynset': ['id'],
    'SyntacticBehaviour': ['subcategorizationFrame'],
}
SINGLE = ['Lemma', 'ExternalLemma', 'ILIDefinition', 'Extends']
NEW_ELEMS = ['<Requires id="zz" version="1"/>', '<Pronunciation>x</Pronunciation>',
             '<ExternalSynset id="zz-x"/>',
             # (zz:2 is the lexicon installed before every add: the pre-scan finds the "base" available, so the
             # document is parsed and add() must raise - zz:1 is not installed, that case falls under the finding)
             '<Extends id="zz" version="2"/>', '<Extends id="zz" version="1"/>']
_TAG = re.compile(r'^\s*<(/?)([A-Za-z]+)')


def mutants(xml, version):
    """yield (kind, description, mutated text) - all must be rejected"""
    lines = xml.split('\n')
    for i, ln in enumerate(lines):
        if i < 2:
            continue
        m = _TAG.match(ln)
        if not m:
            continue
        closing, tag = m.group(1), m.group(2)
        stripped = ln.strip()
        pure_open = not closing and stripped.endswith('>') and not stripped.endswith('/>') \
            and f'</{tag}>' not in stripped
        pure_close = bool(closing)
        text_elem = not closing and f'</{tag}>' in stripped
        if pure_open or pure_close:
            yield ('unbalanced', f'line {i} {stripped[:40]} dropped',
                   '\n'.join(lines[:i] + lines[i + 1:]))
        if text_elem:
            yield ('mismatch', f'line {i} end tag renamed',
                   '\n'.join(lines[:i] + [ln.replace(f'</{tag}>', '</Oops>')] + lines[i + 1:]))
        if not closing:
            for a in REQUIRED.get(tag, ()):
                new = re.sub(rf'\s{a}="[^"]*"', '', ln, count=1)
                if new != ln:
                    yield (f'required:{tag}@{a}', f'line {i}: {tag}@{a} removed',
                           '\n'.join(lines[:i] + [new] + lines[i + 1:]))
            # rename the element to an unknown name (self-closed or text elements only)
            if stripped.endswith('/>') or text_elem:
                new = ln.replace(f'<{tag}', '<Unknown', 1).replace(f'</{tag}>', '</Unknown>')
                yield ('unknown-element', f'line {i}: {tag} renamed to Unknown',
                       '\n'.join(lines[:i] + [new] + lines[i + 1:]))
            if tag in SINGLE and (stripped.endswith('/>') or text_elem):
                yield (f'duplicate:{tag}', f'line {i}: {tag} duplicated',
                       '\n'.join(lines[:i + 1] + [ln] + lines[i + 1:]))
            if tag in SINGLE:
                # the repeated child as a bare element (no attributes, no content) in front of the real one
                yield (f'duplicate-bare-first:{tag}', f'line {i}: bare <{tag}/> inserted before the {tag} element',
                       '\n'.join(lines[:i] + [f'<{tag}/>'] + lines[i:]))
        if pure_open and tag not in ('Lemma', 'ExternalLemma', 'Form', 'ExternalForm'):
            yield ('unknown-element', f'<Foo/> inserted after line {i}',
                   '\n'.join(lines[:i + 1] + ['<Foo/>'] + lines[i + 1:]))
            if version == '1.0':
                for el in NEW_ELEMS:
                    yield ('other-version-element', f'{el} inserted after line {i} of a 1.0 document',
                           '\n'.join(lines[:i + 1] + [el] + lines[i + 1:]))
    # whole 1.1-style body under a 1.0 header is covered by the insertions above


def header_variants(version):
    """(name, [line1, line2, (extra lines)], class) class: accept | reject | either"""
    h = xmlw.header(version)
    dtd = f'http://globalwordnet.github.io/schemas/WN-LMF-{version}.dtd'
    return [
        ('plain', h, 'accept'),
        ('single-quotes', [h[0].replace('"', "'"), h[1].replace('"', "'")], 'accept'),
        ('trailing-space', [h[0] + '  ', h[1] + ' '], 'accept'),
        ('crlf', [h[0] + '\r', h[1] + '\r'], 'accept'),
        ('no-xmldecl', [h[1]], 'reject'),
        ('no-doctype', [h[0]], 'reject'),
        ('no-header', [], 'reject'),
        ('doctype-line3', [h[0], '', h[1]], 'either'),
        ('comment-line2', [h[0], '<!-- c -->', h[1]], 'either'),
        ('version-1.4', [h[0], h[1].replace(f'-{version}.dtd', '-1.4.dtd')], 'reject'),
        ('version-0.9', [h[0], h[1].replace(f'-{version}.dtd', '-0.9.dtd')], 'reject'),
        ('other-dtd', [h[0], '<!DOCTYPE LexicalResource SYSTEM "http://example.org/other.dtd">'], 'reject'),
        ('doctype-html', [h[0], '<!DOCTYPE html>'], 'reject'),
        ('lower-encoding', [h[0].replace('UTF-8', 'utf-8'), h[1]], 'either'),
        ('latin1', [h[0].replace('UTF-8', 'ISO-8859-1'), h[1]], 'either'),
        ('no-encoding', ['<?xml version="1.0"?>', h[1]], 'either'),
        ('bom', ['﻿' + h[0], h[1]], 'either'),
        ('leading-blank', ['', h[0], h[1]], 'reject'),        # the XML declaration is not at the start
        ('xml-1.1', [h[0].replace('version="1.0"', 'version="1.1"'), h[1]], 'either'),
        ('https-dtd', [h[0], h[1].replace('http://', 'https://')], 'reject'),       # not a supported DOCTYPE
        ('public-doctype', [h[0], f'<!DOCTYPE LexicalResource PUBLIC "x" "{dtd}">'], 'reject'),
        # bytes that are not UTF-8 on the second line (written through surrogateescape): not a WN-LMF file
        ('non-utf8-line2', [h[0], '<!-- caf\udce9 -->', h[1]], 'reject'),
        ('non-utf8-doctype', [h[0], h[1].replace('LexicalResource', 'Lexical\udce9Resource')], 'reject'),
    ]


K_PRESCAN = 'add:no-exception-when-prescan-finds-nothing-to-add'
_LEXTAG = re.compile(r'<(Lexicon|LexiconExtension|Extends)\b((?:[^>"\']|"[^"]*"|\'[^\']*\')*)>')
_ATTR = re.compile(r'([^\s=]+)\s*=\s*(?:"([^"]*)"|\'([^\']*)\')')


def nothing_to_add(text, installed):
    """harness-side reading of the mutant: would a pre-scan find any lexicon that is neither
    installed already nor an extension of a missing base?  (only used to classify the
    recorded finding 'add() returns silently'; never to excuse a changed database)"""
    lexs = []
    for m in _LEXTAG.finditer(text):
        at = {a.group(1): (a.group(2) if a.group(2) is not None else a.group(3))
              for a in _ATTR.finditer(m.group(2))}
        spec = f"{at.get('id')}:{at.get('version')}"
        if m.group(1) == 'Extends':
            if lexs:
                lexs[-1][1] = spec
        else:
            lexs.append([spec, None])
    return all(sp in installed or (base is not None and base not in installed) for sp, base in lexs)


_BASE_SNAP = {}


def _base_snapshot():
    """database holding one unrelated lexicon (so that 'unchanged' is not vacuous)"""
    if 'snap' not in _BASE_SNAP:
        env.fresh_db()
        other = docs.second_lexicon('1.0', 'zz')
        env.add_resource({'lmf_version': '1.0', 'lexicons': [other]})
        _BASE_SNAP['snap'] = env.snapshot()
        env.drop_db(env.db_path().parent)
    return _BASE_SNAP['snap']


def _doc_xml(case):
    b = docgen.build(case)
    return b, xmlw.serialize(b['resource'], raw_text=b['raw_text'])


def _scan_expect(resource):
    out = []
    for lex in resource['lexicons']:
        ext = lex.get('extends')
        out.append({'id': lex['id'], 'version': lex['version'], 'label': lex['label'],
                    'extends': {'id': ext['id'], 'version': ext['version']} if ext else None})
    return out


def check(case):
    kind = case['c']
    d = env.new_dir('c20')
    try:
        if kind == 'mutants':
            return check_mutants(case, d)
        if kind == 'header':
            return check_headers(case, d)
        if kind == 'scan':
            return check_scan(case, d)
        if kind == 'boundary':
            return check_boundary(case, d)
        raise ValueError(kind)
    finally:
        import shutil
        env.close_pool()
        shutil.rmtree(d, ignore_errors=True)


def check_mutants(case, d):
    """case: {'c':'mutants', 'doc': <docgen case>, 'lo': i, 'hi': j}"""
    b, xml = _doc_xml(case['doc'])
    v = case['doc']['v']
    V, digs = [], []
    ms = list(mutants(xml, v))[case['lo']:case['hi']]
    snap = _base_snapshot()
    dbdir = env.fresh_db()
    env.restore(snap)
    pre_files = []
    for i, pre in enumerate(b['pre']):
        pf = env.write_file(f'pre{i}.xml', xmlw.serialize(pre), d)
        env.add(pf)
    before = observe.exact_dump(env.db_path())
    installed = {f'{r[1]}:{r[6]}' for r in before['lexicons']}
    for (mk, desc, text) in ms:
        f = env.write_file('m.xml', text, d)
        one = {'c': 'mutants', 'doc': case['doc'], 'only': desc}
        try:
            lmf.load(f, progress_handler=None)
            V.append((f'load:accepts:{mk}', f'load() accepted an invalid document: {desc}', None, one))
        except Exception as exc:   # noqa: BLE001  any exception is a rejection
            digs.append(mk + type(exc).__name__)
        raised = False
        try:
            env.add(f)
        except Exception:          # noqa: BLE001
            raised = True
        env.close_pool()
        after = observe.exact_dump(env.db_path())
        if not raised:
            if nothing_to_add(text, installed):
                V.append((K_PRESCAN, f'add() returned without an exception (database unchanged): {desc}', None, one))
            else:
                V.append((f'add:accepts:{mk}', f'add() did not raise on an invalid document: {desc}', None, one))
        if after != before:
            V.append((f'add:changes-db:{mk}', f'database changed by a rejected document: {desc}; '
                      f'{diff(after, before)[:2]}', None, one))
            env.restore(snap)
            for i, pre in enumerate(b['pre']):
                env.add(d / f'pre{i}.xml')
            before = observe.exact_dump(env.db_path())
    # library still usable: the valid document is added normally afterwards
    f = env.write_file('ok.xml', xml, d)
    ok, err = runner.guarded(env.add, f)
    if not ok:
        V.append(('add:unusable-after-rejections', f'valid add after rejected documents raised {err}'))
    else:
        specs = {lx.specifier() for lx in wn.lexicons()}
        want = {f"{x['id']}:{x['version']}" for x in b['resource']['lexicons']}
        if not want <= specs:
            V.append(('add:unusable-after-rejections', f'valid add afterwards installed {specs}, wanted {want}'))
    env.drop_db(dbdir)
    return {'v': V, 'digs': digs, 'nt': len(ms), 'n': len(ms)}


def check_headers(case, d):
    b, xml = _doc_xml(case['doc'])
    v = case['doc']['v']
    body = '\n'.join(xml.split('\n')[2:])
    V, digs = [], []
    for name, hdr, cls in header_variants(v):
        text = '\n'.join(hdr + [body])
        f = env.write_file('h.xml', text.encode('utf-8', 'surrogateescape'), d)
        try:
            il = lmf.is_lmf(f)
        except Exception as exc:     # noqa: BLE001
            V.append((f'is_lmf:raises:{name}', f'header {name}: is_lmf raised {exc!r} instead of answering'))
            il = False
        try:
            L = lmf.load(f, progress_handler=None)
            loaded = True
        except Exception:     # noqa: BLE001
            loaded = False
            L = None
        digs.append(f'{name}{il}{loaded}')
        if il != loaded:
            V.append((f'is_lmf:disagrees-with-load:{name}', f'header {name}: is_lmf={il} load ok={loaded}'))
        if cls == 'accept' and not loaded:
            V.append((f'header:valid-rejected:{name}', f'valid header variant {name} rejected'))
        if cls == 'reject' and loaded:
            V.append((f'header:invalid-accepted:{name}', f'invalid header variant {name} accepted'))
        if loaded and L != b['resource']:
            V.append((f'header:load-differs:{name}', f'{diff(L, b["resource"])[:2]}'))
        if loaded:
            try:
                sc = lmf.scan_lexicons(f)
            except Exception as exc:    # noqa: BLE001
                sc = repr(exc)
            if sc != _scan_expect(b['resource']):
                V.append((f'scan:differs:{name}', f'scan_lexicons={sc} load={_scan_expect(b["resource"])}'))
    return {'v': V, 'digs': digs, 'nt': len(digs), 'n': len(digs)}


def check_scan(case, d):
    """valid re-stylings and lexicon-attribute payloads: load equal, scan == load"""
    b = docgen.build(case['doc'])
    R = copy.deepcopy(b['resource'])
    for *path, val in case.get('set', []):
        docs.set_path(R['lexicons'][path[0]], tuple(path[1:]), val)
    st = xmlw.Style(**case.get('style', {}))
    text = xmlw.serialize(R, st)
    f = env.write_file('s.xml', text, d)
    V = []
    ok, L = runner.guarded(lmf.load, f, progress_handler=None)
    if not ok:
        return {'v': [(f'load:valid-rejected', f'valid document rejected: {L}')], 'd': 'x'}
    exp = R
    if case.get('style', {}).get('explicit_defaults'):
        from .c02 import with_defaults
        exp = with_defaults(R)
    if L != exp:
        V.append(('load:differs', f'{diff(L, exp)[:2]}'))
    try:
        sc = lmf.scan_lexicons(f)
    except Exception as exc:        # noqa: BLE001
        sc = f'{type(exc).__name__}: {exc}'
    want = _scan_expect(R)
    if sc != want:
        fields = set()
        if isinstance(sc, list) and len(sc) == len(want):
            for a, w in zip(sc, want):
                fields |= {k for k in w if a.get(k) != w[k]}
        else:
            fields = {'shape'}
        for fld in sorted(fields):
            V.append((f'scan:differs:{fld}', f'scan_lexicons={sc} but load gives {want}'))
    if not lmf.is_lmf(f):
        V.append(('is_lmf:valid-rejected', 'is_lmf false for a valid document'))
    # the pre-scan must not break add() of a valid file
    if case.get('add'):
        env.fresh_db()
        for i, pre in enumerate(b['pre']):
            env.add(env.write_file(f'pre{i}.xml', xmlw.serialize(pre), d))
        ok, err = runner.guarded(env.add, f)
        if not ok:
            V.append((f'add:valid-rejected:{err[0]}@{err[1]}', f'wn.add of a valid file raised {err}'))
        else:
            specs = {lx.specifier() for lx in wn.lexicons()}
            want_specs = {f"{x['id']}:{x['version']}" for x in R['lexicons']}
            if not want_specs <= specs:
                V.append(('add:valid-not-installed', f'installed {sorted(specs)} wanted {sorted(want_specs)}'))
        env.drop_db(env.db_path().parent)
    return {'v': V, 'd': runner.digest(repr(sc))}


def _lex_tag(lid, style):
    attrs = [('id', lid), ('label', f'Lexicon {lid}'), ('language', 'en'), ('email', f'{lid}@example.org'),
             ('license', 'https://example.org/l'), ('version', '1'), ('url', 'https://example.org/' + lid)]
    if style == 'multi':      # one attribute per line, as lmf.dump writes it
        return '  <Lexicon ' + '\n           '.join(f'{k}="{v}"' for k, v in attrs) + '>'
    return '  <Lexicon ' + ' '.join(f'{k}="{v}"' for k, v in attrs) + '>'


def _lex_body(lid, n=2):
    return ''.join(f'    <LexicalEntry id="{lid}-e{i}"><Lemma writtenForm="w{i}" partOfSpeech="n"/>'
                   f'<Sense id="{lid}-s{i}" synset="{lid}-ss{i}"/></LexicalEntry>\n'
                   f'    <Synset id="{lid}-ss{i}" ili="" partOfSpeech="n"/>\n' for i in range(n))


def _filler(nbytes, kind):
    """exactly nbytes of valid filler placed inside a Lexicon element"""
    if kind == 'comment' or nbytes < 80:
        if nbytes < 8:
            return ' ' * nbytes
        return '<!--' + 'x' * (nbytes - 8) + '-->\n'
    # many short lines (a block-wise reader cutting at newlines finds one close to every boundary)
    line = '    <!-- padding padding padding padding padding padding -->\n'
    k = nbytes // len(line)
    rest = nbytes - k * len(line)
    return line * k + (_filler(rest, 'comment') if rest >= 8 else ' ' * rest)


def boundary_doc(B, d, style, fill):
    """two-lexicon document whose second <Lexicon ...> start tag begins d bytes before offset B"""
    head = '\n'.join(xmlw.header('1.3')) + f'\n<LexicalResource xmlns:dc="{xmlw.DC_URIS["1.3"]}">\n'
    first = _lex_tag('ba', 'single') + '\n' + _lex_body('ba')
    tail1 = '  </Lexicon>\n'
    tag2 = _lex_tag('bb', style)
    pad = B - d - len(head) - len(first) - len(tail1)
    if pad < 0:
        return None
    text = head + first + _filler(pad, fill) + tail1
    assert len(text) == B - d, (len(text), B - d)
    text += tag2 + '\n' + _lex_body('bb') + _filler(6000, fill) + '  </Lexicon>\n</LexicalResource>\n'
    return text


def check_boundary(case, d_):
    """scan_lexicons / load / add on files whose lexicon start tags straddle power-of-two offsets,
    and on files cut off exactly at a multiple of a power of two"""
    V, digs, n = [], set(), 0
    B = case['B']
    if case['mode'] == 'straddle':
        want = [{'id': 'ba', 'version': '1', 'label': 'Lexicon ba', 'extends': None},
                {'id': 'bb', 'version': '1', 'label': 'Lexicon bb', 'extends': None}]
        for d in case['ds']:
            text = boundary_doc(B, d, case['style'], case['fill'])
            if text is None:
                continue
            n += 1
            f = env.write_file('b.xml', text.encode('ascii'), d_)
            one = dict(case, ds=[d])
            try:
                sc = lmf.scan_lexicons(f)
            except Exception as exc:      # noqa: BLE001
                sc = f'{type(exc).__name__}: {exc}'
            if sc != want:
                V.append(('scan:differs:block-boundary', f'second <Lexicon> tag starts {d} bytes before offset {B} '
                          f'({case["style"]}-line tag, {case["fill"]} filler): scan_lexicons = {sc}', None, one))
            ok, L = runner.guarded(lmf.load, f, progress_handler=None)
            if not ok or [x['id'] for x in L['lexicons']] != ['ba', 'bb']:
                V.append(('load:differs:block-boundary', f'offset {B}-{d}: load -> {L if not ok else [x["id"] for x in L["lexicons"]]}', None, one))
            env.fresh_db()
            ok, err = runner.guarded(env.add, f)
            specs = sorted(x.specifier() for x in wn.lexicons()) if ok else None
            if not ok or specs != ['ba:1', 'bb:1']:
                V.append(('add:valid-file-not-installed:block-boundary', f'offset {B}-{d}: add -> {err if not ok else specs}', None, one))
            env.drop_db(env.db_path().parent)
            digs.add(f'{sc == want}')
    else:
        # truncation exactly at m * B bytes: the document simply stops
        head = '\n'.join(xmlw.header('1.3')) + f'\n<LexicalResource xmlns:dc="{xmlw.DC_URIS["1.3"]}">\n'
        for m in case['ms']:
            S = m * B
            for fill in ('comment', 'lines', 'synsets'):
                body = _lex_tag('bt', 'single') + '\n' + _lex_body('bt', 3)
                if fill == 'synsets':
                    filler = ''.join(f'    <Synset id="bt-x{i}" ili="" partOfSpeech="n"/>\n' for i in range((S // 40) + 200))
                else:
                    filler = _filler(S + 4096, 'comment' if fill == 'comment' else 'lines')
                text = (head + body + filler + '  </Lexicon>\n</LexicalResource>\n')[:S]
                n += 1
                f = env.write_file('t.xml', text.encode('ascii'), d_)
                one = dict(case, ms=[m])
                try:
                    lmf.load(f, progress_handler=None)
                    V.append(('load:accepts:truncated-at-block-multiple', f'load() accepted a document cut off at {S} = {m}*{B} bytes '
                              f'({fill} filler)', None, one))
                except Exception as exc:     # noqa: BLE001
                    digs.add(type(exc).__name__)
                env.fresh_db()
                try:
                    env.add(f)
                    raised = False
                except Exception:            # noqa: BLE001
                    raised = True
                specs = [x.specifier() for x in wn.lexicons()]
                if not raised or specs:
                    V.append(('add:accepts:truncated-at-block-multiple', f'add() of a document cut off at {S} bytes ({fill} filler): '
                              f'raised={raised} installed={specs}', None, one))
                env.drop_db(env.db_path().parent)
    return {'v': V, 'digs': digs, 'nt': len(digs) or 1, 'n': n}


LEX_PAYLOADS = {
    'label': ['A &amp; B', 'A & B', "Bob's", 'a > b', 'a < b', 'say "hi"', 'café', ' pad ', 'a=b id="x"',
              "it's \"both\"", 'tab\there'],
    'version': ['1.0&2', "v'1", 'a>b', 'café', '1 2', '"q"'],
    'id': ['café', 'x.y-z'],
}
STYLES = [{}, {'quote': "'"}, {'reverse_attrs': True}, {'charrefs': True},
          {'explicit_defaults': True}, {'comments': True}, {'indent': False, 'self_close': False},
          {'quote': "'", 'reverse_attrs': True, 'charrefs': True, 'comments': True}, {'tagcomments': True}]


def space(tier, seed):
    cases = []
    docs_ = []
    for v in docs.VERSIONS:
        docs_.append({'v': v, 'kind': 'feat', 'base': 'M', 'delta': []})
        docs_.append({'v': v, 'kind': 'feat', 'base': 'm', 'delta': []})
        if v != '1.0':
            docs_.append({'v': v, 'kind': 'ext', 'base': 'M', 'delta': [], 'flags': ['annot']})
        docs_.append({'v': v, 'kind': 'multi', 'order': ['S', 'M', 'T']})
    if tier == 'quick':
        keep = {'1.0', ['1.1', '1.2', '1.3'][seed % 3]}
        mdocs = [dc for dc in docs_ if dc['v'] in keep and dc['kind'] != 'multi']
    else:
        # every single-feature document over the minimal one as well (each element kind in isolation)
        mdocs = docs_ + [c for v in ('1.0', '1.3') for c in docgen.feature_space(v, 1) if c['base'] == 'm' and c['delta']]
    for dc in mdocs:
        _, xml = _doc_xml(dc)
        n = len(list(mutants(xml, dc['v'])))
        step = 40
        for lo in range(0, n, step):
            cases.append({'c': 'mutants', 'doc': dc, 'lo': lo, 'hi': lo + step})
    for dc in docs_:
        cases.append({'c': 'header', 'doc': dc})
        for st in STYLES:
            cases.append({'c': 'scan', 'doc': dc, 'style': st, 'add': True})
    # lexicon attribute payloads (label / version / id / Extends) x quoting style
    for v in ('1.0', '1.3'):
        multi = {'v': v, 'kind': 'multi', 'order': ['S', 'M']}
        for fld, pls in LEX_PAYLOADS.items():
            for p in pls:
                for st in ({}, {'quote': "'"}):
                    if fld == 'id':
                        continue
                    cases.append({'c': 'scan', 'doc': multi, 'style': st, 'add': True,
                                  'set': [[0, fld, p]]})
    # text that looks like the start of a comment / CDATA section / processing instruction, written inside a CDATA
    # section (and, escaped, as ordinary text) in front of further lexicons and real comments
    for v in ('1.0', '1.3'):
        multi = {'v': v, 'kind': 'multi', 'order': ['M', 'S', 'T']}
        for payload in ('open <!-- never closed', 'a <![CDATA[ b', 'pi <? c', '--> <!--'):
            for st in ({'cdata': True, 'comments': True}, {'cdata': True, 'tagcomments': True}, {'comments': True}):
                cases.append({'c': 'scan', 'doc': multi, 'style': st, 'add': True,
                              'set': [[0, 'synsets', 0, 'definitions', 0, 'text', payload],
                                      [1, 'synsets', 0, 'definitions', 0, 'text', payload]]})
    # block-boundary sweeps: the pre-scan and the parser must not depend on where a buffer boundary falls
    taglen = len(_lex_tag('bb', 'multi')) + 2
    if tier == 'thorough':
        Bs, step = [4096, 8192, 16384, 32768, 65536, 131072, 1048576], 1
    else:
        Bs, step = [65536, 1048576, [4096, 8192, 16384, 32768, 131072][seed % 5]], 3
    for B in Bs:
        for style in ('multi', 'single'):
            for fill in ('comment', 'lines'):
                ds = list(range(0, taglen, step if B != 65536 or tier == 'thorough' else 1))
                if tier == 'quick' and B == 1048576:
                    ds = ds[::3]
                for i in range(0, len(ds), 24):
                    cases.append({'c': 'boundary', 'mode': 'straddle', 'B': B, 'style': style, 'fill': fill, 'ds': ds[i:i + 24]})
    for B in ([4096, 8192, 16384, 32768, 65536, 131072] if tier == 'thorough' else [65536, [4096, 8192, 16384, 32768, 131072][seed % 5]]):
        cases.append({'c': 'boundary', 'mode': 'truncate', 'B': B, 'ms': [1, 2, 3]})
    return cases


RULE = ('documents: minimal, maximal, extension, 3-lexicon file per LMF version. must-reject mutants at every '
        'position (tag line dropped, end tag mismatched, each required attribute removed, element renamed to an '
        'unknown name, unknown / 1.1-only element inserted, single-valued child duplicated) -> load raises, add '
        'raises, exact table dump unchanged, valid add works afterwards; 21 header variants -> is_lmf == load '
        'accepts, classified accept/reject; 8 valid stylings and lexicon label/version payloads -> load equal, '
        'scan_lexicons == load, add installs. evaluations counts mutants/variants; distinct = distinct '
        '(mutation class, exception type) or scan results.')


def run(tier, seed, jobs=None):
    return runner.run_space(PROP, tier, seed, space(tier, seed), check, rule=RULE, jobs=jobs, chunk=2,
                            recheck=_recheck,
                            assumptions=['own XML writer trusted', 'line-oriented mutation of the harness-written XML'])


def _recheck(case):
    if case.get('only'):
        b, xml = _doc_xml(case['doc'])
        ms = list(mutants(xml, case['doc']['v']))
        for i, (mk, desc, text) in enumerate(ms):
            if desc == case['only']:
                return check({'c': 'mutants', 'doc': case['doc'], 'lo': i, 'hi': i + 1})
        return {'v': []}
    return check(case)


def replay(path):
    return runner.replay(PROP, path, _recheck)
