"""C10 - navigation between words, senses and synsets is referentially faithful.

Engine E2: databases = every installable subset of a 5-lexicon universe built for
collisions (two versions with identical ids, an extension whose senses attach to base
entries and base synsets, lexicons sharing ILIs, two synsets of one lexicon on one ILI,
synsets with no / proposed ILI) x Wordnet selections x every entity x every navigation
method; all pairs of obtained objects for == / hash."""
import itertools
import warnings

import wn

from .. import env, mk, runner, universe, xmlw
from ..refmodel import Store

PROP = 'C10'

MANIFEST = dict(
    category='exploration', design_ref='DESIGN.md §3 C10',
    technique='exhaustive enumeration of installed-lexicon subsets x Wordnet selections x all entities x all navigation methods on the real API vs the reference model; all object pairs for ==/hash',
    text='For every installable subset (in two installation orders) of {a:1, a:2 (same ids, other content), x:1 (extension: senses on base entries and base synsets), b:1 and c:1 sharing ILIs with a, c:1 with two synsets on one ILI and a proposed ILI} and every selection (default mode, each single lexicon, base+extension, both versions, lang, everything) every sense, word and synset is navigated: sense.word()/synset() must be the declared parent / referenced synset (by lexicon and id), the sense must be found again in word.senses() and synset.senses(), word.synsets(), synset.words() and synset.lemmas() must be the images of the sense lists in order; all objects reached by any route - including the ILI objects reached through Synset.ili and Wordnet.ilis(), a proposed ILI being an entity of its own - are compared pairwise: == and equal hashes iff same (kind, lexicon, id), and they must collapse accordingly in sets and dicts; synset.translate(lexicon=/lang=) must return exactly the synsets of the target lexicons with the same ILI (none for a missing or proposed ILI), sense and word translation must be its images, and translation must be symmetric. The extension has senses of all four shapes (base/own entry x base/own synset); query-then-add histories (everything navigated before each further lexicon arrives, no removal) go through both wn.add and wn.add_lexical_resource.',
    note='Tie-ranked sense orders (extension senses on base entries / base synsets) are compared as sets.',
)


def C1x():
    c = universe.C1()
    c['synsets'].append(mk.synset('c-ss3', 'n', 'i1', definitions=['second c synset on i1']))
    c['entries'].append(mk.entry('c-e2', 'alfa', 'n', senses=[mk.sense('c-s3', 'c-ss3')]))
    return c


def X1x():
    # the shared extension has a sense on (base entry, base synset) and one on (own entry, own synset); navigation
    # also needs the two mixed shapes: own entry -> base synset, base entry -> own synset
    x = universe.X1(False)
    own = next(e for e in x['entries'] if e['id'] == 'x-e1')
    own['senses'].append(mk.sense('x-s3', 'a-ss2'))
    ext = next(e for e in x['entries'] if e['id'] == 'a-e1')
    ext['senses'].append(mk.sense('x-s4', 'x-ss1'))
    return x


def docs_():
    return {'a:1': universe.A1(), 'a:2': universe.A2(), 'x:1': X1x(), 'y:1': universe.Y1(),
            'b:1': universe.B1(), 'c:1': C1x()}


LANG = {'a:1': 'en', 'a:2': 'en', 'x:1': 'en', 'y:1': 'en', 'b:1': 'es', 'c:1': 'en'}
SELECTIONS = [('default', {}), ('a:1', dict(lexicon='a:1')), ('a:2', dict(lexicon='a:2')),
              ('x:1', dict(lexicon='x:1')), ('b:1', dict(lexicon='b:1')), ('c:1', dict(lexicon='c:1')),
              ('a:1 x:1', dict(lexicon='a:1 x:1')), ('a:1 a:2', dict(lexicon='a:1 a:2')),
              ('a:2 a:1 x:1', dict(lexicon='a:2 a:1 x:1')), ('a:1 x:1 y:1', dict(lexicon='a:1 x:1 y:1')),
              ('y:1', dict(lexicon='y:1')), ('lang=en', dict(lang='en')),
              # an extension selected without its base but with *another version* of the base (same ids)
              ('x:1 a:2', dict(lexicon='x:1 a:2')), ('a:2 x:1 y:1', dict(lexicon='a:2 x:1 y:1')),
              ('all', dict(lexicon='*'))]


def check(case):
    env.fresh_db()
    dbdir = env.db_path().parent
    V, obs = [], []
    D = docs_()
    try:
        st = Store()
        for step in case['install']:
            if isinstance(step, list):
                # ['touch'] = navigate everything once (fills whatever the library caches);
                # ['remove', spec] = remove a lexicon (with its extensions)
                if step[0] == 'touch':
                    with warnings.catch_warnings():
                        warnings.simplefilter('ignore')
                        wt = wn.Wordnet()
                        for s_ in wt.senses():
                            s_.word(), s_.synset()
                        for x_ in wt.words():
                            x_.senses(), x_.synsets()
                        for x_ in wt.synsets():
                            x_.senses(), x_.hypernyms()
                elif step[0] == 'file':
                    # add through wn.add() from an XML file (the other public entry point)
                    r = mk.resource([D[step[1]]], '1.3')
                    env.add(env.write_file(f"{step[1].replace(':', '_')}.xml", xmlw.serialize(r)))
                    st.add_resource(r)
                else:
                    env.remove(step[1])
                    st.remove([step[1]])
                continue
            sp = step
            r = mk.resource([D[sp]], '1.3')
            env.add_resource(r)
            st.add_resource(r)
        inst = st.specs()
        idx = st.index()
        from ..observe import spec_map, lexspec
        smap = spec_map()

        def name(x):
            return f'{lexspec(x, smap)}|{x.id}'

        def bad(key, msg):
            V.append((key, f'{msg} [installed {inst}]'))
        ncalls = 0
        for selname, kw in SELECTIONS:
            if 'lexicon' in kw and kw['lexicon'] != '*':
                S = [s for s in inst if s in kw['lexicon'].split()]
            elif 'lang' in kw:
                S = [s for s in inst if LANG[s] == kw['lang']]
            else:
                S = list(inst)
            if not S:
                continue
            default_mode = not kw
            with warnings.catch_warnings():
                warnings.simplefilter('ignore')
                w = wn.Wordnet(expand='', **kw)

            def scope(sp):
                return set(st.family(sp)) if default_mode else set(S)
            pool = {}      # name -> list of objects obtained by different routes

            def keep(kind, x):
                pool.setdefault((kind, name(x)), []).append(x)
            tag = f'sel={selname}'
            for s in w.senses():
                ncalls += 1
                sk = name(s)
                keep('sense', s)
                rec = idx.senses.get(sk)
                if rec is None:
                    bad('senses():unknown-entity', f'{sk} returned but not in documents [{tag}]')
                    continue
                wlex, sslex = rec['word'].split('|')[0], rec['synset'].split('|')[0]
                # word()
                try:
                    wd = s.word()
                    keep('word', wd)
                    if name(wd) != rec['word']:
                        bad('Sense.word:wrong-entity', f'{sk}.word() = {name(wd)} expected {rec["word"]} [{tag}]')
                    elif wlex not in S:
                        bad('Sense.word:outside-selection', f'{sk}.word() = {name(wd)} [{tag}]')
                    else:
                        back = wd.senses()
                        for b in back:
                            keep('sense', b)
                        if s not in back:
                            bad('Word.senses:inverse', f'{sk} not in {name(wd)}.senses() = {[name(b) for b in back]} [{tag}]')
                except wn.Error:
                    if wlex in S:
                        bad('Sense.word:raises', f'{sk}.word() raised although {rec["word"]} is selected [{tag}]')
                try:
                    syn = s.synset()
                    keep('synset', syn)
                    if name(syn) != rec['synset']:
                        bad('Sense.synset:wrong-entity', f'{sk}.synset() = {name(syn)} expected {rec["synset"]} [{tag}]')
                    elif sslex not in S:
                        bad('Sense.synset:outside-selection', f'{sk}.synset() = {name(syn)} [{tag}]')
                    else:
                        back = syn.senses()
                        for b in back:
                            keep('sense', b)
                        if s not in back:
                            bad('Synset.senses:inverse', f'{sk} not in {name(syn)}.senses() [{tag}]')
                except wn.Error:
                    if sslex in S:
                        bad('Sense.synset:raises', f'{sk}.synset() raised although {rec["synset"]} is selected [{tag}]')
            for wd in w.words():
                ncalls += 1
                wk = name(wd)
                keep('word', wd)
                rec = idx.words[wk]
                sc = scope(rec['lex'])
                exp_senses = [k for k in rec['senses'] if idx.senses[k]['lex'] in sc]
                got_senses = wd.senses()
                gs = [name(x) for x in got_senses]
                tie = any(idx.senses[k]['lex'] != rec['lex'] for k in exp_senses)
                if (sorted(gs) != sorted(exp_senses)) if tie else (gs != exp_senses):
                    bad('Word.senses:differs', f'{wk}.senses() = {gs} expected {exp_senses} [{tag}]')
                try:
                    gsyn = [name(x) for x in wd.synsets()]
                    exp_syn = [idx.senses[k]['synset'] for k in gs if k in idx.senses]
                    if all(x.split('|')[0] in S for x in exp_syn) and gsyn != exp_syn:
                        bad('Word.synsets:not-image', f'{wk}.synsets() = {gsyn} expected {exp_syn} [{tag}]')
                except wn.Error:
                    if all(idx.senses[k]['synset'].split('|')[0] in S for k in exp_senses):
                        bad('Word.synsets:raises', f'{wk}.synsets() raised [{tag}]')
                obs.append((selname, wk, gs))
            for ss in w.synsets():
                ncalls += 1
                ssk = name(ss)
                keep('synset', ss)
                rec = idx.synsets[ssk]
                sc = scope(rec['lex'])
                exp_mem = [k for k in rec['members'] if idx.senses[k]['lex'] in sc]
                mem = ss.senses()
                gm = [name(x) for x in mem]
                if sorted(gm) != sorted(exp_mem):
                    bad('Synset.senses:differs', f'{ssk}.senses() = {gm} expected {sorted(exp_mem)} [{tag}]')
                try:
                    gw = ss.words()
                    for x in gw:
                        keep('word', x)
                    gwn = [name(x) for x in gw]
                    exp_w = [idx.senses[k]['word'] for k in gm if k in idx.senses]
                    if all(x.split('|')[0] in S for x in exp_w):
                        if gwn != exp_w:
                            bad('Synset.words:not-image', f'{ssk}.words() = {gwn} expected {exp_w} [{tag}]')
                        gl = [str(x) for x in ss.lemmas()]
                        exp_l = [idx.words[k]['doc']['lemma']['writtenForm'] for k in exp_w]
                        if gl != exp_l:
                            bad('Synset.lemmas:not-image', f'{ssk}.lemmas() = {gl} expected {exp_l} [{tag}]')
                except wn.Error:
                    if all(idx.senses[k]['word'].split('|')[0] in S for k in exp_mem):
                        bad('Synset.words:raises', f'{ssk}.words() raised [{tag}]')
                # id lookups
                try:
                    keep('synset', w.synset(ss.id))
                except wn.Error:
                    bad('Wordnet.synset:raises', f'synset({ss.id!r}) raised [{tag}]')
                # translation
                ili = rec['doc'].get('ili')
                real_ili = ili if ili and ili != 'in' else None
                targets = [('lexicon', s_) for s_ in inst] + [('lang', 'en'), ('lang', 'es')]
                if len(inst) > 1:
                    targets.append(('lexicon', ' '.join(inst[:2])))
                for tkind, tval in targets:
                    ncalls += 1
                    T = ([s_ for s_ in inst if s_ in tval.split()] if tkind == 'lexicon'
                         else [s_ for s_ in inst if LANG[s_] == tval])
                    if not T:
                        continue
                    exp_t = sorted(k for k, r2 in idx.synsets.items()
                                   if r2['lex'] in T and real_ili and r2['doc'].get('ili') == real_ili)
                    with warnings.catch_warnings():
                        warnings.simplefilter('ignore')
                        tr = ss.translate(**{tkind: tval})
                    gt = sorted(name(x) for x in tr)
                    if gt != exp_t:
                        bad('Synset.translate:differs', f'{ssk}.translate({tkind}={tval!r}) = {gt} expected {exp_t} [{tag}]')
                        continue
                    for t in tr:
                        keep('synset', t)
                        # symmetry
                        with warnings.catch_warnings():
                            warnings.simplefilter('ignore')
                            back = t.translate(lexicon=rec['lex'])
                        if ssk not in [name(b) for b in back]:
                            bad('Synset.translate:asymmetric', f'{name(t)} in {ssk}.translate() but not conversely [{tag}]')
                    # sense translation = image
                    for s in mem:
                        try:
                            with warnings.catch_warnings():
                                warnings.simplefilter('ignore')
                                ts = s.translate(**{tkind: tval})
                        except wn.Error:
                            continue
                        exp_ts = sorted(k for t in exp_t for k in idx.synsets[t]['members']
                                        if idx.senses[k]['lex'] in T)
                        if sorted(name(x) for x in ts) != exp_ts:
                            bad('Sense.translate:not-image', f'{name(s)}.translate({tkind}={tval!r}) = '
                                f'{sorted(name(x) for x in ts)} expected {exp_ts} [{tag}]')
                        for x in ts:
                            keep('sense', x)
            # word translation
            for wd in w.words():
                for tsp in inst:
                    try:
                        with warnings.catch_warnings():
                            warnings.simplefilter('ignore')
                            tw = wd.translate(lexicon=tsp)
                    except wn.Error:
                        continue
                    # one key per sense of the word (the mapping is its senses' translations)
                    try:
                        own = sorted(name(s) for s in wd.senses())
                    except wn.Error:
                        own = None
                    if own is not None and sorted(name(s) for s in tw) != own:
                        bad('Word.translate:keys', f'{name(wd)}.translate(lexicon={tsp!r}) has keys '
                            f'{sorted(name(s) for s in tw)}, the word has senses {own} [{tag}]')
                    for s, lst in tw.items():
                        rec = idx.senses[name(s)]
                        ssrec = idx.synsets[rec['synset']]
                        ili = ssrec['doc'].get('ili')
                        real_ili = ili if ili and ili != 'in' else None
                        exp_words = sorted(idx.senses[k]['word'] for t, r2 in idx.synsets.items()
                                           if r2['lex'] == tsp and real_ili and r2['doc'].get('ili') == real_ili
                                           for k in r2['members'] if idx.senses[k]['lex'] == tsp)
                        if sorted(name(x) for x in lst) != exp_words:
                            bad('Word.translate:not-image', f'{name(wd)}.translate(lexicon={tsp!r})[{name(s)}] = '
                                f'{sorted(name(x) for x in lst)} expected {exp_words} [{tag}]')
            # interlingual-index objects reached from synsets (twice) and from the Wordnet: one entity per ILI
            # id, and one per synset for proposed ILIs
            for ss in w.synsets():
                for _ in (0, 1):
                    i = ss.ili
                    if i is not None:
                        pool.setdefault(('ili', i.id if i.id else 'proposed by ' + name(ss)), []).append(i)
            for i in w.ilis():
                if i.id:
                    pool.setdefault(('ili', i.id), []).append(i)
            # equality / hash over everything collected in this selection
            items = [(k, o) for k, lst in pool.items() for o in lst]
            for (ka, a), (kb, b) in itertools.combinations(items, 2):
                same = ka == kb
                if (a == b) != same:
                    bad('eq:' + ('same-entity-unequal' if same else 'different-entities-equal'),
                        f'{ka} vs {kb}: == is {a == b} [{tag}]')
                elif same and hash(a) != hash(b):
                    bad('hash:same-entity-different-hash', f'{ka}: hashes differ [{tag}]')
            if len({o for _, o in items}) != len(pool):
                bad('set:collapse', f'set of {len(items)} objects has {len({o for _, o in items})} members, '
                    f'{len(pool)} distinct entities [{tag}]')
            d = {}
            for k, o in items:
                d[o] = k
            if len(d) != len(pool) or any(d[o] != k for k, o in items):
                bad('dict:membership', f'dict keyed by entities has {len(d)} keys for {len(pool)} entities [{tag}]')
            obs.append((selname, sorted(map(str, pool))))
        return {'v': V, 'd': runner.digest(obs), 'n': ncalls}
    finally:
        env.drop_db(dbdir)


def space(tier, seed):
    specs = ['a:1', 'a:2', 'x:1', 'b:1', 'c:1']
    cases, seen = [], set()
    # three-level extension chains
    for o in (['a:1', 'x:1', 'y:1'], ['a:1', 'a:2', 'x:1', 'y:1', 'b:1'], ['b:1', 'a:1', 'x:1', 'c:1', 'y:1']):
        cases.append({'install': o})
    # histories in one process and database: look things up, remove the newest lexicon, add one of the
    # other kind (it re-uses the freed rowid), observe again
    for first, victim, then in ((['a:1', 'x:1'], 'x:1', ['a:2']), (['a:1', 'b:1'], 'b:1', ['x:1']),
                                (['a:1', 'x:1', 'y:1'], 'y:1', ['c:1']), (['a:1', 'a:2'], 'a:2', ['x:1', 'y:1']),
                                (['c:1', 'a:1', 'x:1'], 'x:1', ['a:2', 'b:1']), (['a:1', 'x:1'], 'a:1', ['a:2', 'a:1'])):
        cases.append({'install': first + [['touch'], ['remove', victim]] + then})
        cases.append({'install': first + [['touch'], ['remove', victim]] + then + [['touch'], ['remove', then[-1]], first[-1] if first[-1] != victim else victim]})
    # query-then-add histories (no removal): everything is navigated before each further lexicon arrives, through
    # both public entry points (wn.add_lexical_resource = plain step, wn.add of a file = ['file', spec])
    T = ['touch']
    for o in (['a:1', T, 'x:1'], ['a:1', T, ['file', 'x:1']], [['file', 'a:1'], T, 'x:1', T, ['file', 'y:1']],
              ['a:1', 'b:1', T, ['file', 'x:1'], T, 'y:1', T, 'a:2'], ['b:1', T, 'a:1', T, 'a:2', T, 'x:1', T, ['file', 'c:1']],
              [['file', 'a:1'], ['file', 'x:1'], T, 'y:1', T, ['file', 'c:1']]):
        cases.append({'install': o})
    for r in range(1, 6):
        for sub in itertools.combinations(specs, r):
            if 'x:1' in sub and 'a:1' not in sub:
                continue
            orders = [list(sub), list(sub)[::-1]]
            if tier == 'thorough' and len(sub) <= 4:
                orders = [list(p) for p in itertools.permutations(sub)]
            for o in orders:
                if 'x:1' in o and o.index('x:1') < o.index('a:1'):
                    continue
                if tuple(o) not in seen:
                    seen.add(tuple(o))
                    cases.append({'install': o})
    return cases


def run(tier, seed, jobs=None):
    cases = space(tier, seed)
    rule = ('databases: every installable subset of {a:1,a:2,x:1,b:1,c:1} in forward and reverse installation order '
            '(thorough: every order for <=4 lexicons); 11 selections; every sense/word/synset; navigation, inverse, '
            'images, translate (each target lexicon, lang, a pair), all object pairs for ==/hash/set/dict. '
            'evaluations = entity observations; distinct = distinct databases observed.')
    return runner.run_space(PROP, tier, seed, cases, check, rule=rule, jobs=jobs, chunk=1,
                            assumptions=['reference model index (wnmc/refmodel.py)'])


def replay(path):
    return runner.replay(PROP, path, check)
