"""C11 - relation queries return exactly the declared relations; closures terminate.

Engine E2: every multiset of <=2 (quick) / <=3 (thorough, reduced alphabet) relation
instances over 2 nodes, for each of the three relation tables (synset->synset,
sense->sense, sense->synset), with an extension contributing one instance, observed in
four scopes (base, base+extension, extension only, default mode) with every subset of
<=2 relation-type arguments."""
import itertools
import warnings

import wn

from .. import env, mk, runner, budget
from ..observe import rel_lexicon, ili_of

PROP = 'C11'

MANIFEST = dict(
    category='exploration', design_ref='DESIGN.md §3 C11',
    technique='bounded-exhaustive enumeration of relation multisets (self-loops, cycles, parallel and duplicated relations, dc:type, metadata) x scopes x type-argument subsets on the real query layer vs a reference relation model; termination by step budget',
    text='For each relation table (synset-synset, sense-sense, sense-synset) every multiset of up to 2 (thorough: 3) relation instances drawn from source x target x type {hypernym, similar, x_custom} x dc:type {none, p, q} x extra metadata {none, dc:source} over two nodes is stored (duplicates, self-loops and 2-cycles included; 200 lexicons per database), once purely in the base lexicon and once with the last instance contributed by a lexicon extension that also owns a node (singletons also: with a second extension node pointing at an extension sense that hangs on a base synset, and with an extension of the extension adding a relation to the first extension node and a node of its own). For every entity, in the scopes base / base+extension / extension only / default mode (and base+ext+ext2, ext+ext2 for the two-level variant), relations(*t), get_related(*t), relation_map(), get_related_synsets(*t), closure(*t), relation_paths(*t) and the hypernyms() shortcut are compared, for t = (), each single type and each pair, with the reference: exactly the declared in-scope relations, no duplicates, right name/source/target/defining lexicon, metadata one of those declared for that key, relations differing only in dc:type kept apart, closure = reachable set each once, paths = the maximal simple paths; every call runs under a step budget.',
    note='Order of returned lists is not compared (C16 owns determinism).',
)

TYPES = ['hypernym', 'similar', 'x_custom']
DCT = [None, 'p', 'q']
XM = [None, 'src']
KINDS = ['ss', 's', 's-ss']       # synset->synset, sense->sense, sense->synset
N = 2
BATCH = 200


def instances(n=N, types=TYPES, dct=DCT, xm=XM):
    return [(s, t, ty, d, x) for s in range(n) for t in range(n) for ty in types for d in dct for x in xm]


def meta_of(inst):
    m = {}
    if inst[3]:
        m['type'] = inst[3]
    if inst[4]:
        m['source'] = inst[4]
    return m or None


def build(lid, kind, multiset, ext):
    """-> (base lexicon, extension or None, declared rows)
    declared rows: (defining lexicon, source name, target name, type, meta-dict) with names
    'B<i>' for base nodes and 'X0' for the extension's own node."""
    B = lid + '-'
    rels_ss = {i: [] for i in range(N)}
    rels_s = {i: [] for i in range(N)}
    rows = []
    base_part = multiset[:-1] if ext and multiset else multiset
    ext_part = multiset[-1:] if ext and multiset else []

    def tgt(kind, t, prefix=B):
        return f'{prefix}ss{t}' if kind in ('ss', 's-ss') else f'{prefix}s{t}'
    for inst in base_part:
        r = mk.rel(tgt(kind, inst[1]), inst[2], meta_of(inst))
        (rels_ss if kind == 'ss' else rels_s)[inst[0]].append(r)
        rows.append((f'{lid}:1', f'B{inst[0]}', f'B{inst[1]}', inst[2], meta_of(inst) or {}))
    entries = [mk.entry(f'{B}e{i}', f'w{i}', 'n', senses=[mk.sense(f'{B}s{i}', f'{B}ss{i}', relations=rels_s[i])])
               for i in range(N)]
    synsets = [mk.synset(f'{B}ss{i}', 'n', relations=rels_ss[i]) for i in range(N)]
    base = mk.lexicon(lid, '1', entries=entries, synsets=synsets)
    if not ext:
        return base, None, rows
    xid = lid + 'x'
    X = xid + '-'
    xe, xss = {}, {}
    for inst in ext_part:
        r = mk.rel(tgt(kind, inst[1]), inst[2], meta_of(inst))
        if kind == 'ss':
            xss.setdefault(inst[0], []).append(r)
        else:
            xe.setdefault(inst[0], []).append(r)
        rows.append((f'{xid}:1', f'B{inst[0]}', f'B{inst[1]}', inst[2], meta_of(inst) or {}))
    # the extension's own node X0: X0 -> B0 (hypernym) and B0 -> X0 (similar, from the extension)
    own_rel_s, own_rel_ss = [], []
    if kind == 'ss':
        own_rel_ss = [mk.rel(f'{B}ss0', 'hypernym')]
        xss.setdefault(0, []).append(mk.rel(f'{X}ss0', 'similar'))
    elif kind == 's':
        own_rel_s = [mk.rel(f'{B}s0', 'hypernym')]
        xe.setdefault(0, []).append(mk.rel(f'{X}s0', 'similar'))
    else:
        own_rel_s = [mk.rel(f'{B}ss0', 'hypernym')]
        xe.setdefault(0, []).append(mk.rel(f'{X}ss0', 'similar'))
    rows.append((f'{xid}:1', 'X0', 'B0', 'hypernym', {}))
    rows.append((f'{xid}:1', 'B0', 'X0', 'similar', {}))
    entries = []
    for i in range(N):
        entries.append({'id': f'{B}e{i}', 'external': True,
                        'senses': [dict({'id': f'{B}s{i}', 'external': True},
                                        **({'relations': xe[i]} if xe.get(i) else {}))]})
    # variant 'x2': the extension's sense X0 hangs on the *base* synset B0 and a second node of the extension,
    # X1, points at X0 (similar) - in the extension-only scope both ends are in scope, the target's synset is not
    x0_synset = f'{B}ss0' if ext == 'x2' and kind != 'ss' else f'{X}ss0'
    entries.append(mk.entry(f'{X}e0', 'wx', 'n', senses=[mk.sense(f'{X}s0', x0_synset, relations=own_rel_s)]))
    synsets = [dict({'id': f'{B}ss{i}', 'external': True}, **({'relations': xss[i]} if xss.get(i) else {}))
               for i in range(N)]
    synsets.append(mk.synset(f'{X}ss0', 'n', relations=own_rel_ss))
    if ext == 'x2':
        r1 = mk.rel(tgt(kind, 0, X), 'similar')
        entries.append(mk.entry(f'{X}e1', 'wx1', 'n', senses=[mk.sense(f'{X}s1', f'{X}ss1', relations=[] if kind == 'ss' else [r1])]))
        synsets.append(mk.synset(f'{X}ss1', 'n', relations=[r1] if kind == 'ss' else []))
        rows.append((f'{xid}:1', 'X1', 'X0', 'similar', {}))
    extl = mk.lexicon(xid, '1', extends={'id': lid, 'version': '1'}, entries=entries, synsets=synsets)
    if ext == 'xx':
        # variant 'xx': an extension of the extension adds a relation to the first extension's node (X0 -> Y0)
        # and a node of its own, Y0 -> X0
        yid = lid + 'y'
        Y = yid + '-'
        ry = mk.rel(tgt(kind, 0, Y), 'x_custom')      # (an extension of an extension cannot name grand-base entities)
        r0 = mk.rel(tgt(kind, 0, X), 'hypernym')
        yents = [{'id': f'{X}e0', 'external': True,
                  'senses': [dict({'id': f'{X}s0', 'external': True}, **({'relations': [ry]} if kind != 'ss' else {}))]},
                 mk.entry(f'{Y}e0', 'wy', 'n', senses=[mk.sense(f'{Y}s0', f'{Y}ss0', relations=[] if kind == 'ss' else [r0])])]
        ysyn = [dict({'id': f'{X}ss0', 'external': True}, **({'relations': [ry]} if kind == 'ss' else {})),
                mk.synset(f'{Y}ss0', 'n', relations=[r0] if kind == 'ss' else [])]
        rows.append((f'{yid}:1', 'X0', 'Y0', 'x_custom', {}))
        rows.append((f'{yid}:1', 'Y0', 'X0', 'hypernym', {}))
        extl = [extl, mk.lexicon(yid, '1', extends={'id': xid, 'version': '1'}, entries=yents, synsets=ysyn)]
    return base, extl, rows


def name_of(ent, lid):
    """entity id -> 'B<i>' / 'X0'"""
    if not ent.id.startswith((lid + '-', lid + 'x-', lid + 'y-')):
        return 'FOREIGN:' + ent.id          # an entity of another lexicon of the database
    rest = ent.id[len(lid):]
    if rest.startswith('x-'):
        return 'X' + rest[-1]
    if rest.startswith('y-'):
        return 'Y' + rest[-1]
    return 'B' + rest.lstrip('-es')[-1]


def ref_paths(adj, x):
    out = []

    def rec(path, visited):
        last = path[-1] if path else x
        nxt = [y for y in adj.get(last, []) if y not in visited]
        if not nxt:
            if path:
                out.append(tuple(path))
            return
        for y in nxt:
            rec(path + [y], visited | {y})
    rec([], {x})
    return sorted(out)


def check_one(lid, kind, rows, ext, V, obs, g):
    base_spec, ext_spec = f'{lid}:1', f'{lid}x:1'
    scopes = [('base', dict(lexicon=base_spec, expand=''), {base_spec})]
    if ext:
        scopes += [('base+ext', dict(lexicon=f'{base_spec} {ext_spec}', expand=''), {base_spec, ext_spec}),
                   ('ext', dict(lexicon=ext_spec, expand=''), {ext_spec}),
                   ('default', dict(expand=''), {base_spec, ext_spec})]
    lex_of = {'B0': base_spec, 'B1': base_spec, 'X0': ext_spec}
    if ext == 'x2':
        lex_of['X1'] = ext_spec
    if ext == 'xx':
        ext2_spec = f'{lid}y:1'
        lex_of['Y0'] = ext2_spec
        scopes = scopes[:3] + [('base+ext+ext2', dict(lexicon=f'{base_spec} {ext_spec} {ext2_spec}', expand=''),
                                {base_spec, ext_spec, ext2_spec}),
                               ('ext+ext2', dict(lexicon=f'{ext_spec} {ext2_spec}', expand=''), {ext_spec, ext2_spec}),
                               ('default', dict(expand=''), {base_spec, ext_spec, ext2_spec})]
    types_present = sorted({r[3] for r in rows})
    argsets = [()] + [(t,) for t in TYPES] + list(itertools.combinations(TYPES, 2))

    def bad(key, msg):
        V.append((key, f'{msg} :: {g}', None, g))

    for sname, kw, S in scopes:
        with warnings.catch_warnings():
            warnings.simplefilter('ignore')
            w = wn.Wordnet(**kw)
        ents = {}
        src_get = w.synsets if kind == 'ss' else w.senses
        for e in src_get():
            if e.id.startswith(lid + '-') or e.id.startswith(lid + 'x-') or e.id.startswith(lid + 'y-'):
                ents[name_of(e, lid)] = e
        want_nodes = {n for n, lx in lex_of.items() if lx in S and (ext or n != 'X0')}
        if sname == 'default':
            want_nodes = set(lex_of)
        if set(ents) != want_nodes:
            bad(f'scope:{sname}:entities', f'entities {sorted(ents)} expected {sorted(want_nodes)}')
            continue
        for nm, e in ents.items():
            # default mode: the entity's scope is its own extension family (= both lexicons here)
            scope = S
            vis = [r for r in rows if r[0] in scope and r[1] == nm and lex_of[r[2]] in scope]
            for args in argsets:
                sel = [r for r in vis if not args or r[3] in args]
                exp_targets = {r[2] for r in sel}
                exp_by_name = {}
                for r in sel:
                    exp_by_name.setdefault(r[3], set()).add(r[2])
                tag = f'{kind}:{sname}'
                if kind == 's-ss':
                    st, v = budget.call(e.get_related_synsets, *args, budget=500)
                    if st != 'ok':
                        bad(f'get_related_synsets:{st}', f'{nm}.get_related_synsets{args} -> {v!r}')
                        continue
                    got = [name_of(x, lid) for x in v]
                    obs.append(sorted(got))
                    if len(got) != len(set(got)):
                        bad('get_related_synsets:duplicates', f'{nm}.get_related_synsets{args} = {got} [{tag}]')
                    if set(got) != exp_targets:
                        k = 'get_related_synsets:no-args-empty' if (not args and not got and exp_targets) else 'get_related_synsets:differs'
                        bad(k, f'{nm}.get_related_synsets{args} = {sorted(got)} expected {sorted(exp_targets)} [{tag}]')
                    # sense->synset relations must not show up among sense relations
                    st, v = budget.call(e.get_related, *args, budget=500)
                    if st == 'ok' and v:
                        bad('get_related:includes-synset-relations', f'{nm}.get_related{args} = {v} [{tag}]')
                    continue
                st, v = budget.call(e.relations, *args, budget=500)
                if st != 'ok':
                    bad(f'relations:{st}', f'{nm}.relations{args} -> {v!r} [{tag}]')
                    continue
                got_by_name = {k: [name_of(x, lid) for x in lst] for k, lst in v.items()}
                obs.append(sorted((k, sorted(x)) for k, x in got_by_name.items()))
                if any(len(x) != len(set(x)) for x in got_by_name.values()):
                    bad('relations:duplicates', f'{nm}.relations{args} = {got_by_name} [{tag}]')
                if {k: set(x) for k, x in got_by_name.items()} != exp_by_name:
                    bad('relations:differs', f'{nm}.relations{args} = {got_by_name} expected '
                        f'{ {k: sorted(x) for k, x in exp_by_name.items()} } [{tag}]')
                st, v = budget.call(e.get_related, *args, budget=500)
                got = [name_of(x, lid) for x in v] if st == 'ok' else None
                if st != 'ok' or len(got) != len(set(got)) or set(got) != exp_targets:
                    bad('get_related:differs', f'{nm}.get_related{args} = {got if st == "ok" else v!r} expected '
                        f'{sorted(exp_targets)} [{tag}]')
                # closure / paths over the same type filter
                adj = {}
                for n2 in ents:
                    adj[n2] = sorted({r[2] for r in rows if r[0] in scope and r[1] == n2 and lex_of[r[2]] in scope
                                      and (not args or r[3] in args)})
                reach, frontier = set(), list(adj.get(nm, []))
                while frontier:
                    y = frontier.pop()
                    if y not in reach:
                        reach.add(y)
                        frontier.extend(adj.get(y, []))
                st, v = budget.call(lambda: list(e.closure(*args)), budget=500)
                if st == 'budget':
                    bad('closure:nontermination', f'{nm}.closure{args} exceeded the step budget [{tag}]')
                elif st != 'ok':
                    bad('closure:raises', f'{nm}.closure{args} raised {v!r} [{tag}]')
                else:
                    got = [name_of(x, lid) for x in v]
                    if len(got) != len(set(got)) or set(got) != reach:
                        bad('closure:differs', f'{nm}.closure{args} = {got} expected {sorted(reach)} [{tag}]')
                st, v = budget.call(lambda: list(e.relation_paths(*args)), budget=500)
                if st == 'budget':
                    bad('relation_paths:nontermination', f'{nm}.relation_paths{args} exceeded the step budget [{tag}]')
                elif st != 'ok':
                    bad('relation_paths:raises', f'{nm}.relation_paths{args} raised {v!r} [{tag}]')
                else:
                    got = sorted(tuple(name_of(x, lid) for x in p) for p in v)
                    if any(len(set(p)) != len(p) or nm in p for p in got):
                        bad('relation_paths:not-simple', f'{nm}.relation_paths{args} = {got} [{tag}]')
                    elif got != ref_paths({k: [y for y in a if y != k] for k, a in adj.items()}, nm):
                        bad('relation_paths:differs', f'{nm}.relation_paths{args} = {got} expected '
                            f'{ref_paths({k: [y for y in a if y != k] for k, a in adj.items()}, nm)} [{tag}]')
            # relation_paths(end=y): exactly the simple paths from the entity that stop at y
            if kind != 's-ss':
                adj_all = {}
                for n2 in ents:
                    adj_all[n2] = sorted({r[2] for r in rows if r[0] in scope and r[1] == n2 and lex_of[r[2]] in scope})
                for ynm, y in ents.items():
                    st, v = budget.call(lambda: list(e.relation_paths(end=y)), budget=500)
                    if st != 'ok':
                        bad(f'relation_paths(end):{st}', f'{nm}.relation_paths(end={ynm}) -> {v!r} [{kind}:{sname}]')
                        continue
                    got = sorted(tuple(name_of(x, lid) for x in p) for p in v)
                    exp_p = []

                    def rec(path, visited):
                        last = path[-1] if path else nm
                        if path and last == ynm:
                            exp_p.append(tuple(path))
                            return
                        for z in adj_all.get(last, []):
                            if z not in visited and z != nm:
                                rec(path + [z], visited | {z})
                    rec([], {nm})
                    if got != sorted(exp_p):
                        bad('relation_paths(end):differs', f'{nm}.relation_paths(end={ynm}) = {got} expected {sorted(exp_p)} [{kind}:{sname}]')
            # relation_map: keys distinct by (name, source, target, lexicon, dc:type)
            if kind == 's-ss':
                continue
            st, v = budget.call(e.relation_map, budget=500)
            if st != 'ok':
                bad(f'relation_map:{st}', f'{nm}.relation_map() -> {v!r}')
                continue
            exp_keys = {}
            for r in vis:
                exp_keys.setdefault((r[3], r[2], r[0], r[4].get('type')), []).append(r[4])
            got_keys = {}
            for rel, tgt in v.items():
                k = (rel.name, name_of(tgt, lid), rel_lexicon(rel), rel.subtype)
                got_keys.setdefault(k, []).append(rel)
                want_src = e.id
                if rel.source_id != want_src or rel.target_id != tgt.id:
                    bad('relation_map:source-or-target-id', f'{nm}.relation_map(): {rel!r} -> {tgt!r} [{kind}:{sname}]')
                if rel.lexicon().specifier() != rel_lexicon(rel):
                    bad('relation_map:lexicon()', f'{rel!r}.lexicon() = {rel.lexicon().specifier()} [{kind}:{sname}]')
            obs.append(sorted(map(repr, got_keys)))
            if set(got_keys) != set(exp_keys) or any(len(x) != 1 for x in got_keys.values()):
                bad('relation_map:keys', f'{nm}.relation_map() keys {sorted(map(repr, got_keys))} expected '
                    f'{sorted(map(repr, exp_keys))} [{kind}:{sname}]')
            else:
                for k, rels in got_keys.items():
                    if rels[0].metadata() not in exp_keys[k]:
                        bad('relation_map:metadata', f'{nm}.relation_map() {k}: metadata {rels[0].metadata()} not among '
                            f'declared {exp_keys[k]} [{kind}:{sname}]')
        # shortcut
        if kind == 'ss':
            for nm, e in ents.items():
                vis = [r for r in rows if r[0] in S and r[1] == nm and lex_of[r[2]] in S and r[3] == 'hypernym']
                got = {name_of(x, lid) for x in e.hypernyms()}
                if got != {r[2] for r in vis}:
                    bad('hypernyms():differs', f'{nm}.hypernyms() = {sorted(got)} expected {sorted(r[2] for r in vis)} [{sname}]')


def check(case):
    env.fresh_db()
    dbdir = env.db_path().parent
    V, digs = [], []
    try:
        built = []
        lexs = []
        insts = case['alphabet']
        for k, g in enumerate(case['items']):
            lid = f'r{k}'
            ms = [tuple(insts[i]) for i in g['ms']]
            base, extl, rows = build(lid, g['kind'], ms, g['ext'])
            lexs.append(base)
            if extl:
                lexs.extend(extl if isinstance(extl, list) else [extl])
            built.append((lid, g, rows))
        # bases first (an extension bundled with its base would be skipped by the pre-check)
        env.add_resource(mk.resource([l for l in lexs if not l.get('extends')], '1.3'))
        exts = [l for l in lexs if l.get('extends')]
        lvl1 = [l for l in exts if not l['extends']['id'].endswith('x')]
        lvl2 = [l for l in exts if l['extends']['id'].endswith('x')]
        if lvl1:
            env.add_resource(mk.resource(lvl1, '1.3'))
        if lvl2:
            env.add_resource(mk.resource(lvl2, '1.3'))
        nt = 0
        for lid, g, rows in built:
            obs = []
            one = {'alphabet': insts, 'items': [g]}
            check_one(lid, g['kind'], rows, g['ext'], V, obs, one)
            if g['ms']:
                nt += 1
                digs.append(runner.digest(obs))
        return {'v': V, 'digs': digs, 'nt': nt, 'n': len(built)}
    finally:
        env.drop_db(dbdir)


def space(tier, seed):
    if tier == 'thorough':
        insts = instances()
        sizes = (0, 1, 2)
        insts3 = instances(types=['hypernym', 'similar'], dct=[None, 'p'], xm=[None])
    else:
        insts = instances()
        sizes = (0, 1, 2)
        insts3 = None
    items = []
    idx = range(len(insts))
    for kind in KINDS:
        for size in sizes:
            for ms in itertools.combinations_with_replacement(idx, size):
                if tier == 'quick' and size == 2:
                    # quick: pairs that share the source (where DISTINCT/dc:type interactions live) + rotating slice
                    a, b = insts[ms[0]], insts[ms[1]]
                    if a[0] != b[0] and (ms[0] + ms[1]) % 4 != seed % 4:
                        continue
                    if a[0] == b[0] and a[1] != b[1] and (ms[0] + ms[1]) % 2 != seed % 2:
                        continue
                items.append({'kind': kind, 'ms': list(ms), 'ext': False})
                if size >= 1 and (tier == 'thorough' or size == 1 or (ms[0] + ms[1]) % 3 == seed % 3):
                    items.append({'kind': kind, 'ms': list(ms), 'ext': True})
                if size == 1:
                    # a second node of the extension pointing at an extension sense that hangs on a base synset;
                    # an extension of the extension contributing to the first extension's node
                    items.append({'kind': kind, 'ms': list(ms), 'ext': 'x2'})
                    items.append({'kind': kind, 'ms': list(ms), 'ext': 'xx'})
    cases = [{'alphabet': insts, 'items': items[i:i + BATCH]} for i in range(0, len(items), BATCH)]
    if insts3:
        items3 = []
        for kind in KINDS:
            for ms in itertools.combinations_with_replacement(range(len(insts3)), 3):
                items3.append({'kind': kind, 'ms': list(ms), 'ext': False})
                items3.append({'kind': kind, 'ms': list(ms), 'ext': True})
        cases += [{'alphabet': insts3, 'items': items3[i:i + BATCH]} for i in range(0, len(items3), BATCH)]
    return cases


def run(tier, seed, jobs=None):
    cases = space(tier, seed)
    rule = ('relation instance = (source, target in 2 nodes, type in {hypernym, similar, x_custom}, dc:type in '
            '{none,p,q}, extra metadata in {none, dc:source}); every multiset of <=2 instances per relation table '
            '(quick: all singletons, all same-source-same-target pairs, rotating slice of the other pairs; thorough: '
            'all pairs plus all triples over a reduced alphabet), with and without an extension contributing the last '
            'instance; 4 scopes; 7 type-argument sets. evaluations = lexicons built; distinct = distinct observation digests.')
    n_items = sum(len(c['items']) for c in cases)
    return runner.run_space(PROP, tier, seed, cases, check, rule=rule, jobs=jobs, chunk=1,
                            samples=[cases[0]['items'][1], cases[len(cases) // 2]['items'][0], cases[-1]['items'][-1]],
                            extra={'multisets': n_items},
                            assumptions=['reference relation semantics in wnmc/props/c11.py'])


def replay(path):
    return runner.replay(PROP, path, check)
