"""C16 - results are a function of database content and arguments only.

Engine E4: for every item of a battery covering the public query, navigation, taxonomy,
similarity, IC, validate, dump and export entry points, a deviation-bounded DFS explores
the order in which every hash-seed-dependent set is iterated inside wn (import-hook AST
instrumentation, no change to /repo); every execution must yield the identical
transcript (list order, mapping order, numbers, bytes). The same battery is then run
uninstrumented in K separate processes with different PYTHONHASHSEED values."""
import json
import os
import subprocess
import sys
import tempfile
import time

from .. import runner, env

PROP = 'C16'

MANIFEST = dict(
    category='model_checking', design_ref='DESIGN.md §3 C16, §2.8',
    engine='E4-choice',
    technique='stateless deviation-bounded DFS over set-iteration-order choices inside the real wn code (AST-instrumented import) per battery item, bound to reality by byte-comparison of uninstrumented runs under different PYTHONHASHSEED values',
    text='A battery of about 175 items (every public query/navigation method on three generated databases rich in order-sensitive structure - several lowest common hypernyms at different distances, equally short paths, entry-level frames shared between senses, many non-reciprocated relations onto one target, extensions, two versions with identical ids - plus taxonomy, similarity, wn.ic.compute, res/jcn/lin, Morphy, validate, lmf.dump, wn.export in 1.0 and 1.3, scan/load) is executed under a scheduler that owns the iteration order of every set/frozenset whose element hashes depend on the hash seed: all m! orders for m <= 4, otherwise sorted/reversed/each-element-first; all schedules with at most 1 (thorough: 2) non-default choices are explored per item and every one must produce byte-identical canonical transcripts, in which list order and mapping order are kept. Each item is also run twice in one process; for ordered pairs (Y, X) of items, with Y ranging over the taxonomy/similarity/IC/Morphy/validate/export items (all of them in the thorough tier, a rotating sixth in the quick tier) and X over the whole battery, X is re-run after Y and must return what it returned in a fresh process (read-only calls do not change later results); and the whole battery is run uninstrumented in separate processes with PYTHONHASHSEED 0..K-1 (K=4 quick, 24 thorough) whose transcripts must be identical to each other. History items also cover reads followed by the arrival of an extension of a lexicon that was read (nothing removed), through both entry points.',
    note='Sets of integers (rowids) are not permuted: their iteration order does not depend on the hash seed. Every permutation of a small set of strings/entities is the iteration order under some seed, so a divergence found by E4 is realisable; the cross-process stage exhibits concrete seeds where it can.',
)

VERIF = str(runner.VERIF)


def _spawn(args, seed):
    pp = VERIF + (os.pathsep + os.environ['PYTHONPATH'] if os.environ.get('PYTHONPATH') else '')
    env = dict(os.environ, PYTHONHASHSEED=str(seed), PYTHONPATH=pp)
    return subprocess.Popen([sys.executable, '-B', '-m', 'wnmc.e4_worker'] + args, cwd=VERIF, env=env,
                            stdout=subprocess.PIPE, stderr=subprocess.STDOUT)


def family(name):
    parts = name.split(':')
    fam = parts[0] + ':' + parts[1].split('(')[0] if len(parts) > 1 else parts[0]
    return fam


def run(tier, seed, jobs=None):
    t0 = time.time()
    jobs = jobs or runner.jobs_default()
    bound = 1 if tier == 'quick' else 2
    max_exec = 3000 if tier == 'quick' else 60000
    K = 4 if tier == 'quick' else 24
    tmp = tempfile.mkdtemp(prefix='wnmc16r.', dir=env.scratch_parent())
    V, vcount = [], {}
    try:
        nsh = max(1, jobs - min(K, 4))
        # the exploration is cut into more shards than run at a time (thorough: four times as many), started as
        # earlier ones finish: a few items take a hundred times longer than the rest
        nshards = nsh if tier == 'quick' else 4 * nsh
        todo = list(range(nshards))
        procs, live = [], []

        def start_shards():
            live[:] = [p for p in live if p.poll() is None]
            while todo and len(live) < nsh:
                i = todo.pop(0)
                out = os.path.join(tmp, f'x{i}.json')
                p = _spawn(['explore', str(bound), str(max_exec), out, f'{i}/{nshards}'], 0)
                procs.append(('x', out, p))
                live.append(p)
        start_shards()
        seeds = [(seed * 7 + k) % 4096 for k in range(K)]
        plain = []
        pending = list(seeds)
        running = []
        while pending or running:
            while pending and len(running) < 4:
                sd = pending.pop(0)
                out = os.path.join(tmp, f'p{sd}.json')
                nslices = K * (6 if tier == 'quick' else 1)
                running.append((sd, out, _spawn(['plain', out, f'{(seeds.index(sd) + seed) % nslices}/{nslices}'], sd)))
            sd, out, p = running.pop(0)
            o, _ = p.communicate()
            if p.returncode != 0:
                sys.stderr.write(o.decode()[-3000:])
                sys.exit(runner.HARNESS_ERROR)
            plain.append((sd, json.load(open(out))))
            start_shards()
        explored = {}
        while todo:
            start_shards()
            time.sleep(0.5)
        for _, out, p in procs:
            o, _ = p.communicate()
            if p.returncode != 0:
                sys.stderr.write(o.decode()[-3000:])
                sys.exit(runner.HARNESS_ERROR)
            explored.update(json.load(open(out)))
        executions = sum(v['executions'] for v in explored.values())
        points = sum(v['points_max'] for v in explored.values())
        capped = [k for k, v in explored.items() if v['capped']]
        for name, v in explored.items():
            if v['n_outcomes'] > 1:
                a, b = v['outcomes'][0], v['outcomes'][1]
                key = f'order:{family(name)}'
                vcount[key] = vcount.get(key, 0) + 1
                V.append((key, f'{name}: {v["n_outcomes"]} different results depending on set iteration order '
                          f'(choice prefix {b["prefix"]})', {'item': name, 'prefix': b['prefix']},
                          {'default': a['t'][:3000], 'other': b['t'][:3000]}))
            if v['default'][:100000] != v['outcomes'][0]['t'][:100000] and not v['capped']:
                key = f'order:sorted-vs-hash-order:{family(name)}'
                vcount[key] = vcount.get(key, 0) + 1
                V.append((key, f'{name}: iterating sets in sorted order and in the interpreter\'s hash order give '
                          f'different results in the same process', {'item': name}, None))
        # interference between different read-only calls in one process
        pairs_run = 0
        for sd, res in plain:
            pr = res.pop('__pairs__', {'count': 0, 'interference': []})
            pairs_run += pr['count']
            for yname, xname in pr['interference']:
                key = f'interference:{family(yname)}->{family(xname)}'
                vcount[key] = vcount.get(key, 0) + 1
                V.append((key, f'running {yname} first changes the result of {xname} (PYTHONHASHSEED={sd})',
                          {'item': xname, 'after': yname, 'seed': sd}, None))
        # histories: reads before a change of the database must not alter what is read afterwards
        for sd, res in plain:
            for nm in res.pop('__history__', []):
                key = 'history:earlier-reads-change-later-results'
                vcount[key] = vcount.get(key, 0) + 1
                V.append((key, f'{nm}: after the database changed (lexicons removed and/or added) in the same process, the reads '
                          f'differ from those of a process that had not read before (PYTHONHASHSEED={sd})',
                          {'item': nm, 'seed': sd}, None))
        # cross-process stage
        ref_seed, ref = plain[0]
        for sd, res in plain:
            for name, r in res.items():
                if r.get('raised') and sd == ref_seed:
                    # a battery entry that raises decides nothing (it would read as perfectly deterministic)
                    key = f'battery:item-raises:{family(name)}'
                    vcount[key] = vcount.get(key, 0) + 1
                    V.append((key, f'{name}: {r["t"][:300]}', {'item': name}, None))
                if not r['repeat_same']:
                    key = f'repeat:{family(name)}'
                    vcount[key] = vcount.get(key, 0) + 1
                    V.append((key, f'{name}: two calls in one process (PYTHONHASHSEED={sd}) differ', {'item': name, 'seed': sd}, None))
                if r['t'] != ref[name]['t']:
                    key = f'hashseed:{family(name)}'
                    vcount[key] = vcount.get(key, 0) + 1
                    V.append((key, f'{name}: result under PYTHONHASHSEED={sd} differs from PYTHONHASHSEED={ref_seed}',
                              {'item': name, 'seeds': [ref_seed, sd]},
                              {'a': ref[name]['t'][:3000], 'b': r['t'][:3000]}))
        # the instrumented default order must agree with the real runs (binding to reality)
        for name, v in explored.items():
            if name in ref and v['outcomes'][0]['t'][:100000] != ref[name]['t'][:100000]:
                key = f'instrumented-vs-real:{family(name)}'
                vcount[key] = vcount.get(key, 0) + 1
                V.append((key, f'{name}: instrumented default-order run differs from the uninstrumented run', {'item': name},
                          {'instrumented': v['outcomes'][0]['t'][:2000], 'real': ref[name]['t'][:2000]}))
        cov = {
            'states': executions, 'transitions': sum(v['executions'] * max(1, v['points_max']) for v in explored.values()),
            'traces_validated_against_impl': executions + len(plain) * len(ref),
            'battery_items': len(explored), 'ordered_call_pairs_checked': pairs_run, 'choice_points_default_run': points, 'deviation_bound': bound,
            'items_capped': capped, 'slowest_items': sorted(((v.get('wall', 0), k) for k, v in explored.items()), reverse=True)[:5], 'hash_seeds': [s for s, _ in plain],
            'distinct_transcripts': len({v['outcomes'][0]['t'] for v in explored.values()}),
            'samples': [{'item': n, 'executions': v['executions'], 'choice_points': v['points_max']}
                        for n, v in list(explored.items())[:3]] +
                       [{'item': n, 'executions': v['executions'], 'choice_points': v['points_max']}
                        for n, v in sorted(explored.items(), key=lambda kv: -kv[1]['points_max'])[:3]],
            'exhaustive': not capped, '_vcount': vcount,
        }
        return runner.report(PROP, tier, seed, 'model_checking', cov, V, t0,
                             assumptions=['AST instrumentation covers set displays, comprehensions, set()/frozenset() calls in wn.*',
                                          'CPython dict ordering is insertion order'])
    finally:
        import shutil
        shutil.rmtree(tmp, ignore_errors=True)


def replay(path):
    data = json.load(open(path))
    item = data['case']['item']
    out = tempfile.mktemp(suffix='.json')
    p = _spawn(['explore', '2', '20000', out, '0/1', item], 0)
    o, _ = p.communicate()
    res = json.load(open(out))
    os.unlink(out)
    bad = [n for n, v in res.items() if v['n_outcomes'] > 1]
    for n in bad:
        print(f'REPRODUCED property={PROP} item={n} outcomes={res[n]["n_outcomes"]}')
    if bad:
        print(f'VIOLATION property={PROP} replay={path}')
        return 1
    print(f'{PROP}: item {item!r} is order-independent on this tree (D<=2)')
    return 0
