"""C12 - relations borrowed through expand lexicons are mapped by ILI as documented.

Engine E2: every lexicon L (<=2 / <=3 synsets, ILI of each in {i1,i2,none,proposed},
own relations) x every expand lexicon E (3 synsets over several ILI patterns, every
subset of the 6 hypernym edges) x expand settings; plus a configuration space for the
default-expand rule (dependency declared / undeclared, installed / missing)."""
import itertools
import warnings

import wn

from .. import env, mk, runner, budget
from ..observe import rel_lexicon, ili_of

PROP = 'C12'

MANIFEST = dict(
    category='exploration', design_ref='DESIGN.md §3 C12',
    technique='bounded-exhaustive enumeration of (lexicon, expand lexicon) pairs with partially overlapping ILIs x expand settings on the real query layer vs a reference model of ILI-mediated relation borrowing',
    text='Every lexicon L with up to 2 (thorough: 3) synsets whose ILIs range over {i1, i2, none, proposed} and whose own hypernym relations range over subsets of the ordered pairs is paired with every expand lexicon E of 3 synsets (ILI patterns with unique, repeated and missing ILIs; every subset of the 6 possible hypernym edges; thorough: a second expand lexicon E2). For each synset of L and each expand setting (disabled, explicit E, explicit "E E2", default) relations(), get_related(), relation_map(), hypernyms(), hypernym_paths() and closure() are compared with the reference: own relations first, then for each E-synset sharing the ILI its relations with targets mapped to the L-synsets of the target ILI or to an *INFERRED* placeholder carrying that ILI, ILI-less targets dropped, Relation objects keeping E\'s source/target/lexicon; paths through chains of placeholders included, and every placeholder met is itself queried (get_related, hypernym_paths, closure) against the same rule. A separate configuration space checks expanded_lexicons() and the WnWarning for every combination of declared / undeclared and installed / missing dependencies in restricted and unrestricted mode. Histories in one process: the queried lexicon is observed, removed, added again with other ILIs (re-using the freed rowids) and observed again, for 20 ILI sequences x 4 (thorough: 63) edge sets of the expand lexicon.',
    note='Order is compared only for "own relations before borrowed ones". Two *INFERRED* placeholders are distinguished by their ILI.',
)

E_ILIS = [('i1', 'i2', 'i3'), ('i1', 'i1', 'i2'), ('i1', None, 'i2'), ('i2', 'i3', 'i3')]
PAIRS3 = [(a, b) for a in range(3) for b in range(3) if a != b]
L_ILI = ['i1', 'i2', None, 'in']


def build_L(lid, ilis, own, requires=()):
    syn = []
    for k, ili in enumerate(ilis):
        rels = [mk.rel(f'{lid}-{t}', 'hypernym') for (s, t) in own if s == k]
        kw = {}
        if ili == 'in':
            kw['ili_definition'] = {'text': 'p', 'meta': None}
        syn.append(mk.synset(f'{lid}-{k}', 'n', ili or '', relations=rels, **kw))
    return mk.lexicon(lid, '1', synsets=syn, requires=requires)


def build_E(eid, ilis, edges, language='en', version='1'):
    syn = []
    for k, ili in enumerate(ilis):
        rels = [mk.rel(f'{eid}-{t}', 'hypernym') for (s, t) in edges if s == k]
        syn.append(mk.synset(f'{eid}-{k}', 'n', ili or '', relations=rels))
    lex = mk.lexicon(eid, version, language, synsets=syn)
    if version != '1':
        for ss in lex['synsets']:
            ss['id'] += 'v' + version
            for r in ss.get('relations', []):
                r['target'] += 'v' + version
    return lex


class Ref:
    """reference expand semantics. L: (lid, ilis, own); Es: list of (eid, ilis, edges)"""

    def __init__(self, L, Es):
        self.lid, self.lilis, self.own = L
        self.Es = Es

    def l_by_ili(self, ili):
        return [('L', k) for k, i in enumerate(self.lilis) if i == ili and ili not in (None, 'in')]

    def step(self, node):
        """node = ('L', k) | ('INF', ili) -> ordered list of (relation key, target node)
        relation key = (name, source id, target id, lexicon spec)"""
        out = []
        if node[0] == 'L':
            k = node[1]
            for (s, t) in self.own:
                if s == k:
                    out.append((('hypernym', f'{self.lid}-{s}', f'{self.lid}-{t}', f'{self.lid}:1'), ('L', t)))
            ili = self.lilis[k]
            if ili in (None, 'in'):
                return out
        else:
            ili = node[1]
        for eid, eilis, edges in self.Es:
            for s, si in enumerate(eilis):
                if si != ili:
                    continue
                for (a, b) in edges:
                    if a != s:
                        continue
                    # the target must belong to an expand lexicon (it does: same lexicon) and have an ILI
                    ti = eilis[b]
                    if ti is None:
                        continue
                    rk = ('hypernym', f'{eid}-{a}', f'{eid}-{b}', f'{eid}:1')
                    local = self.l_by_ili(ti)
                    if local:
                        for n in local:
                            out.append((rk, n))
                    else:
                        out.append((rk, ('INF', ti)))
        return out

    def paths(self, start):
        out = []

        def rec(path, visited):
            last = path[-1] if path else start
            nxt = []
            for _, t in self.step(last):
                if t not in visited and t not in nxt:
                    nxt.append(t)
            if not nxt:
                if path:
                    out.append(tuple(path))
                return
            for y in nxt:
                rec(path + [y], visited | {y})
        rec([], {start})
        return sorted(out, key=repr)


def _reach(ref, start):
    seen, todo = [], [start]
    while todo:
        for _, t in ref.step(todo.pop()):
            if t not in seen:
                seen.append(t)
                todo.append(t)
    return seen


def node_of(ss, lid):
    if ss.id == '*INFERRED*':
        return ('INF', ili_of(ss))
    return ('L', int(ss.id[len(lid) + 1:]))


def observe_synset(w, lid, k, ref, V, tag, g, obs):
    def bad(key, msg):
        V.append((key, f'{msg} [{tag}] :: {g}', None, g))
    x = w.synset(f'{lid}-{k}')
    exp = ref.step(('L', k))
    # the full (relation, target) pair list is only available through a private iterator; where a refactoring has
    # removed it the public views below still decide the property
    if hasattr(x, '_iter_relations'):
        st, v = budget.call(lambda: list(x._iter_relations()), budget=2000)
        got = [((r.name, r.source_id, r.target_id, rel_lexicon(r)), node_of(t, lid)) for r, t in v] if st == 'ok' else None
        if st != 'ok':
            bad(f'relations:{st}', f'{lid}-{k} relations -> {v!r}')
            return
        obs.append(sorted(map(repr, got)))
        if sorted(got, key=repr) != sorted(exp, key=repr):
            bad('relations:differs', f'{lid}-{k}: (relation, target) pairs {sorted(got, key=repr)} expected {sorted(exp, key=repr)}')
            return
    # own relations come first ("its own relations followed by ..."), seen through the public get_related()
    own_t = [t for rk, t in exp if rk[3] == f'{lid}:1']
    st, v = budget.call(x.get_related, budget=2000)
    if st == 'ok' and own_t:
        seq = [node_of(t, lid) for t in v]
        first_borrowed = min((seq.index(t) for rk, t in exp if rk[3] != f'{lid}:1' and t in seq and t not in own_t), default=len(seq))
        if any(seq.index(t) > first_borrowed for t in own_t if t in seq):
            bad('relations:own-not-first', f'{lid}-{k}.get_related() = {seq}: a borrowed target precedes an own one')
    # public views
    rel = x.relations()
    got_pub = sorted((name, repr(node_of(t, lid))) for name, lst in rel.items() for t in lst)
    exp_pub = sorted({(rk[0], repr(t)) for rk, t in exp})
    if got_pub != exp_pub:
        bad('relations():differs', f'{lid}-{k}.relations() = {got_pub} expected {exp_pub}')
    gr = [node_of(t, lid) for t in x.get_related()]
    if sorted(map(repr, gr)) != sorted({repr(t) for _, t in exp}):
        bad('get_related():differs', f'{lid}-{k}.get_related() = {gr} expected {sorted({repr(t) for _, t in exp})}')
    hy = [node_of(t, lid) for t in x.hypernyms()]
    if sorted(map(repr, hy)) != sorted({repr(t) for _, t in exp}):
        bad('hypernyms():differs', f'{lid}-{k}.hypernyms() = {hy}')
    rm = x.relation_map()
    exp_keys = {}
    for rk, t in exp:
        exp_keys.setdefault(rk, set()).add(t)
    got_keys = {(r.name, r.source_id, r.target_id, rel_lexicon(r)): node_of(t, lid) for r, t in rm.items()}
    if set(got_keys) != set(exp_keys) or any(got_keys[rk] not in exp_keys[rk] for rk in got_keys):
        bad('relation_map():differs', f'{lid}-{k}.relation_map() = {got_keys} expected one of {exp_keys}')
    for r in rm:
        if r.lexicon().specifier() != rel_lexicon(r):
            bad('relation_map():lexicon', f'{r!r}.lexicon() = {r.lexicon().specifier()}')
    st, v = budget.call(x.hypernym_paths, budget=4000)
    if st != 'ok':
        bad(f'hypernym_paths:{st}', f'{lid}-{k}.hypernym_paths() -> {v!r}')
    else:
        gp = sorted((tuple(node_of(t, lid) for t in p) for p in v), key=repr)
        obs.append(repr(gp))
        if gp != ref.paths(('L', k)):
            bad('hypernym_paths:differs', f'{lid}-{k}.hypernym_paths() = {gp} expected {ref.paths(("L", k))}')
        # the placeholders met on the way are synsets in their own right: their relations follow the same
        # rule (the E-synsets sharing their ILI), and so do paths and closures starting from them
        inf = {}
        for pth in v:
            for t in pth:
                if t.id == '*INFERRED*':
                    inf.setdefault(node_of(t, lid), t)
        for nd, t in sorted(inf.items()):
            st2, v2 = budget.call(t.get_related, budget=2000)
            exp_t = sorted({repr(y) for _, y in ref.step(nd)})
            if st2 != 'ok' or sorted({repr(node_of(y, lid)) for y in v2}) != exp_t:
                bad('placeholder:get_related', f'{lid}-{k}: placeholder {nd}.get_related() -> {v2!r} expected {exp_t}')
            st2, v2 = budget.call(t.hypernym_paths, budget=4000)
            gp2 = sorted((tuple(node_of(y, lid) for y in p) for p in v2), key=repr) if st2 == 'ok' else v2
            if gp2 != ref.paths(nd):
                bad('placeholder:hypernym_paths', f'{lid}-{k}: placeholder {nd}.hypernym_paths() = {gp2!r} expected {ref.paths(nd)}')
            st2, v2 = budget.call(lambda: list(t.closure('hypernym')), budget=4000)
            gc2 = sorted((node_of(y, lid) for y in v2), key=repr) if st2 == 'ok' else v2
            if gc2 != sorted(_reach(ref, nd), key=repr):
                bad('placeholder:closure', f'{lid}-{k}: placeholder {nd}.closure() = {gc2!r} expected {sorted(_reach(ref, nd), key=repr)}')
        # relation_paths(end=t): exactly the simple paths from x that stop at t, for every placeholder t
        # (and every stored synset) on a path
        ends = dict(inf)
        for pth in v:
            for t in pth:
                ends.setdefault(node_of(t, lid), t)
        for nd, t in sorted(ends.items()):
            st2, v2 = budget.call(lambda: list(x.relation_paths('hypernym', 'instance_hypernym', end=t)), budget=4000)
            gp2 = sorted({tuple(node_of(y, lid) for y in p) for p in v2}, key=repr) if st2 == 'ok' else v2
            exp2 = sorted({p[:i + 1] for p in ref.paths(('L', k)) for i, y in enumerate(p) if y == nd
                           and nd not in p[:i]}, key=repr)
            if gp2 != exp2:
                bad('relation_paths(end):differs', f'{lid}-{k}.relation_paths(end={nd}) = {gp2!r} expected {exp2}')
    # closure over own + borrowed relations: every reachable synset (placeholders by ILI) exactly once
    st, v = budget.call(lambda: list(x.closure('hypernym')), budget=4000)
    gc = sorted((node_of(y, lid) for y in v), key=repr) if st == 'ok' else v
    obs.append(repr(gc))
    if gc != sorted(_reach(ref, ('L', k)), key=repr):
        bad('closure:differs', f'{lid}-{k}.closure(hypernym) = {gc!r} expected {sorted(_reach(ref, ("L", k)), key=repr)}')


def check_pairs(case):
    """one database: E (and E2), many L's; explicit expand settings only"""
    env.fresh_db()
    dbdir = env.db_path().parent
    V, digs = [], []
    try:
        e_ilis, e_mask = case['e_ilis'], case['e_mask']
        edges = [PAIRS3[i] for i in range(6) if e_mask >> i & 1]
        Es = [('E', tuple(e_ilis), edges)]
        lexs = [build_E('E', e_ilis, edges)]
        if case.get('e2'):
            e2 = case['e2']
            edges2 = [PAIRS3[i] for i in range(6) if e2['mask'] >> i & 1]
            Es.append(('F', tuple(e2['ilis']), edges2))
            lexs.append(build_E('F', e2['ilis'], edges2, 'fr'))
        # an installed extension of E that adds every possible hypernym edge between E's synsets: it is not
        # an expand lexicon, so nothing may be borrowed from it
        lexs.append(mk.lexicon('EX', '1', extends={'id': 'E', 'version': '1'},
                               synsets=[{'id': f'E-{a}', 'external': True,
                                         'relations': [mk.rel(f'E-{b}', 'hypernym') for b in range(3) if b != a]}
                                        for a in range(3)]))
        Ls = []
        for j, (lil, own) in enumerate(case['Ls']):
            lid = f'L{j}'
            own = [tuple(p) for p in own]
            Ls.append((lid, tuple(lil), own))
            lexs.append(build_L(lid, lil, own))
        env.add_resource(mk.resource([x for x in lexs if not x.get('extends')], '1.3'))
        env.add_resource(mk.resource([x for x in lexs if x.get('extends')], '1.3'))
        n = 0
        for (lid, lil, own) in Ls:
            g = dict(case, Ls=[[list(lil), [list(p) for p in own]]])
            obs = []
            settings = [('none', '', []), ('E', 'E:1', Es[:1])]
            if len(Es) > 1:
                settings += [('E F', 'E:1 F:1', Es), ('F', 'F:1', Es[1:])]
            for name, expand, use in settings:
                with warnings.catch_warnings():
                    warnings.simplefilter('ignore')
                    w = wn.Wordnet(lexicon=f'{lid}:1', expand=expand)
                got_e = sorted(x.specifier() for x in w.expanded_lexicons())
                if got_e != sorted(f'{e[0]}:1' for e in use):
                    V.append(('expanded_lexicons:explicit', f'expand={expand!r}: {got_e}', None, g))
                ref = Ref((lid, lil, own), use)
                for k in range(len(lil)):
                    n += 1
                    observe_synset(w, lid, k, ref, V, f'expand={name}', g, obs)
            digs.append(runner.digest(obs))
        return {'v': V, 'digs': digs, 'nt': len(digs), 'n': n}
    finally:
        env.drop_db(dbdir)


def check_config(case):
    """default-expand rule: dependencies declared / installed, restricted / unrestricted"""
    env.fresh_db()
    dbdir = env.db_path().parent
    V = []
    try:
        declared, installed = case['declared'], case['installed']
        edges = [(0, 1), (1, 2)]
        lexs = []
        if 'E' in installed:
            lexs.append(build_E('E', ('i1', 'i2', 'i3'), edges))
        if 'F' in installed:
            lexs.append(build_E('F', ('i1', 'i3', 'i2'), edges, 'fr'))
        req = [{'id': d, 'version': '1'} for d in declared]
        L = ('L', ('i1', None), [])
        lexs.append(build_L('L', L[1], [], requires=req))
        order = case.get('order', 'deps-first')
        if order == 'deps-last':
            lexs = lexs[-1:] + lexs[:-1]
        for lx in lexs:
            env.add_resource(mk.resource([lx], '1.3'))
        inst_specs = sorted(f'{x}:1' for x in installed)
        # restricted, default expand
        with warnings.catch_warnings(record=True) as rec:
            warnings.simplefilter('always')
            w = wn.Wordnet(lexicon='L:1')
        got = sorted(x.specifier() for x in w.expanded_lexicons())
        exp = sorted(f'{d}:1' for d in declared if d in installed)
        if got != exp:
            V.append(('default-expand:restricted', f'declared {declared} installed {installed} ({order}): '
                      f'expanded_lexicons() = {got} expected {exp}'))
        missing = [d for d in declared if d not in installed]
        warned = [str(r.message) for r in rec if issubclass(r.category, wn.WnWarning)]
        if bool(missing) != bool(warned):
            V.append(('default-expand:warning', f'declared {declared} installed {installed}: warnings {warned}'))
        if warned and not all(f'{m}:1' in warned[0] for m in missing):
            V.append(('default-expand:warning-text', f'missing {missing}: warnings {warned}'))
        use = [(d, {'E': ('i1', 'i2', 'i3'), 'F': ('i1', 'i3', 'i2')}[d], edges) for d in declared if d in installed]
        obs = []
        observe_synset(w, 'L', 0, Ref(L, use), V, f'default restricted declared={declared} installed={installed}', case, obs)
        # restricted by lang
        with warnings.catch_warnings():
            warnings.simplefilter('ignore')
            w = wn.Wordnet(lang='en')
        sel = sorted(x.specifier() for x in w.lexicons())
        # lang=en selects L and E (both English): default expand = declared installed deps of the selected ones
        got = sorted(x.specifier() for x in w.expanded_lexicons())
        if got != exp:
            V.append(('default-expand:lang', f'lang=en selection {sel}: expanded_lexicons() = {got} expected {exp}'))
        # unrestricted: every lexicon
        with warnings.catch_warnings(record=True) as rec:
            warnings.simplefilter('always')
            w = wn.Wordnet()
        got = sorted(x.specifier() for x in w.expanded_lexicons())
        if got != sorted(inst_specs + ['L:1']):
            V.append(('default-expand:unrestricted', f'expanded_lexicons() = {got} expected all of {inst_specs + ["L:1"]}'))
        if [r for r in rec if issubclass(r.category, wn.WnWarning)]:
            V.append(('default-expand:unrestricted-warns', 'unrestricted Wordnet warned about dependencies'))
        # expand='' and '*'
        with warnings.catch_warnings():
            warnings.simplefilter('ignore')
            if wn.Wordnet(lexicon='L:1', expand='').expanded_lexicons():
                V.append(('expand-empty:not-disabled', 'expand="" still has expand lexicons'))
            got = sorted(x.specifier() for x in wn.Wordnet(lexicon='L:1', expand='*').expanded_lexicons())
            if got != sorted(inst_specs + ['L:1']):
                V.append(('expand-star', f'expand="*": {got}'))
        return {'v': V, 'd': runner.digest([case, obs])}
    finally:
        env.drop_db(dbdir)


def check_versions(case):
    """selected lexicons declare dependencies on two versions of one provider id"""
    env.fresh_db()
    dbdir = env.db_path().parent
    V = []
    try:
        edges = [(0, 1), (1, 2)]
        inst = case['installed']
        for ver in inst:
            env.add_resource(mk.resource([build_E('E', ('i1', 'i2', 'i3'), edges, version=ver)], '1.3'))
        if case['layout'] == 'one':
            Ls = [build_L('L', ('i1', None), [], requires=[{'id': 'E', 'version': '1'}, {'id': 'E', 'version': '2'}])]
            sel = dict(lexicon='L:1')
        elif case['layout'] == 'shared':
            # both selected lexicons declare the same dependencies: each expand lexicon is listed once
            both = [{'id': 'E', 'version': '1'}, {'id': 'E', 'version': '2'}]
            Ls = [build_L('L', ('i1', None), [], requires=both), build_L('M', ('i2', None), [], requires=both)]
            sel = dict(lexicon='L:1 M:1')
        else:
            Ls = [build_L('L', ('i1', None), [], requires=[{'id': 'E', 'version': '1'}]),
                  build_L('M', ('i2', None), [], requires=[{'id': 'E', 'version': '2'}])]
            sel = dict(lexicon='L:1 M:1')
        for lx in Ls:
            env.add_resource(mk.resource([lx], '1.3'))
        with warnings.catch_warnings(record=True) as rec:
            warnings.simplefilter('always')
            w = wn.Wordnet(**sel)
        got = sorted(x.specifier() for x in w.expanded_lexicons())
        exp = sorted(f'E:{v}' for v in ('1', '2') if v in inst)
        if got != exp:
            V.append(('default-expand:two-versions-of-one-provider', f'{case}: expanded_lexicons() = {got} expected {exp}'))
        missing = [f'E:{v}' for v in ('1', '2') if v not in inst]
        warned = [str(r.message) for r in rec if issubclass(r.category, wn.WnWarning)]
        if bool(missing) != bool(warned) or (warned and not all(m in warned[0] for m in missing)):
            V.append(('default-expand:warning', f'{case}: missing {missing} warnings {warned}'))
        hy = sorted(t.id + '|' + str(ili_of(t)) for t in w.synset('L-0').hypernyms())
        exph = sorted(['*INFERRED*|i2'] * len(exp)) if case['layout'] == 'one' else sorted(
            ['M-0|i2'] * len(exp))
        if hy != sorted(set(exph)):
            V.append(('default-expand:two-versions:relations', f'{case}: hypernyms of L-0 = {hy} expected {sorted(set(exph))}'))
        return {'v': V, 'd': runner.digest([case, got])}
    finally:
        env.drop_db(dbdir)


def check_history(case):
    """one process, one database: E stays installed while the queried lexicon L is observed, removed and added
    again with OTHER ILIs (it takes over the freed rowids), observed, ... - every observation must follow the
    documents installed at that moment (a back-mapping ILI -> local synsets remembered from before is stale)"""
    env.fresh_db()
    dbdir = env.db_path().parent
    V, obs, n = [], [], 0
    try:
        e_ilis = case['e_ilis']
        edges = [PAIRS3[i] for i in range(6) if case['e_mask'] >> i & 1]
        env.add_resource(mk.resource([build_E('E', e_ilis, edges)], '1.3'))
        Es = [('E', tuple(e_ilis), edges)]
        for step, (lil, own) in enumerate(case['seq']):
            own = [tuple(q) for q in own]
            if step:
                env.remove('L:1')
            env.add_resource(mk.resource([build_L('L', lil, own)], '1.3'))
            for name, expand, use in (('E', 'E:1', Es), ('none', '', [])):
                with warnings.catch_warnings():
                    warnings.simplefilter('ignore')
                    w = wn.Wordnet(lexicon='L:1', expand=expand)
                ref = Ref(('L', tuple(lil), own), use)
                for k in range(len(lil)):
                    n += 1
                    observe_synset(w, 'L', k, ref, V, f'history step {step} expand={name}', case, obs)
        return {'v': V, 'digs': [runner.digest(obs)], 'nt': 1, 'n': n}
    finally:
        env.drop_db(dbdir)


def check(case):
    if case.get('versions'):
        return check_versions(case)
    if case.get('history'):
        return check_history(case)
    return check_config(case) if case.get('config') else check_pairs(case)


def space(tier, seed):
    cases = []
    nL = 3 if tier == 'thorough' else 2
    Ls = []
    for lil in itertools.product(L_ILI, repeat=2):
        for own in ([], [(0, 1)], [(1, 0)], [(0, 1), (1, 0)]):
            Ls.append([list(lil), [list(p) for p in own]])
    if tier == 'thorough':
        for lil in itertools.product(['i1', 'i2', None], repeat=3):
            for own in ([], [(0, 1), (1, 2)], [(2, 0)]):
                Ls.append([list(lil), [list(p) for p in own]])
    for e_ilis in E_ILIS:
        for mask in range(64):
            cases.append({'e_ilis': list(e_ilis), 'e_mask': mask, 'Ls': Ls})
    # a second expand lexicon
    masks2 = range(64) if tier == 'thorough' else [0, 1, 5, 9, 21, 42, 63, (7 * seed + 3) % 64]
    for mask in masks2:
        for m2 in ([3, 12, 33] if tier == 'thorough' else [12]):
            cases.append({'e_ilis': ['i1', 'i2', 'i3'], 'e_mask': mask,
                          'e2': {'ilis': ['i3', 'i1', 'i2'], 'mask': m2}, 'Ls': Ls})
    # histories: L observed, removed, re-added with other ILIs (same ids, freed rowids re-used), observed again
    seqs = []
    for a, b in itertools.permutations([('i1', None), ('i1', 'i2'), ('i2', 'i3'), (None, 'i3'), ('i3', 'i1')], 2):
        seqs.append([[list(a), []], [list(b), []]])
        seqs.append([[list(a), [[0, 1]]], [list(b), []], [list(a), [[1, 0]]]])
    for mask in ([21, 42, 63, 9] if tier == 'quick' else range(1, 64)):
        for sq in seqs:
            cases.append({'history': True, 'e_ilis': ['i1', 'i2', 'i3'], 'e_mask': mask, 'seq': sq})
    for layout in ('one', 'two', 'shared'):
        for installed in (['1', '2'], ['2', '1'], ['1'], ['2'], []):
            cases.append({'versions': True, 'layout': layout, 'installed': installed})
    for declared in ([], ['E'], ['E', 'F'], ['F']):
        for installed in ([], ['E'], ['F'], ['E', 'F']):
            for order in ('deps-first', 'deps-last'):
                cases.append({'config': True, 'declared': declared, 'installed': installed, 'order': order})
    return cases


def run(tier, seed, jobs=None):
    cases = space(tier, seed)
    rule = ('L: 2 synsets (thorough also 3), ILI of each in {i1,i2,none,proposed}, own hypernym relations in 4 patterns; '
            'E: 3 synsets, 4 ILI patterns x all 64 subsets of the 6 hypernym edges; optional second expand lexicon; '
            'expand in {disabled, E, "E F", F}; default-expand configuration space 4 declared x 4 installed x 2 orders. '
            'evaluations = synsets observed; distinct = distinct observation digests.')
    return runner.run_space(PROP, tier, seed, cases, check, rule=rule, jobs=jobs, chunk=1,
                            samples=[{k: v for k, v in cases[5].items() if k != 'Ls'}, cases[-3]],
                            extra={'pairs': sum(len(c.get('Ls', [])) for c in cases)},
                            recheck=check,
                            assumptions=['reference expand semantics in wnmc/props/c12.py, written from docs/guides/interlingual.rst and the property text'])


def replay(path):
    return runner.replay(PROP, path, check)
