"""C08 - lexicon specifiers and language codes select exactly the documented lexicons.

Engine E1 (histories = insertion orders, optional remove + re-add) x E2 (specifier
grammar): every ordered selection of <=4 of 6 lexicons (ids a / ab / b, versions
1, 1.0, 2+x, 2-rc) is installed on the real database and every specifier atom, every
ordered pair of atoms, with every language argument, is resolved by the real
Wordnet()/wn.lexicons()/wn.remove() and compared with the documented resolution."""
import itertools
import re
import warnings

import wn

from .. import env, mk, runner

# wn.lexicons() warns about every declared dependency that is not installed: millions of lines per run
warnings.filterwarnings("ignore", category=wn.WnWarning)

PROP = 'C08'

MANIFEST = dict(
    category='model_checking', design_ref='DESIGN.md §3 C08',
    engine='E1-history',
    technique='exhaustive enumeration of insertion-order histories (<=4 of 6 lexicons, optional remove/re-add) x specifier atoms x ordered atom pairs x lang on the real database vs the documented resolution',
    text='For every ordered selection of up to 4 of the lexicons a:1, a:1.0, a:2+x (en), ab:1 (cmn-Hans) and b:1, b:2-rc (es; some declaring dependencies that are not installed) - 517 installation histories, each also followed by one remove + re-add so that recency follows the last addition - every specifier atom (*, bare id, id:version, id:*, *:version, star globs, question-mark and bracket globs, unknown id/version), every ordered pair of atoms and every lang value (None, en, es, cmn-Hans, xx) is resolved by Wordnet(...).lexicons(); the result set must equal the documented resolution (bare id = the most recently added lexicon of that id, lists = union), Wordnet must raise wn.Error exactly when nothing at all matches (and wn.lexicons() return []), no unmatched lexicon may ever be selected, lists must not repeat a lexicon, after removing the newest lexicon and adding another one in the same process every atom must resolve against the new content, and wn.remove(spec) on a snapshot - for every atom and every list "<atom> <bare id>" - must remove exactly the lexicons resolved before the call.',
    note='Only * wildcards (?, [...] are undocumented); star globs are written with an explicit colon or as an id prefix (where both readings of the documentation agree); all versions of one id share a language so that "most recent" and the lang filter commute.',
)

LEXS = [('a', '1', 'en'), ('a', '1.0', 'en'), ('a', '2+x', 'en'), ('ab', '1', 'cmn-Hans'),
        ('b', '1', 'es'), ('b', '2-rc', 'es')]
REQUIRES = {4: [{'id': 'zz', 'version': '1'}], 2: [{'id': 'b', 'version': '1'}, {'id': 'zz', 'version': '9'}]}
ATOMS = ['*', 'a', 'ab', 'b', 'zz', 'a:1', 'a:1.0', 'a:2+x', 'ab:1', 'b:1', 'b:2-rc', 'a:9',
         'a:*', 'ab:*', 'b:*', 'zz:*', '*:1', '*:1.0', '*:2+x', '*:9', 'a*', 'b*', 'a*:1',
         '*:1*', '*:2*', 'a*:*', '*:*']
# glob patterns other than the star: '?' (one character) and '[...]' (one of a set)
QGLOBS = ['?:1', 'a:?', 'a?:1', '[ab]:1', 'a:[12]*', 'b:2-r?', 'a:1.?', '[ab]?:1',
          '?', 'a?', '[ab]', '?b', '[ab]?']       # without a version part: every version of every matching id
ATOMS += QGLOBS
QUICK_ATOMS = ['*', 'a', 'ab', 'b', 'zz', 'a:1', 'a:2+x', 'b:2-rc', 'a:9', 'a:*', 'b:*',
               '*:1', 'a*', '*:1*', '*:2*', '?:1', 'a:?', '[ab]:1', 'a:[12]*', '?', '[ab]', 'a?']
LANGS = [None, 'en', 'es', 'cmn-Hans', 'xx']


def spec(i):
    return f'{LEXS[i][0]}:{LEXS[i][1]}'


def build(i):
    lid, ver, lang = LEXS[i]
    P = f'{lid}{i}-'
    return mk.resource([mk.lexicon(lid, ver, lang, requires=REQUIRES.get(i, ()),
                                   entries=[mk.entry(P + 'e', 'w', 'n', senses=[mk.sense(P + 's', P + 'ss')])],
                                   synsets=[mk.synset(P + 'ss', 'n', 'i1')])], '1.1')


def _glob(pat, s):
    """'*' any string, '?' any one character, '[...]' one character of the set"""
    rx = ''
    i = 0
    while i < len(pat):
        c = pat[i]
        if c == '*':
            rx += '.*'
        elif c == '?':
            rx += '.'
        elif c == '[' and ']' in pat[i:]:
            j = pat.index(']', i)
            rx += '[' + re.escape(pat[i + 1:j]) + ']'
            i = j
        else:
            rx += re.escape(c)
        i += 1
    return re.fullmatch(rx, s, flags=re.S) is not None


def resolve_atom(atom, installed):
    """installed: list of lexicon indices in order of (last) addition. -> set of indices"""
    if ':' not in atom and not any(c in atom for c in '*?['):
        cands = [i for i in installed if LEXS[i][0] == atom]
        return {cands[-1]} if cands else set()
    pat = atom if ':' in atom else atom + ':*'
    if atom == '*':
        pat = '*:*'
    return {i for i in installed if _glob(pat, spec(i))}


def resolve(specifier, lang, installed):
    out = set()
    for atom in specifier.split():
        for i in resolve_atom(atom, installed):
            if lang is None or LEXS[i][2] == lang:
                out.add(i)
    return out


def expected(specifier, lang, installed):
    """bare ids pick the most recent version *of those matching the language* is ambiguous;
    all versions of an id share a language here, so filtering after picking is the same."""
    return resolve(specifier, lang, installed)


def check(case):
    env.fresh_db()
    dbdir = env.db_path().parent
    V = []
    digs = []
    n = 0
    try:
        installed = []
        for i in case['order']:
            env.add_resource(build(i))
            installed.append(i)
        if case.get('readd') is not None:
            i = case['readd']
            env.remove(spec(i))
            installed.remove(i)
            env.add_resource(build(i))
            installed.append(i)
        atoms = case['atoms']
        rows = {lx.specifier(): lx for lx in wn.lexicons()}
        got_all = sorted(rows)
        if got_all != sorted(spec(i) for i in installed):
            V.append(('install:set', f'installed {got_all} expected {sorted(spec(i) for i in installed)}'))
        specifiers = list(atoms) + [f'{a} {b}' for a in atoms for b in atoms]
        smap = {spec(i): i for i in range(len(LEXS))}
        for sp in specifiers:
            for lang in LANGS:
                n += 1
                exp = expected(sp, lang, installed)
                try:
                    with warnings.catch_warnings():
                        warnings.simplefilter('ignore')
                        w = wn.Wordnet(lexicon=sp, lang=lang)
                    got = [smap[x.specifier()] for x in w.lexicons()]
                    err = False
                except wn.Error:
                    got, err = [], True
                one = dict(case, atoms=[a for a in atoms if a in sp.split()], only=[sp, lang])
                if len(got) != len(set(got)):
                    V.append(('resolve:list:duplicates', f'Wordnet(lexicon={sp!r}, lang={lang!r}).lexicons() lists a lexicon '
                              f'twice: {[spec(i) for i in got]} (a list of specifiers selects the union)', None, one))
                should_err = not exp and not (sp == '*' and lang is None)
                kind = 'list' if ' ' in sp else ('bare' if (':' not in sp and '*' not in sp) else 'atom')
                if set(got) != exp:
                    extra, missing = set(got) - exp, exp - set(got)
                    shape = ('selects-unmatched' if extra else '') + ('misses' if missing else '')
                    k = f'resolve:{kind}:{shape}'
                    if kind == 'list':
                        kinds = sorted({('bare' if (':' not in a and '*' not in a) else 'star' if '*' in a else 'exact')
                                        for a in sp.split()})
                        k += ':' + '+'.join(kinds)
                    V.append((k, f'Wordnet(lexicon={sp!r}, lang={lang!r}) -> {sorted(spec(i) for i in got)} '
                              f'expected {sorted(spec(i) for i in exp)}; added in order '
                              f'{[spec(i) for i in installed]}', None, one))
                elif err != should_err:
                    V.append((f'resolve:error-rule:{kind}', f'Wordnet(lexicon={sp!r}, lang={lang!r}) '
                              f'raised={err} expected raised={should_err}', None, one))
                if ' ' not in sp or lang is None:
                    try:
                        lx = wn.lexicons(lexicon=sp, lang=lang)
                    except wn.Error as exc:       # documented: an empty list, never an error
                        lx = None
                        V.append((f'lexicons():raises:{kind}', f'wn.lexicons(lexicon={sp!r}, lang={lang!r}) raised {exc!r}', None, one))
                    if lx is not None and ({smap[x.specifier()] for x in lx} != exp or len(lx) != len(exp)):
                        V.append((f'lexicons():{kind}', f'wn.lexicons(lexicon={sp!r}, lang={lang!r}) -> '
                                  f'{[x.specifier() for x in lx]} expected {sorted(spec(i) for i in exp)}', None, one))
                digs.append(runner.digest([sp, lang, sorted(got), err]))
        # remove(spec) on a snapshot removes exactly the resolved lexicons
        snap = env.snapshot()
        for sp in atoms:
            exp = expected(sp, None, installed)
            env.restore(snap)
            n += 1
            try:
                env.remove(sp)
                err = False
            except wn.Error:
                err = True
            left = {smap[x.specifier()] for x in wn.lexicons()}
            if left != set(installed) - exp:
                V.append((f'remove:{"bare" if (":" not in sp and "*" not in sp) else "atom"}',
                          f'remove({sp!r}) left {sorted(spec(i) for i in left)} expected '
                          f'{sorted(spec(i) for i in set(installed) - exp)}; added in order {[spec(i) for i in installed]}',
                          None, dict(case, atoms=[sp])))
            if err != (not exp and sp != '*'):
                V.append(('remove:error-rule', f'remove({sp!r}) raised={err} with matches {exp}', None,
                          dict(case, atoms=[sp])))
        # the same process goes on: the newest lexicon is removed and a lexicon that was not installed is added
        # (it takes over the freed rowid) - every atom resolved before must now resolve against the new content
        spare = [i for i in range(len(LEXS)) if i not in installed]
        if installed and spare and case.get('readd') is None:
            env.restore(snap)
            for sp in atoms:               # touch every atom first (whatever the library may remember)
                try:
                    wn.lexicons(lexicon=sp)
                except wn.Error:
                    pass
            gone, new = installed[-1], spare[0]
            env.remove(spec(gone))
            env.add_resource(build(new))
            inst2 = installed[:-1] + [new]
            for sp in atoms:
                n += 1
                exp = expected(sp, None, inst2)
                try:
                    got = {smap[x.specifier()] for x in wn.lexicons(lexicon=sp)}
                except wn.Error:
                    got = set()
                if got != exp:
                    V.append(('resolve:after-remove-and-add', f'wn.lexicons(lexicon={sp!r}) -> {sorted(spec(i) for i in got)} expected '
                              f'{sorted(spec(i) for i in exp)} after removing {spec(gone)} and adding {spec(new)} in the same '
                              f'process; before: {[spec(i) for i in installed]}', None, dict(case, atoms=[sp])))
        # remove('<atom> <bare id>'): the selection is made before anything is deleted
        for a in atoms:
            for b in ('a', 'ab', 'b'):
                sp = f'{a} {b}'
                exp = expected(sp, None, installed)
                if not exp or not expected(a, None, installed):
                    continue
                env.restore(snap)
                n += 1
                try:
                    env.remove(sp)
                except wn.Error as exc:
                    V.append(('remove:list:raises', f'remove({sp!r}) raised {exc!r}', None, dict(case, atoms=[a, b])))
                    continue
                left = {smap[x.specifier()] for x in wn.lexicons()}
                if left != set(installed) - exp:
                    V.append(('remove:list', f'remove({sp!r}) left {sorted(spec(i) for i in left)} expected '
                              f'{sorted(spec(i) for i in set(installed) - exp)}; added in order {[spec(i) for i in installed]}',
                              None, dict(case, atoms=[a, b])))
        return {'v': V, 'digs': set(digs), 'nt': len(set(digs)), 'n': n}
    finally:
        env.drop_db(dbdir)


def space(tier, seed):
    cases = []
    maxn = 4 if tier == 'thorough' else 3
    atoms = ATOMS if tier == 'thorough' else QUICK_ATOMS
    for k in range(0, maxn + 1):
        for order in itertools.permutations(range(len(LEXS)), k):
            cases.append({'order': list(order), 'atoms': atoms})
            if k >= 2:
                # re-adding an earlier lexicon must make it the most recent one
                for i in order[:-1]:
                    if tier == 'thorough' or i == order[0]:
                        cases.append({'order': list(order), 'readd': i, 'atoms': atoms})
    return cases


def run(tier, seed, jobs=None):
    cases = space(tier, seed)
    rule = ('histories: every ordered selection of <=3 (quick) / <=4 (thorough) of 6 lexicons, plus remove+re-add of an '
            'earlier one; per database: every atom, every ordered pair of atoms x lang in {None,en,es,xx} through '
            'Wordnet()/wn.lexicons(), and wn.remove(atom) on a snapshot. evaluations = resolutions; distinct = '
            'distinct (specifier, lang, result) outcomes.')
    return runner.run_space(PROP, tier, seed, cases, check, level='model_checking', rule=rule, jobs=jobs, chunk=2,
                            recheck=check,
                            extra={'states': len(cases), 'transitions': sum(len(c['order']) + (2 if c.get('readd') is not None else 0) for c in cases),
                                   'traces_validated_against_impl': len(cases)},
                            assumptions=['documented specifier table docs/guides/lexicons.rst:38-56 is the specification'])


def replay(path):
    return runner.replay(PROP, path, check)
