"""C19 - loading an ILI index only updates ILI status and definitions.

Engine E1, exact state key (no abstraction): all interleavings, up to a depth bound, of
add(lexicon 1), add(lexicon 2), add(ILI file F), add(F') and remove(lexicon 1), for
each ILI-file variant (header case, column sets, statuses, empty/missing definitions,
short rows, id subsets, gzip). After every step the ilis table and the public API must
agree with the reference model; an index load may change nothing but status/definition."""
import gzip
import time
import warnings

import wn

from .. import env, mk, runner, xmlw, observe, e1, docgen
from ..refmodel import Store, diff, normalize_unordered
from .c01 import compare

PROP = 'C19'

MANIFEST = dict(
    category='model_checking', design_ref='DESIGN.md §3 C19',
    engine='E1-history',
    technique='explicit-state exploration (exact state key, depth-bounded) of all interleavings of lexicon adds/removes and ILI-index loads on the real database, per ILI-file variant, reference model in lock-step',
    text='For each ILI-file variant (upper/lower-case header; columns ili / ili+status / ili+definition / all three; statuses active, provisional, deprecated and a non-standard one; empty definitions; short rows; id subsets incl. unused and not-yet-known ILIs; gzip-compressed) every history up to the depth bound over {add L1, add L2, add F, add F\', remove L1} is executed on the real SQLite file with the exact table dump as state key. After every transition the (id -> status, definition) content of the ilis table and the complete public-API transcript (Synset.ili, wn.ilis incl. status filters) must equal the reference model; an index load must leave every table other than ilis/ili_statuses byte-identical, keep rowids and metadata of existing ILIs, and loading the same file again must change nothing. Because the model value is independent of the order of loads, agreement in every state shows that loading before or after the lexicons gives the same statuses and definitions.',
    note='One lexicon carries a spurious ILIDefinition on an existing ILI; its metadata (first writer wins) is not part of the comparison of the ilis table.',
)


def L1():
    P = 'l1-'
    return mk.resource([mk.lexicon('l1', '1', entries=[
        mk.entry(P + 'e1', 'one', 'n', senses=[mk.sense(P + 's1', P + 'ss1'), mk.sense(P + 's2', P + 'ss2'),
                                               mk.sense(P + 's3', P + 'ss3')])],
        synsets=[mk.synset(P + 'ss1', 'n', 'i1', definitions=['d1']),
                 mk.synset(P + 'ss2', 'n', 'i2', relations=[mk.rel(P + 'ss1', 'hypernym')]),
                 mk.synset(P + 'ss3', 'n', 'in', ili_definition={'text': 'proposed', 'meta': {'note': 'n'}})])], '1.1')


def L2():
    P = 'l2-'
    return mk.resource([mk.lexicon('l2', '1', language='es', entries=[
        mk.entry(P + 'e1', 'dos', 'n', senses=[mk.sense(P + 's1', P + 'ss1'), mk.sense(P + 's2', P + 'ss2')])],
        synsets=[mk.synset(P + 'ss1', 'n', 'i2'),
                 # a regular ILI that nevertheless carries an ILIDefinition (allowed by the DTD)
                 mk.synset(P + 'ss2', 'n', 'i3', ili_definition={'text': 'spurious three', 'meta': {'note': 'sp'}}),
                 mk.synset(P + 'ss3', 'n', '')])], '1.1')


VARIANTS = {
    'full': ('ili\tstatus\tdefinition', [('i1', 'active', 'def one'), ('i2', 'deprecated', 'def two'),
                                         ('i3', 'provisional', ''), ('i9', 'active', 'unused')]),
    'upper': ('ILI\tStatus\tDefinition', [('i1', 'active', 'def one'), ('i3', 'weird', 'def three')]),
    'ili-only': ('ili', [('i1',), ('i2',), ('i3',), ('i9',)]),
    'ili-status': ('ili\tstatus', [('i1', 'deprecated'), ('i2', 'provisional'), ('i3', 'active'), ('i8', 'active')]),
    'ili-definition': ('ili\tdefinition', [('i2', 'only def'), ('i3', '')]),
    'short-rows': ('ili\tstatus\tdefinition', [('i1',), ('i2', 'deprecated'), ('i3', 'active'), ('i7', 'active', 'd7')]),
    'quotes': ('ili\tstatus\tdefinition', [('i1', 'active', '"big" thing'), ('i2', 'deprecated', '"unbalanced quote'),
                                             ('i3', 'provisional', "it's a \\ back\\slash, comma, 'q'"), ('i9', 'active', ' padded ')]),
    'empty': ('ili\tstatus\tdefinition', []),
    # blank lines (in the middle, at the end) list nothing
    'blank-lines': ('ili\tstatus\tdefinition', [('i1', 'deprecated', 'one'), (), ('i2', 'active', 'two'), (), ()]),
    'gz': ('ili\tstatus\tdefinition', [('i2', 'active', 'zipped')]),
}
F2 = ('ili\tstatus\tdefinition', [('i1', 'deprecated', 'second file'), ('i2', 'active', None and ''),
                                  ('i7', 'provisional', 'new')])


def tsv(header, rows):
    return header + '\n' + ''.join('\t'.join('' if c is None else c for c in r) + '\n' for r in rows)


def rows_of(header, rows):
    fields = [f.lower() for f in header.split('\t')]
    return [dict(zip(fields, ['' if c is None else c for c in r])) for r in rows if r]


class Sys19(e1.System):
    def __init__(self, variant):
        self.variant = variant
        self.F = VARIANTS[variant]
        self.res = {'L1': L1(), 'L2': L2()}
        self.xml = {k: xmlw.serialize(v) for k, v in self.res.items()}
        self.reltypes = []

    def initial_model(self):
        return []

    def model_key(self, m):
        return m

    thorough = False

    def events(self, m):
        ev = [['add', 'L1'], ['add', 'L2'], ['add', 'F'], ['add', 'F2'], ['remove', 'l1:1']]
        if self.thorough:
            ev += [['remove', 'l2:1'], ['remove', '*']]
        return ev

    def apply(self, ev, workdir):
        if ev == ['add', 'F']:
            data = tsv(*self.F).encode()
            if self.variant == 'gz':
                env.add(env.write_file('cili.tsv.gz', gzip.compress(data), workdir))
            else:
                env.add(env.write_file('cili.tsv', data, workdir))
        elif ev == ['add', 'F2']:
            env.add(env.write_file('cili2.tsv', tsv(*F2), workdir))
        elif ev[0] == 'add':
            env.add(env.write_file(f'{ev[1]}.xml', self.xml[ev[1]], workdir))
        else:
            env.remove(ev[1])

    def mstep(self, m, ev):
        return m + [ev]

    def store(self, m):
        st = Store()
        for ev in m:
            if ev == ['add', 'F']:
                st.add_ili(rows_of(*self.F))
            elif ev == ['add', 'F2']:
                st.add_ili(rows_of(*F2))
            elif ev[0] == 'add':
                st.add_resource(self.res[ev[1]])
            elif ev[1] == '*':
                st.remove(list(st.specs()))
            elif st.get(ev[1]):
                st.remove([ev[1]])
        return st

    def obs_digest(self, post, m2):
        return e1.sha(post['exact']['ilis'])

    def coarse_key(self, post, m2):
        return m2

    def check(self, m, ev, m2, pre, post, hist, raised):
        V = []
        st0, st = self.store(m), self.store(m2)
        expect_error = ev[0] == 'remove' and ev[1] != '*' and st0.get(ev[1]) is None
        if raised and not expect_error:
            return [(f'{ev[0]}:raises:{raised[0]}@{raised[1]}', f'{ev} raised {raised} after {hist[:-1]}')]
        A, B = pre['exact'], post['exact']
        stat = {r[0]: r[1] for r in B['ili_statuses']}
        got = {r[1]: [stat.get(r[2]), r[3]] for r in B['ilis']}
        exp = {k: [v[0], v[1]] for k, v in st.ilis.items()}
        # ILIs of removed lexicons stay in the shared inventory: the model keeps them as well
        if got != exp:
            for x in diff(got, exp)[:3]:
                V.append(('ilis:table-differs', f'after {hist}: ilis table (first) vs model (second): {x}'))
        if ev[0] == 'add' and ev[1] in ('F', 'F2'):
            for t in observe.TABLES:
                if t in ('ilis', 'ili_statuses'):
                    continue
                if A[t] != B[t]:
                    V.append((f'index-load:changes:{t}', f'after {hist}: loading an ILI index changed table {t}: '
                              f'{diff(B[t], A[t])[:2]}'))
            old = {r[1]: r for r in A['ilis']}
            for r in B['ilis']:
                o = old.get(r[1])
                if o is not None and (o[0] != r[0] or o[4] != r[4]):
                    V.append(('index-load:rowid-or-metadata', f'after {hist}: ILI {r[1]} rowid/metadata {o[0]},{o[4]} -> {r[0]},{r[4]}'))
            if set(old) - {r[1] for r in B['ilis']}:
                V.append(('index-load:ili-removed', f'after {hist}: ILIs vanished'))
            if len(hist) >= 2 and hist[-2] == ev and A != B:
                V.append(('index-load:not-idempotent', f'after {hist}: loading the same index twice changed the database'))
        # API level (Synset.ili, wn.ilis(), status filters) against the model
        specs = st.specs()
        if specs:
            vv, _ = compare(st, specs, [])
            for k, msg in vv:
                V.append((f'api:{k}', f'after {hist}: {msg}'))
            with warnings.catch_warnings():
                warnings.simplefilter('ignore')
                w = wn.Wordnet(lexicon=' '.join(specs), expand='')
            used = {}
            for lex in st.lexs:
                for ss in lex.get('synsets', []):
                    if ss['ili'] and ss['ili'] != 'in':
                        used[ss['ili']] = st.ilis[ss['ili']]
            for status in ('active', 'presupposed', 'deprecated', 'provisional', 'weird', 'proposed'):
                g = sorted((i.id or '') for i in w.ilis(status=status))
                if status == 'proposed':
                    x = sorted('' for lex in st.lexs for ss in lex.get('synsets', []) if ss['ili'] == 'in')
                else:
                    x = sorted(k for k, v in used.items() if v[0] == status)
                if g != x:
                    V.append((f'api:ilis(status)', f'after {hist}: ilis(status={status!r}) = {g} expected {x}'))
            for k, v in used.items():
                i = w.ili(k)
                if [i.status, i.definition()] != [v[0], v[1]]:
                    V.append(('api:ili(id)', f'after {hist}: ili({k!r}) = {[i.status, i.definition()]} expected {v[:2]}'))
            env.close_pool()
        return V


def run(tier, seed, jobs=None):
    t0 = time.time()
    depth = 5 if tier == 'quick' else 7
    names = list(VARIANTS)
    runs, allV, vcount = [], [], {}
    for name in names:
        sysm = Sys19(name)
        sysm.thorough = tier == 'thorough'
        st, V, vc = e1.explore(sysm, 'exact', max_depth=depth, jobs=jobs, extend_unchanged=False)
        st.pop('sdata')
        st.pop('edges')
        st.update({'variant': name, 'depth_bound': depth})
        runs.append(st)
        allV += [(k, f'[variant {name}] {msg}', dict(c, variant=name), d) for k, msg, c, d in V]
        for k, n in vc.items():
            vcount[k] = vcount.get(k, 0) + n
        print(f'  variant={name} states={st["states"]} transitions={st["transitions"]} levels={st["levels"]} '
              f'distinct ILI tables={st["distinct_observations"]}')
    cov = {'states': sum(r['states'] for r in runs), 'transitions': sum(r['transitions'] for r in runs),
           'traces_validated_against_impl': sum(r['transitions'] for r in runs),
           'variants': names, 'depth_bound': depth, 'runs': runs,
           'samples': [{'variant': 'full', 'history': [['add', 'F'], ['add', 'L1'], ['add', 'F2'], ['remove', 'l1:1']]}],
           'exhaustive': True, '_vcount': vcount}
    return runner.report(PROP, tier, seed, 'model_checking', cov, allV, t0,
                         assumptions=['SQLite trusted', 'reference model of the ILI inventory (wnmc/refmodel.py)'])


def replay(path):
    import json
    data = json.load(open(path))
    hist, variant = data['case']['history'], data['case'].get('variant', 'full')
    s = Sys19(variant)
    env.fresh_db()
    w = env.new_dir('rp')
    m = s.initial_model()
    found = False
    for i, ev in enumerate(hist):
        pre = e1._observe()
        raised = None
        try:
            s.apply(ev, w)
        except Exception as exc:     # noqa: BLE001
            raised = (type(exc).__name__, '', str(exc))
        post = e1._observe()
        m2 = s.mstep(m, ev)
        for k, msg in s.check(m, ev, m2, pre, post, hist[:i + 1], raised):
            print(f'REPRODUCED property={PROP} key={k} :: {msg[:300]}')
            found = found or k == data['key']
        m = m2
    if found:
        print(f'VIOLATION property={PROP} replay={path}')
        return 1
    print(f'{PROP}: replay shows no violation with that key on this tree')
    return 0
