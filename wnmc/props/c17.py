"""C17 - Morphy returns only valid lemmas when initialized and all candidates otherwise.

Engine E2: for each of the 24 WN-system detachment rules and each stem, every subset of
{candidate is a lemma of the rule's pos, candidate is a lemma of another pos, inflected
form is itself a lemma, inflected form is an extra form of a third word, a/s twin},
plus pairs of rules sharing a suffix; queries = inflected forms, candidates, bare
suffixes, unrelated strings x pos in {None,n,v,a,s,r,x} x {initialized, uninitialized};
and the Wordnet(lemmatizer=...) search results as the union over proposed pairs."""
import itertools
import warnings

import wn
from wn.morphy import Morphy

from .. import env, mk, runner
from .c09 import ref_find

PROP = 'C17'

MANIFEST = dict(
    category='exploration', design_ref='DESIGN.md §3 C17',
    technique='bounded-exhaustive enumeration of lexicons per detachment rule x feature subsets x query strings x pos x mode on the real Morphy and Wordnet search vs a reference written from the rule table',
    text='For each of the 24 WN detachment rules (12 noun, 8 verb, 4 adjective; satellite adjectives share the adjective rules) and each of several stems, every subset of five lexicon features (candidate lemma present with the rule\'s pos / with another pos, inflected form itself a lemma, inflected form an additional form of another word, an a/s twin entry), and every pair of rules sharing a suffix, is stored; an initialized Morphy must return exactly, per part of speech, the query if it is a lemma of that pos, the lemmas of words listing the query as an additional form, and the rule outputs that are lemmas of that pos - no other keys, no empty sets, nothing for unknown parts of speech; an uninitialized Morphy must return the original form under the requested pos plus exactly every rule output under its pos, never detaching a suffix that is the whole word. Wordnet.words/senses/synsets with either lemmatizer must equal the union of what each proposed (pos, form) pair finds, duplicate-free. One Wordnet object whose documented .lemmatizer attribute is assigned and swapped (none, initialized, uninitialized, none, initialized) between identical queries must answer each time as the union for the lemmatizer in place.',
    note='The 24-rule table in the oracle is the specification (docs/api/wn.morphy.rst refers to Princeton Morphy; the property fixes the WN subset).',
)

RULES = {
    'n': [('s', ''), ('ces', 'x'), ('ses', 's'), ('ves', 'f'), ('ives', 'ife'), ('xes', 'x'), ('xes', 'xis'),
          ('zes', 'z'), ('ches', 'ch'), ('shes', 'sh'), ('men', 'man'), ('ies', 'y')],
    'v': [('s', ''), ('ies', 'y'), ('es', 'e'), ('es', ''), ('ed', 'e'), ('ed', ''), ('ing', 'e'), ('ing', '')],
    'a': [('er', ''), ('est', ''), ('er', 'e'), ('est', 'e')],
    'r': [],
}
RULES['s'] = RULES['a']
RULE_POS = ['n', 'v', 'a', 'r', 's']
STEMS = ['ax', 'box', 'kni', 'wol', 'try', 'mak', 's', 'e']
BATCH = 60


def outputs(form, pos):
    out = set()
    for suf, repl in RULES.get(pos, []):
        if form.endswith(suf) and len(suf) < len(form):
            out.add(form[:-len(suf)] + repl)
    return out


def ref_uninit(q, pos):
    res = {pos: {q}}
    plist = RULE_POS if pos is None else ([pos] if pos in RULES else [])
    for p in plist:
        c = outputs(q, p)
        if pos is None:
            c = c - {q}
        if c:
            res.setdefault(p, set()).update(c)
    return res


def ref_init(words, q, pos):
    res = {}
    plist = RULE_POS if pos is None else ([pos] if pos in RULES else [])
    for p in plist:
        lemmas = {w['forms'][0] for w in words if w['pos'] == p}
        c = set()
        if q in lemmas:
            c.add(q)
        for w in words:
            if w['pos'] == p and q in w['forms'][1:]:
                c.add(w['forms'][0])
        c |= outputs(q, p) & lemmas
        if c:
            res[p] = c
    return res


def build(lid, wspec):
    ents, syns, words = [], [], []
    for i, (pos, lemma, extra) in enumerate(wspec):
        P = f'{lid}-'
        forms = list(extra)
        ents.append(mk.entry(f'{P}e{i}', lemma, pos, forms=forms, senses=[mk.sense(f'{P}s{i}', f'{P}ss{i}')]))
        syns.append(mk.synset(f'{P}ss{i}', pos))
        words.append({'id': f'{P}e{i}', 'pos': pos, 'forms': [lemma] + forms, 'sense': f'{P}s{i}',
                      'synset': f'{P}ss{i}', 'sspos': pos})
    return mk.lexicon(lid, '1', entries=ents, synsets=syns), words


def lexicon_for(rules, stem, feats):
    """rules: list of (pos, suffix, repl). feats: subset of the feature names."""
    ws = []
    for (pos, suf, repl) in rules:
        infl, cand = stem + suf, stem + repl
        other = {'n': 'v', 'v': 'n', 'a': 'n', 's': 'n'}[pos]
        if 'cand' in feats:
            ws.append((pos, cand, []))
        if 'cand-other-pos' in feats:
            ws.append((other, cand, []))
        if 'infl-lemma' in feats:
            ws.append((pos, infl, []))
        if 'infl-extra' in feats:
            ws.append((pos, 'irregular' + stem, [infl]))
            ws.append((pos, 'second' + stem, [infl, 'zz' + infl]))    # several lemmas per irregular form
            ws.append((other, 'other' + stem, [infl]))
        if 'as-twin' in feats:
            ws.append(('s' if pos != 's' else 'a', cand, []))
            ws.append(('a' if pos not in 'as' else pos, 'twin' + stem, [infl]))
    if 'unhandled-pos' in feats:
        # words of a part of speech Morphy does not handle (adposition) with exactly the query strings as lemmas:
        # found only when the lemmatizer proposes nothing and the search falls back to the query itself
        for (pos, suf, repl) in rules:
            ws.append(('p', stem + suf, []))
            ws.append(('p', stem + repl, []))
    ws.append(('r', 'unrelatedly', []))
    # the same (pos, lemma) may arise twice: keep one entry each
    seen, out = set(), []
    for w in ws:
        k = (w[0], w[1], tuple(w[2]))
        if k not in seen:
            seen.add(k)
            out.append([w[0], w[1], w[2]])
    return out


def queries_for(rules, stem):
    qs = []
    for (pos, suf, repl) in rules:
        qs += [stem + suf, stem + repl, suf]
    for p in ('n', 'v', 'a'):
        for suf, _ in RULES[p]:
            qs.append(stem + suf)
    qs += ['zzz', 'irregular' + stem, stem]
    return list(dict.fromkeys(q for q in qs if q))


POS_ARGS = [None, 'n', 'v', 'a', 's', 'r', 'x']


def compare(got, exp):
    g = {k: set(v) for k, v in got.items()}
    return g == exp and all(v for v in g.values())


def check(case):
    if case.get('uninit'):
        return check_uninit(case)
    env.fresh_db()
    dbdir = env.db_path().parent
    V, digs, n = [], [], 0
    try:
        built, lexs = [], []
        for k, item in enumerate(case['items']):
            rules = [tuple(r) for r in item['rules']]
            wspec = lexicon_for(rules, item['stem'], item['feats'])
            lex, words = build(f'm{k}', [(w[0], w[1], w[2]) for w in wspec])
            lexs.append(lex)
            built.append((f'm{k}', item, words, queries_for(rules, item['stem'])))
        env.add_resource(mk.resource(lexs, '1.0'))
        un = Morphy()
        for lid, item, words, qs in built:
            g = {'items': [item]}
            with warnings.catch_warnings():
                warnings.simplefilter('ignore')
                w = wn.Wordnet(lexicon=f'{lid}:1', expand='')
            m = Morphy(w)
            obs = []
            for q in qs:
                for pos in POS_ARGS:
                    n += 1
                    got = m(q, pos)
                    exp = ref_init(words, q, pos)
                    obs.append(sorted((str(k), sorted(v)) for k, v in got.items()))
                    if not compare(got, exp):
                        gset = {k: set(v) for k, v in got.items()}
                        # the statement gives two bounds: *only* lemmas of words of that part of speech, and *always*
                        # the three kinds of required lemmas - a further valid lemma is not a violation
                        lem_of = {}
                        for x in words:
                            lem_of.setdefault(x['pos'], set()).add(x['forms'][0])
                        extra = {k: gset[k] - exp.get(k, set()) - lem_of.get(k, set()) for k in gset
                                 if gset[k] - exp.get(k, set()) - lem_of.get(k, set())}
                        miss = {k: exp[k] - gset.get(k, set()) for k in exp if exp[k] - gset.get(k, set())}
                        if not extra and not miss and all(v for v in gset.values()):
                            continue
                        key = 'init:' + ('invalid-lemma-returned' if extra else '') + ('valid-lemma-missing' if miss else '') \
                            + ('empty-set' if not extra and not miss else '')
                        V.append((key, f'Morphy(wn)({q!r}, {pos!r}) = {got} expected {exp} :: words {[(x["pos"], x["forms"]) for x in words]}', None, g))
            # Wordnet with the lemmatizers: union over proposed (pos, form) pairs
            for lname, lem in (('morphy-init', m), ('morphy', un)):
                with warnings.catch_warnings():
                    warnings.simplefilter('ignore')
                    wl = wn.Wordnet(lexicon=f'{lid}:1', expand='', lemmatizer=lem)
                for q in qs[:6] + qs[-3:]:
                    for pos in (None, 'n', 'v', 'a', 's'):
                        for kind, fn in (('words', wl.words), ('senses', wl.senses), ('synsets', wl.synsets)):
                            n += 1
                            res = [x.id for x in fn(q, pos)]
                            exp = ref_find(words, kind, q, pos, True, True, lem)
                            if len(res) != len(set(res)) or set(res) != exp:
                                V.append((f'wordnet:{kind}:lemmatizer={lname}', f'{kind}({q!r}, {pos!r}) = {sorted(res)} '
                                          f'expected {sorted(exp)} :: words {[(x["pos"], x["forms"]) for x in words]}', None, g))
            # history on ONE Wordnet object: the lemmatizer attribute is assigned after construction (the documented
            # way, docs/api/wn.morphy.rst: `ewn.lemmatizer = morphy.Morphy(ewn)`) and swapped between queries; every
            # answer must be the union for the lemmatizer in place at the time of the call
            with warnings.catch_warnings():
                warnings.simplefilter('ignore')
                wh = wn.Wordnet(lexicon=f'{lid}:1', expand='')
            for lname, lem in (('none', None), ('morphy-init', m), ('morphy', un), ('none', None), ('morphy-init', m)):
                wh.lemmatizer = lem
                for q in qs[:6] + qs[-3:]:
                    for pos in (None, 'n', 'v'):
                        for kind, fn in (('words', wh.words), ('synsets', wh.synsets)):
                            n += 1
                            res = [x.id for x in fn(q, pos)]
                            exp = ref_find(words, kind, q, pos, True, True, lem)
                            if len(res) != len(set(res)) or set(res) != exp:
                                V.append((f'wordnet:{kind}:lemmatizer-reassigned', f'after assigning .lemmatizer = {lname}: '
                                          f'{kind}({q!r}, {pos!r}) = {sorted(res)} expected {sorted(exp)} :: words '
                                          f'{[(x["pos"], x["forms"]) for x in words]}', None, g))
            digs.append(runner.digest(obs))
        return {'v': V, 'digs': digs, 'nt': len(digs), 'n': n}
    finally:
        env.drop_db(dbdir)


def check_uninit(case):
    m = Morphy()
    V, digs, n = [], set(), 0
    for q in case['queries']:
        for pos in POS_ARGS:
            n += 1
            got = m(q, pos)
            exp = ref_uninit(q, pos)
            digs.add(runner.digest(sorted((str(k), sorted(v)) for k, v in got.items())))
            if {k: set(v) for k, v in got.items()} != exp:
                full = any(q == suf for p in RULES for suf, _ in RULES[p])
                V.append(('uninit:' + ('whole-word-suffix' if full else 'differs'),
                          f'Morphy()({q!r}, {pos!r}) = {got} expected {exp}', None, {'uninit': True, 'queries': [q]}))
    return {'v': V, 'digs': digs, 'nt': len(digs), 'n': n}


FEATS = ['cand', 'cand-other-pos', 'infl-lemma', 'infl-extra', 'as-twin', 'unhandled-pos']


def space(tier, seed):
    items = []
    allrules = [(p, s, r) for p in ('n', 'v', 'a') for (s, r) in RULES[p]]
    for i, rule in enumerate(allrules):
        stems = STEMS if tier == 'thorough' else [STEMS[i % len(STEMS)], STEMS[(i + 3 + seed) % len(STEMS)]]
        for stem in dict.fromkeys(stems):
            for r in range(len(FEATS) + 1):
                for feats in itertools.combinations(FEATS, r):
                    items.append({'rules': [list(rule)], 'stem': stem, 'feats': list(feats)})
            # satellite adjectives use the adjective rules
            if rule[0] == 'a':
                for feats in (['cand'], ['cand', 'infl-extra'], ['as-twin']):
                    items.append({'rules': [['s', rule[1], rule[2]]], 'stem': stem, 'feats': feats})
    # pairs of rules sharing a suffix
    for a, b in itertools.combinations(allrules, 2):
        if a[1] == b[1] or a[1].endswith(b[1]) or b[1].endswith(a[1]):
            for stem in (STEMS if tier == 'thorough' else STEMS[:3]):
                for feats in (['cand'], ['cand', 'infl-lemma'], ['cand', 'cand-other-pos', 'infl-extra']):
                    items.append({'rules': [list(a), list(b)], 'stem': stem, 'feats': feats})
    cases = [{'items': items[i:i + BATCH]} for i in range(0, len(items), BATCH)]
    qs = set()
    for stem in STEMS + ['wolv', 'lemma', 'x', '']:
        for p in ('n', 'v', 'a'):
            for suf, repl in RULES[p]:
                qs.update([stem + suf, stem + repl, suf])
    qs = sorted(q for q in qs if q)
    for i in range(0, len(qs), 40):
        cases.append({'uninit': True, 'queries': qs[i:i + 40]})
    return cases


def run(tier, seed, jobs=None):
    cases = space(tier, seed)
    rule = ('24 rules x stems (2 rotating per rule in quick, all 8 in thorough) x all 32 feature subsets; s-pos variants; '
            'pairs of rules with a common suffix; queries = inflected/candidate/bare suffix/every stem+suffix/unrelated x '
            '7 pos arguments, initialized; uninitialized Morphy on every stem x suffix string; Wordnet searches with both '
            'lemmatizers. evaluations = Morphy/search calls; distinct = distinct result digests.')
    return runner.run_space(PROP, tier, seed, cases, check, rule=rule, jobs=jobs, chunk=1,
                            samples=[cases[0]['items'][5], cases[-1]],
                            extra={'lexicons': sum(len(c.get('items', [])) for c in cases)}, recheck=check)


def replay(path):
    return runner.replay(PROP, path, check)
