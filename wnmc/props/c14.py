"""C14 - similarity metrics equal their formulas, are symmetric and bounded.

Engine E2 over the C13 graph spaces: every labelled hypernym digraph up to the node
bound x all ordered synset pairs x simulate_root x information-content tables
(arbitrary positive weight assignments), each metric against its documented formula
evaluated on the reference graph model, with an acceptance set where the documentation
leaves the choice of the lowest common hypernym open."""
import itertools
import math

import wn
import wn.similarity as sim
import wn.taxonomy as tx

from .. import env, mk, runner, budget
from ..graphs import pairs, edges_of, Ref, dag_masks
from .c13 import build_lexicon

PROP = 'C14'

MANIFEST = dict(
    category='exploration', design_ref='DESIGN.md §3 C14',
    technique='bounded-exhaustive enumeration of hypernym graphs x ordered pairs x simulate_root x IC weight tables on the real similarity functions vs the documented formulas over a reference graph model (acceptance sets for LCS choice)',
    text='For every labelled digraph with self-loops on up to 3 nodes, every loop-free digraph on 4 nodes (thorough: DAGs on 5 nodes) and part-of-speech colourings, every ordered pair of synsets and simulate_root value: path must equal 1/(p+1) with p the reference shortest-path length (0.0 when nothing is shared, 1.0 for identical synsets, within [0,1]); lch must equal -log((p+1)/2d) for every tried depth d; wup must equal 2k/(i+j+2k) for some reference lowest common hypernym (i, j reference distances, k its depth in nodes), lie in (0,1], be 1.0 for identical synsets and never exceed self-similarity; res must be the maximum information content over the common hypernyms (or over the lowest ones, as its documentation says it is computed) - on cyclic graphs too -, jcn/lin must follow their formulas (incl. the documented zero/infinity cases) for some reference LCS or the most informative common hypernym, over every weight table (all assignments of {1,2,5} to the nodes); every metric must be symmetric in its arguments; the same graphs are also presented in expanded mode (stored in an expand lexicon, only 2..n of the nodes present in the queried lexicon, the others seen as *INFERRED* placeholders) for path, lch and wup, and in extension mode (one node, one edge or all edges contributed by a lexicon extension, queried together with the base) for all six metrics; wn.Error must be raised exactly for incompatible parts of speech (a and s compatible) and when nothing is shared without simulate_root. Exact formula comparison on DAGs; on cyclic graphs bounds, symmetry, error rule and termination.',
    note='Where the documentation contradicts itself (res: maximum IC vs LCS of highest weight; lin denominator) either documented reading is accepted; a value outside all readings is a violation.',
)

BATCH = 64


def close(a, b):
    if math.isinf(a) or math.isinf(b):
        return a == b
    return abs(a - b) <= 1e-9 * max(1.0, abs(a), abs(b))


def check_graph(lid, g, edges, V, obs):
    n = g['n']
    ref = Ref(n, edges)
    pos = g.get('pos') or 'n' * n
    if 'ext' in g:
        # extension mode (see c13.build_lexicon): part of the graph is declared by the lexicon extension <lid>x
        w = wn.Wordnet(lexicon=f'{lid}:1 {lid}x:1', expand='')
        idx = list(range(n))
    elif 'real' in g:
        # expanded mode (see c13.build_lexicon): the graph is borrowed from the expand lexicon <lid>q, only the
        # nodes of the 'real' mask exist in the queried lexicon, the rest are *INFERRED* placeholders
        w = wn.Wordnet(lexicon=f'{lid}:1 {lid}b:1' if g.get('split') else f'{lid}:1', expand=f'{lid}q:1')
        idx = [i for i in range(n) if g['real'] >> i & 1]
    else:
        w = wn.Wordnet(lexicon=f'{lid}:1', expand='')
        idx = list(range(n))
    ss = {i: w.synset(f'{lid}-{i}') for i in idx}

    def bad(key, msg):
        V.append((key, f'{msg} graph={g}', None, g))

    def fold(p):
        return 'a' if p == 's' else p

    def call(fn, *a, **kw):
        st, v = budget.call(fn, *a, budget=6000, **kw)
        if st == 'budget':
            bad(f'nontermination:{fn.__name__}', f'{fn.__name__} exceeded the step budget')
            return 'budget', None
        if st == 'raise':
            return ('wnerror' if isinstance(v, wn.Error) else 'raise'), v
        return 'ok', v
    depths = [max((ref.max_depth(i) for i in range(n)), default=0), 3]
    tables = g.get('tables', [])
    for a in idx:
        for b in idx:
            compat = fold(pos[a]) == fold(pos[b])
            for simr in (False, True):
                shared = bool(ref.common(a, b, False)) or simr
                p_len = ref.sp_len(a, b, simr) if (ref.dag or not simr) else None
                # ---- path
                st, v = call(sim.path, ss[a], ss[b], simulate_root=simr)
                st2, v2 = call(sim.path, ss[b], ss[a], simulate_root=simr)
                if st == 'budget':
                    continue
                if not compat:
                    if st != 'wnerror':
                        bad('path:incompatible-pos-accepted', f'path({a},{b}) pos {pos[a]}/{pos[b]} -> {v!r}')
                    for f, args in ((sim.wup, ()), (sim.lch, (3,))):
                        s3, v3 = call(f, ss[a], ss[b], *args, simulate_root=simr)
                        if s3 != 'wnerror' and s3 != 'budget':
                            bad(f'{f.__name__}:incompatible-pos-accepted', f'{f.__name__}({a},{b}) -> {v3!r}')
                    if not simr:
                        # the information-content metrics as well (any weights: the error comes first)
                        anyfreq = {p_: dict({None: 10.0}, **{f'{lid}-{i}': 1.0 for i in range(n)}) for p_ in 'nvar'}
                        for f in (sim.res, sim.jcn, sim.lin):
                            s3, v3 = call(f, ss[a], ss[b], anyfreq)
                            if s3 != 'wnerror' and s3 != 'budget':
                                bad(f'{f.__name__}:incompatible-pos-accepted', f'{f.__name__}({a},{b}) pos {pos[a]}/{pos[b]} -> {v3!r}')
                    continue
                if st != 'ok':
                    bad('path:raises', f'path({a},{b},sim={simr}) raised {v!r}')
                    continue
                obs.append(round(v, 9))
                if not (0.0 <= v <= 1.0):
                    bad('path:out-of-range', f'path({a},{b},sim={simr}) = {v}')
                if (v == 1.0) != (a == b):
                    bad('path:one-iff-identical', f'path({a},{b},sim={simr}) = {v}')
                if (v == 0.0) != (not shared):
                    bad('path:zero-iff-unconnected', f'path({a},{b},sim={simr}) = {v}, shared={shared}')
                if st2 == 'ok' and v2 != v:
                    bad('path:asymmetric', f'path({a},{b})={v} path({b},{a})={v2} sim={simr}')
                if shared and p_len is not None and not close(v, 1 / (p_len + 1)):
                    bad('path:formula', f'path({a},{b},sim={simr}) = {v} expected 1/({p_len}+1)')
                # ---- lch
                for d in depths:
                    st, v = call(sim.lch, ss[a], ss[b], d, simulate_root=simr)
                    if st == 'budget':
                        continue
                    if not shared or d <= 0:
                        if st != 'wnerror':
                            bad('lch:missing-error', f'lch({a},{b},d={d},sim={simr}) -> {v!r} (shared={shared})')
                        continue
                    if st != 'ok':
                        bad('lch:raises', f'lch({a},{b},d={d},sim={simr}) raised {v!r}')
                        continue
                    obs.append(round(v, 9))
                    if p_len is not None and not close(v, -math.log((p_len + 1) / (2 * d))):
                        bad('lch:formula', f'lch({a},{b},d={d},sim={simr}) = {v} expected -log(({p_len}+1)/{2 * d})')
                    s2, w2 = call(sim.lch, ss[b], ss[a], d, simulate_root=simr)
                    if s2 == 'ok' and w2 != v:
                        bad('lch:asymmetric', f'lch({a},{b})={v} lch({b},{a})={w2} d={d} sim={simr}')
                    s3, w3 = call(sim.lch, ss[a], ss[a], d, simulate_root=simr)
                    if s3 == 'ok' and v > w3 + 1e-12:
                        bad('lch:exceeds-self', f'lch({a},{b})={v} > lch({a},{a})={w3}')
                # ---- wup
                st, v = call(sim.wup, ss[a], ss[b], simulate_root=simr)
                st2, v2 = call(sim.wup, ss[b], ss[a], simulate_root=simr)
                if st == 'budget':
                    continue
                if not shared:
                    if st != 'wnerror':
                        bad('wup:missing-error', f'wup({a},{b},sim={simr}) -> {v!r} but nothing is shared')
                    continue
                if st != 'ok':
                    bad('wup:raises', f'wup({a},{b},sim={simr}) raised {v!r}')
                    continue
                obs.append(round(v, 9))
                if not (0.0 < v <= 1.0):
                    bad('wup:out-of-range', f'wup({a},{b},sim={simr}) = {v}')
                if a == b and v != 1.0:
                    bad('wup:identical-not-one', f'wup({a},{a},sim={simr}) = {v}')
                if st2 == 'ok' and v2 != v:
                    bad('wup:asymmetric', f'wup({a},{b})={v} wup({b},{a})={v2} sim={simr}')
                if ref.dag:
                    acc = set()
                    for c in ref.lch(a, b, simr):
                        if c == Ref.ROOT:
                            i, j, ks = ref.root_dist(a), ref.root_dist(b), [1]
                        else:
                            i, j = ref.sp_len(a, c, simr), ref.sp_len(b, c, simr)
                            ks = [ref.max_depth(c) + 1, ref.min_depth(c) + 1]
                            if simr:
                                ks += [k + 1 for k in ks]
                        for k in ks:
                            acc.add(2 * k / (i + j + 2 * k))
                    if not any(close(v, x) for x in acc):
                        bad('wup:formula', f'wup({a},{b},sim={simr}) = {v} not among {sorted(acc)}')
            # ---- information-content metrics (no simulate_root)
            if not compat:
                continue
            lcs = ref.lch(a, b, False) if ref.dag else None
            shared = bool(ref.common(a, b, False))
            allc = ref.common(a, b, False)
            if 'real' in g:
                # expanded mode: only stored synsets carry a weight - the most informative *stored* common
                # hypernym counts; placeholders among the common hypernyms must not break the metric, and
                # without any stored one there is nothing to measure (wn.Error)
                allc = {c for c in allc if c in idx}
                lcs = {c for c in lcs if c in idx} if lcs is not None else None
                shared = bool(allc)
            for tb in tables:
                freq = {p: {None: 10.0} for p in 'nvar'}
                for i in range(n):
                    freq[fold(pos[i])][f'{lid}-{i}'] = float(tb[i])
                ic = {i: -math.log(tb[i] / 10.0) for i in range(n)}
                for f in (sim.res, sim.jcn, sim.lin):
                    st, v = call(f, ss[a], ss[b], freq)
                    if st == 'budget':
                        continue
                    if not shared:
                        if st != 'wnerror':
                            bad(f'{f.__name__}:missing-error', f'{f.__name__}({a},{b}) -> {v!r} but nothing is shared')
                        continue
                    if st != 'ok':
                        bad(f'{f.__name__}:raises', f'{f.__name__}({a},{b}) table {tb} raised {v!r}')
                        continue
                    obs.append(round(v, 9) if not math.isinf(v) else 'inf')
                    st2, v2 = call(f, ss[b], ss[a], freq)
                    if st2 == 'ok' and not (v2 == v):
                        bad(f'{f.__name__}:asymmetric', f'{f.__name__}({a},{b})={v} ({b},{a})={v2} table {tb}')
                    if f is sim.res:
                        # documented: the maximum information content over the common subsumers ("more
                        # efficiently computed using the lowest common hypernyms"): the maximum over all common
                        # hypernyms, or over the lowest ones where depth is defined - never a smaller value
                        acc = {max(ic[c] for c in allc)} | ({max(ic[c] for c in lcs)} if lcs and 'real' not in g else set())
                        if not any(close(v, x) for x in acc):
                            bad('res:formula', f'res({a},{b}) table {tb} = {v} expected the maximum IC {sorted(acc)} '
                                f'(IC by node: { {c: round(ic[c], 4) for c in sorted(allc)} })')
                        continue
                    if lcs is None:
                        continue
                    acc = set()
                    for c in (set(lcs) if 'real' not in g else set()) | {max(allc, key=lambda c: ic[c])}:
                        ic0 = ic[c]
                        if f is sim.res:
                            acc.add(ic0)
                        elif f is sim.jcn:
                            if ic[a] == ic[b] == ic0 == 0:
                                acc.add(0.0)
                            elif ic[a] + ic[b] == 2 * ic0:
                                acc.add(math.inf)
                            else:
                                acc.add(1 / (ic[a] + ic[b] - 2 * ic0))
                        else:
                            if ic[a] == 0 or ic[b] == 0:
                                acc.add(0.0)
                            else:
                                acc.add(2 * ic0 / (ic[a] + ic[b]))
                                if ic[a] + ic0:
                                    acc.add(2 * ic0 / (ic[a] + ic0))
                    if not any(close(v, x) for x in acc):
                        bad(f'{f.__name__}:formula', f'{f.__name__}({a},{b}) table {tb} = {v} not among {sorted(acc)}')


def check(case):
    env.fresh_db()
    dbdir = env.db_path().parent
    V, digs = [], []
    try:
        built, lexs = [], []
        for k, g in enumerate(case['graphs']):
            lid = f'g{k}'
            lex, edges, hypo = build_lexicon(lid, g)
            lexs.extend(lex)
            built.append((lid, g, edges))
        env.add_resource(mk.resource([x for x in lexs if not x.get('extends')], '1.0'))
        if any(x.get('extends') for x in lexs):
            env.add_resource(mk.resource([x for x in lexs if x.get('extends')], '1.1'))
        nt = 0
        for lid, g, edges in built:
            obs = []
            check_graph(lid, g, edges, V, obs)
            if g.get('h') or g.get('edges'):
                nt += 1
                digs.append(runner.digest(obs))
        return {'v': V, 'digs': digs, 'nt': nt, 'n': len(built)}
    finally:
        env.drop_db(dbdir)


def tables_for(n, tier, seed):
    # weight 10 = the part-of-speech total (probability 1, information content 0)
    allt = list(itertools.product((1, 2, 5), repeat=n))
    allt += [t for t in itertools.product((1, 2, 10), repeat=n) if 10 in t and (n <= 2 or t.count(10) <= 2)]
    if n <= 3:
        return allt
    k_ = 16 if tier == 'thorough' else 7
    return [allt[0], allt[-1]] + [allt[(7 * k + seed) % len(allt)] for k in range(1, k_)]


def space(tier, seed):
    from .c13 import family_graphs
    gs = [dict(g, tables=[tuple([2] * g['n']), tuple((1, 2, 5)[i % 3] for i in range(g['n'])),
                          tuple((10, 5, 1, 2)[i % 4] for i in range(g['n']))])
          for g in family_graphs(tier)]
    gs = [{'n': 3, 'loops': False, 'h': h, 'decoy': True, 'tables': [(2, 2, 2), (10, 1, 5)]} for h in range(1, 1 << 6)] + gs
    for n in (1, 2, 3):
        for h in range(1 << (n * n)):
            gs.append({'n': n, 'loops': True, 'h': h, 'tables': tables_for(n, tier, seed)})
    for p in (['as', 'sn', 'nv'], ['asn', 'ssa', 'nvn']):
        n = len(p[0])
        for pp in p:
            for h in range(1 << (n * (n - 1))):
                same = len({'a' if c == 's' else c for c in pp}) == 1     # IC tables are per part of speech
                gs.append({'n': n, 'loops': False, 'h': h, 'pos': pp,
                           'tables': [tuple([2] * n), tuple(range(1, n + 1))] if same else []})
    for h in (dag_masks(4) if tier == 'quick' else range(1 << 12)):
        gs.append({'n': 4, 'loops': False, 'h': h, 'tables': tables_for(4, tier, seed)})
    # expanded mode: path / lch / wup over a graph borrowed from an expand lexicon, all pairs of the r real
    # synsets (r >= 2; by relabelling symmetry every subset of that size); a lowest common hypernym may be
    # an *INFERRED* placeholder. For the 2- and 3-node graphs also res / jcn / lin with weight tables: information content is keyed by stored synsets, so the most informative *stored* common hypernym counts.
    for n in (2, 3):
        for h in range(1 << (n * n)):
            for r in range(2, n + 1):
                gs.append({'n': n, 'loops': True, 'h': h, 'real': (1 << r) - 1,
                           'tables': [tuple([2] * n), tuple((1, 5, 2)[i] for i in range(n)), tuple((5, 1, 10)[i] for i in range(n))]})
    for h in (dag_masks(4) if tier == 'quick' else range(1 << 12)):
        for r in ((2,) if tier == 'quick' else (2, 3)):
            gs.append({'n': 4, 'loops': False, 'h': h, 'real': (1 << r) - 1, 'tables': []})
    # ... and with the two stored synsets in two different queried lexicons
    for h in range(1 << 9):
        gs.append({'n': 3, 'loops': True, 'h': h, 'real': 3, 'split': 2, 'tables': []})
    for h in dag_masks(4):
        gs.append({'n': 4, 'loops': False, 'h': h, 'real': 3, 'split': 2, 'tables': []})
    # extension mode: one node and its edges, the first edge, or all edges come from a lexicon extension
    for n, hs in ((3, range(1, 1 << 6)), (4, dag_masks(4))):
        for h in hs:
            ne = bin(h).count('1')
            for xn, xe in ((1 << (n - 1), 0), (0, 1), (0, (1 << ne) - 1)):
                if n == 3 or tier == 'thorough' or xn:
                    gs.append({'n': n, 'loops': False, 'h': h, 'ext': {'nodes': xn, 'edges': xe}, 'scope': 'both',
                               'tables': [tuple([2] * n), tuple((1, 5, 2, 10)[i] for i in range(n))]})
    if tier == 'quick':
        # the cyclic loop-free 4-node graphs: every 8th, rotating
        dags = set(dag_masks(4))
        cyc = [h for h in range(1 << 12) if h not in dags]
        gs += [{'n': 4, 'loops': False, 'h': h, 'tables': []} for i, h in enumerate(cyc) if i % 8 == seed % 8]
    else:
        for i, h in enumerate(dag_masks(5)):
            if i % 4 == 0:
                gs.append({'n': 5, 'loops': False, 'h': h, 'tables': [(1, 2, 5, 2, 1), (5, 5, 1, 2, 2)]})
    return gs


def run(tier, seed, jobs=None):
    gs = space(tier, seed)
    cases = [{'graphs': gs[i:i + BATCH]} for i in range(0, len(gs), BATCH)]
    rule = ('graphs: all labelled digraphs with self-loops n<=3 (all 3^n weight tables over {1,2,5}), pos colourings, all DAGs '
            'on 4 nodes (8 tables) + every 8th cyclic loop-free 4-node digraph (quick) / all 4096 (thorough) + every 4th DAG on 5 '
            'nodes (thorough); the n<=3 digraphs and 4-node DAGs (thorough: all 4-node digraphs) again in expanded mode (graph borrowed from an expand lexicon, 2..n real synsets, the rest *INFERRED* placeholders; path/lch/wup only); all ordered pairs x simulate_root; path, lch (3 depths), wup, res, jcn, lin. '
            'evaluations = graphs; distinct = distinct value digests over graphs with >=1 edge.')
    return runner.run_space(PROP, tier, seed, cases, check, rule=rule, jobs=jobs, chunk=1, recheck=_one,
                            samples=[gs[3], gs[600], gs[-1]], extra={'graphs': len(gs)})


def _one(c):
    return check(c if 'graphs' in c else {'graphs': [c]})


def replay(path):
    return runner.replay(PROP, path, _one)
