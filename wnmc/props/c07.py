"""C07 - the way a resource is supplied does not change what gets stored.

Engine E2 over a finite configuration space: documents x all 15 supply routes x
(second add through every route) x every directory-iteration order for collections."""
import copy
import hashlib
import itertools
import os
import pathlib
import tempfile
import warnings

import wn
from wn import lmf

from .. import env, runner, docgen, docs, xmlw, observe, routes, mk
from ..refmodel import diff

PROP = 'C07'

MANIFEST = dict(
    category='exploration', design_ref='DESIGN.md §3 C07',
    technique='exhaustive enumeration of documents x 15 supply routes x 15 repeat routes x directory orders through the real wn.add, canonical/exact table-dump equality',
    text='For each document (single lexicon, two lexicons, extension over an installed base, nasty-payload document, lexicon-level frame carrying a senses attribute, ILI file) the same bytes are supplied through every route (xml, gz, xz, package with extra files, collection, tar/tar.gz/tar.xz of file/package/collection, lmf.load + add_lexical_resource); the canonical table dump must equal the plain-file reference; a second add through every route must leave the exact dump unchanged; an extension without its base must be skipped as a whole without an exception; input files (sha256) and the in-memory resource (deep copy) must be unmodified; for collections every order in which the directory can list its packages is explored, and a collection holding two versions of one lexicon id must give the same wn.lexicons() order and the same bare-id resolution under every such order. A file holding a base and its extension is supplied through every route, also when the base alone is already installed (the extension must still be added: the result must equal the bundle added to an empty database).',
    note='An extension bundled in the same file as its own base is not generated (the statement does not say whether the pre-check or the post-state decides). Cross-lexicon row order and the shared lookup inventories are compared as sets.',
)

_orig_iterdir = pathlib.Path.iterdir
_PERM = [None]


_ITERDIR_CALLS = [0]


def _iterdir(self):
    _ITERDIR_CALLS[0] += 1
    items = sorted(_orig_iterdir(self))
    k = _PERM[0]
    if k is not None and len(items) > 1:
        perms = list(itertools.islice(itertools.permutations(items), 0, 720))
        items = list(perms[k % len(perms)])
    return iter(items)


def documents():
    v = '1.3'
    M = docs.maximal(v)
    S = docs.second_lexicon(v)
    T = docs.second_lexicon(v, 'th')
    X = docs.extension(v, M, flags=('annot',))
    nasty = copy.deepcopy(M)
    nasty['label'] = 'A & B <"q"> it\'s\ttab'
    nasty['version'] = '1.0&x'
    nasty['entries'][0]['lemma']['writtenForm'] = 'é"\'<>&'
    fs = copy.deepcopy(M)
    fs['frames'][0]['senses'] = [fs['id'] + '-s2']      # lexicon-level frame with a senses attribute
    out = {
        'single': ({'lmf_version': v, 'lexicons': [M]}, []),
        'double': ({'lmf_version': v, 'lexicons': [S, M]}, []),
        'triple': ({'lmf_version': v, 'lexicons': [T, S, M]}, []),
        'extension': ({'lmf_version': v, 'lexicons': [X]}, [{'lmf_version': v, 'lexicons': [M]}]),
        'nasty': ({'lmf_version': v, 'lexicons': [nasty]}, []),
        'frame-senses': ({'lmf_version': v, 'lexicons': [fs]}, []),
        'v1.0': ({'lmf_version': '1.0', 'lexicons': [docs.maximal('1.0')]}, []),
        # an extension whose base is missing is skipped as a whole - and nothing else is
        'skip-mix': ({'lmf_version': v, 'lexicons': [docs.extension(v, docs.maximal(v, lid='nb'), lid='xq'), S, T]}, []),
        # ... also an extension of that skipped extension, listed after it in the same file
        'skip-chain': ({'lmf_version': v, 'lexicons': [
            docs.extension(v, docs.maximal(v, lid='nb'), lid='xq'),
            mk.lexicon('xr', '1', 'en', 'extension of the skipped extension', extends={'id': 'xq', 'version': '3'},
                       entries=[mk.entry('xr-e1', 'chain', 'n', senses=[mk.sense('xr-s1', 'xr-ss1')])],
                       synsets=[mk.synset('xr-ss1', 'n', '')]),
            S, T]}, []),
        # a base and its extension in ONE file; 'bundle-pre': the same file added when the base alone is installed
        # already (the base is skipped as already added, the extension - whose base IS installed - must be added):
        # the result must equal what the bundle gives in an empty database
        'bundle': ({'lmf_version': v, 'lexicons': [M, X]}, []),
        'bundle-pre': ({'lmf_version': v, 'lexicons': [M, X]}, [{'lmf_version': v, 'lexicons': [M]}]),
        'skip-mix-ref': ({'lmf_version': v, 'lexicons': [S, T]}, []),
        # two versions of one lexicon id (independent packages of one collection): which of them is "the most
        # recently added" is observable through a bare-id specifier
        'versions': ({'lmf_version': v, 'lexicons': [S, dict(copy.deepcopy(S), version='9-later')]}, []),
    }
    return out


ILI_TSV = ('ili\tstatus\tdefinition\n'
           'i101\tactive\tfirst concept\n'
           'i102\tdeprecated\t\n'
           'i999\tprovisional\tunused concept\n').encode()


def _sha(p: pathlib.Path):
    h = hashlib.sha256()
    if p.is_dir():
        for q in sorted(p.rglob('*')):
            if q.is_file():
                h.update(str(q.relative_to(p)).encode())
                h.update(q.read_bytes())
    else:
        h.update(p.read_bytes())
    return h.hexdigest()


def do_add(route, d, parts, resource, suffix='.xml'):
    """-> (ok, err, violations)"""
    V = []
    if route == 'memory':
        f = routes.build('xml', d, parts)
        res = lmf.load(f, progress_handler=None)
        keep = copy.deepcopy(res)
        ok, err = runner.guarded(env.add_resource, res)
        if res != keep:
            V.append(('add_lexical_resource:mutates-resource',
                      f'the in-memory resource was modified: {diff(res, keep)[:2]}'))
        return ok, err, V
    src = routes.build(route, d, parts, suffix)
    before = _sha(src)
    ok, err = runner.guarded(env.add, src)
    if _sha(src) != before:
        V.append(('add:modifies-input', f'input {src.name} changed on disk (route {route})'))
    return ok, err, V


def check(case):
    docname, r1 = case['doc'], case['r1']
    V = []
    d = env.new_dir('c07')
    tmpd = d / 'tmp'
    tmpd.mkdir()
    old_tmp = tempfile.tempdir
    tempfile.tempdir = str(tmpd)
    pathlib.Path.iterdir = _iterdir
    _PERM[0] = case.get('perm')
    dbdir = env.fresh_db()
    n = 0
    digs = []
    try:
        if docname == 'ili':
            parts, resource, pre, suffix = [('cili', ILI_TSV)], None, [], '.tsv'
            pre = [documents()['single'][0]]
        elif docname.startswith('boundary-'):
            # a file larger than the usual I/O block sizes whose second lexicon tag straddles a 64 KiB offset
            from .c20 import boundary_doc
            text = boundary_doc(65536, int(docname.split('-')[1]), 'multi', 'lines')
            parts, resource, pre, suffix = [('whole', text.encode('ascii'))], None, [], '.xml'
        else:
            resource, pre = documents()[docname]
            parts, suffix = routes.resource_parts(resource), '.xml'
        if case.get('allperms'):
            # the same collection listed by the file system in every possible order: what the library reports
            # afterwards (order of wn.lexicons(), resolution of the bare id) must not depend on it
            seen = {}
            for k in range(case['allperms']):
                _PERM[0] = k
                env.drop_db(dbdir)
                dbdir = env.fresh_db()
                ok, err, v = do_add(r1, d / f'perm{k}', parts, resource, suffix)
                V += v
                n += 1
                if not ok:
                    V.append((f'route:raises:{err[0]}@{err[1]}', f'route {r1} (directory order {k}) raised {err}'))
                    continue
                lid = resource['lexicons'][0]['id']
                o = ([x.specifier() for x in wn.lexicons()], [x.specifier() for x in wn.lexicons(lexicon=lid)])
                seen.setdefault(repr(o), k)
                env.close_pool()
            if not _ITERDIR_CALLS[0]:
                print(f'NOTE property={PROP}: the library no longer lists directories through pathlib.Path.iterdir - '
                      f'the directory-order exploration is vacuous')
            if len(seen) > 1:
                V.append((f'route:depends-on-directory-order:{r1}',
                          f'the same collection gives different results depending on the order in which the directory '
                          f'lists its packages: {sorted(seen)}'))
            return {'v': V, 'digs': [runner.digest(sorted(seen))], 'nt': 1, 'n': n}
        for i, p in enumerate(pre if not case.get('nobase') else []):
            env.add(env.write_file(f'pre{i}.xml', xmlw.serialize(p), d))
        if case.get('nobase'):
            # extension whose base is missing: skipped as a whole, silently
            env.add_resource({'lmf_version': '1.3', 'lexicons': [docs.second_lexicon('1.3', 'zz')]})
            env.close_pool()
            before = observe.exact_dump(env.db_path())
            ok, err, v = do_add(r1, d / 'a', parts, resource, suffix)
            V += v
            env.close_pool()
            if not ok:
                V.append((f'skip:raises:{err[0]}', f'extension without base: add raised {err} (route {r1})'))
            if observe.exact_dump(env.db_path()) != before:
                V.append(('skip:changes-db', f'extension without base changed the database (route {r1})'))
            n += 1
        else:
            # reference: plain xml route into a separate database
            ok, err, v = do_add(r1, d / 'a', parts, resource, suffix)
            V += v
            if not ok:
                V.append((f'route:raises:{err[0]}@{err[1]}', f'route {r1} raised {err}'))
                return {'v': V, 'd': 'x'}
            env.close_pool()
            C1 = observe.canonical_dump(env.db_path())
            E1 = observe.exact_dump(env.db_path())
            snap = env.snapshot()
            digs.append(runner.digest(C1))
            # compare with the reference route
            ref = _reference(docname, d)
            if C1 != ref:
                for x in diff(C1, ref)[:3]:
                    V.append((f'route:content-differs:{r1}', f'route {r1} (first) vs plain xml (second): {x}'))
            n += 1
            for r2 in case.get('r2', []):
                env.restore(snap)
                ok, err, v = do_add(r2, d / f'b-{r2}', parts, resource, suffix)
                V += v
                env.close_pool()
                n += 1
                if not ok:
                    V.append((f'repeat:raises:{err[0]}@{err[1]}', f'second add via {r2} after {r1} raised {err}'))
                    continue
                E2 = observe.exact_dump(env.db_path())
                if E2 != E1 and docname != 'ili':
                    V.append(('repeat:changes-db', f'second add via {r2} after {r1} changed the database: '
                              f'{diff(E2, E1)[:2]}'))
                if docname == 'ili' and E2 != E1:
                    V.append(('repeat:ili-changes-db', f'second ILI add via {r2} changed the database: {diff(E2, E1)[:2]}'))
        return {'v': V, 'digs': digs or ['skip'], 'nt': 1, 'n': n}
    finally:
        tempfile.tempdir = old_tmp
        pathlib.Path.iterdir = _orig_iterdir
        _PERM[0] = None
        env.drop_db(dbdir)
        import shutil
        shutil.rmtree(d, ignore_errors=True)


_REF = {}


def _reference(docname, d):
    if docname in _REF:
        return _REF[docname]
    cur_dir = pathlib.Path(wn.config.data_directory)
    env.close_pool()
    refdb = env.fresh_db()
    old_tmp = tempfile.tempdir
    tempfile.tempdir = None
    try:
        if docname == 'ili':
            env.add(env.write_file('pre.xml', xmlw.serialize(documents()['single'][0]), d))
            env.add(env.write_file('ref.tsv', ILI_TSV, d))
        elif docname.startswith('boundary-'):
            # reference through the in-memory route (no pre-scan involved)
            from .c20 import boundary_doc
            f = env.write_file('ref.xml', boundary_doc(65536, int(docname.split('-')[1]), 'multi', 'lines').encode('ascii'), d)
            env.add_resource(lmf.load(f, progress_handler=None))
        else:
            resource, pre = documents()[{'skip-mix': 'skip-mix-ref', 'skip-chain': 'skip-mix-ref',
                                         'bundle-pre': 'bundle'}.get(docname, docname)]
            for i, p in enumerate(pre):
                env.add(env.write_file(f'refpre{i}.xml', xmlw.serialize(p), d))
            env.add(env.write_file('ref.xml', xmlw.serialize(resource), d))
        env.close_pool()
        _REF[docname] = observe.canonical_dump(env.db_path())
    finally:
        tempfile.tempdir = old_tmp
        env.drop_db(refdb)
        wn.config.data_directory = cur_dir
    return _REF[docname]


def space(tier, seed):
    cases = []
    names = [n for n in documents() if n != 'skip-mix-ref'] + ['ili'] + [f'boundary-{d}' for d in (0, 1, 9, 120, 200)]
    for name in names:
        rts = routes.ALL_ROUTES if name != 'ili' else [r for r in routes.FILE_ROUTES]
        if name.startswith('boundary-'):
            for r1 in ('xml', 'gz', 'tar-package', 'memory'):
                cases.append({'doc': name, 'r1': r1, 'r2': ['xml', 'memory']})
            continue
        for r1 in rts:
            if tier == 'thorough' or name in ('double', 'extension', 'ili'):
                r2 = rts
            else:
                k = (rts.index(r1) + seed) % len(rts)
                r2 = [r1, rts[k], rts[(k + 5) % len(rts)], 'memory' if name != 'ili' else 'xml']
            cases.append({'doc': name, 'r1': r1, 'r2': list(dict.fromkeys(r2))})
    # directory-order choices for collections (and packages)
    for name, nperm in (('double', 6), ('triple', 24), ('single', 6)):
        for r1 in ('collection', 'tar-collection', 'package'):
            for k in range(nperm):
                cases.append({'doc': name, 'r1': r1, 'r2': [r1], 'perm': k})
    for r1 in ('collection', 'tar-collection', 'tgz-collection'):
        cases.append({'doc': 'versions', 'r1': r1, 'allperms': 6})
    for r1 in routes.ALL_ROUTES:
        cases.append({'doc': 'extension', 'r1': r1, 'nobase': True})
    return cases


RULE = ('documents {single, double, triple, extension(+base), nasty payloads, lexicon-level frame with senses, '
        '1.0 document, ILI tsv} x first route (15) x second route (all 15 for double/extension/ili, 4 rotating '
        'for the others in quick; all in thorough) + every directory listing order for collections/packages + '
        'extension without base via every route. evaluations = adds performed; distinct = distinct canonical dumps.')


def run(tier, seed, jobs=None):
    return runner.run_space(PROP, tier, seed, space(tier, seed), check, rule=RULE, jobs=jobs, chunk=2,
                            assumptions=['gzip/lzma/tarfile/SQLite trusted', 'own XML writer trusted'])


def replay(path):
    return runner.replay(PROP, path, check)
