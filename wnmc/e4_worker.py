"""Subprocess entry point for C16.
  python -B -m wnmc.e4_worker explore <bound> <max_exec_per_item> <out.json> [item-filter]
  python -B -m wnmc.e4_worker plain <out.json>
"""
import json
import os
import sys
import tempfile
import time
import shutil

sys.dont_write_bytecode = True


def main():
    mode = sys.argv[1]
    if mode == 'explore':
        from wnmc import e4
        e4.install()
    from wnmc import battery, env
    root = tempfile.mkdtemp(prefix='wnmc16.', dir=env.scratch_parent())
    try:
        dirs = battery.build_databases(root)
        its = battery.items(dirs)
        if mode == 'plain':
            out = {}
            for name, run in its:
                try:
                    a = run()
                    b = run()
                except Exception as exc:     # noqa: BLE001
                    a = b = f'EXC {type(exc).__name__}: {exc}'
                out[name] = {'t': a, 'repeat_same': a == b, 'raised': isinstance(a, str) and a.startswith('EXC ')}
            # histories: the ':warm' run (reads before the database changes) must report what the ':cold' one does
            out['__history__'] = [nm for nm in out if nm.endswith(':warm')
                                  and out[nm]['t'] != out.get(nm[:-5] + ':cold', {}).get('t')]
            # interference pass: does running item Y first change what item X returns?
            inter = []
            if len(sys.argv) > 3:
                si, sn = map(int, sys.argv[3].split('/'))
                heavy = [i for i, (nm, _) in enumerate(its)
                         if nm.startswith(('ic:', 'sim:', 'tax:', 'morphy:', 'validate:', 'export:', 'dump:', 'scan'))
                         or nm.startswith(('q:lists', 'q:nav', 'q:translate', 'q:module'))]
                mine = [h for k, h in enumerate(heavy) if k % sn == si]
                npairs = 0
                for yi in mine:
                    yname, yrun = its[yi]
                    for xname, xrun in its:
                        try:
                            yrun()
                            t = xrun()
                        except Exception as exc:     # noqa: BLE001
                            t = f'EXC {type(exc).__name__}: {exc}'
                        npairs += 1
                        if t != out[xname]['t']:
                            inter.append([yname, xname])
                out['__pairs__'] = {'count': npairs, 'interference': inter[:50]}
            json.dump(out, open(sys.argv[2], 'w'))
            return 0
        from wnmc import e4
        bound, max_exec, dest = int(sys.argv[2]), int(sys.argv[3]), sys.argv[4]
        shard = sys.argv[5] if len(sys.argv) > 5 else '0/1'
        flt = sys.argv[6] if len(sys.argv) > 6 else None
        si, sn = map(int, shard.split('/'))
        res = {}
        for idx, (name, run) in enumerate(its):
            if idx % sn != si or (flt and flt not in name):
                continue

            def safe(run=run):
                try:
                    return run()
                except Exception as exc:     # noqa: BLE001
                    return f'EXC {type(exc).__name__}: {exc}'
            # history items rebuild a database on every execution: a tenth of the execution cap is plenty for
            # their few order choices (their purpose is the warm / cold comparison of the plain pass); the
            # two-lexicon inferred-synset item costs 0.1 s per execution and has hundreds of choice points - at
            # bound 2 it alone ran for two hours, so it gets the same reduced cap (never below the quick tier's 3000; reported under items_capped)
            t_item = time.time()
            heavy = name.startswith(('hist:', 'inf:two-queried-lexicons'))
            st = e4.explore(safe, bound, max(min(max_exec, 3000), max_exec // 10) if heavy else max_exec)
            st['wall'] = round(time.time() - t_item, 1)
            first = safe()        # default order again, scheduler inactive
            outs = st.pop('outcomes')
            res[name] = dict(st, n_outcomes=len(outs),
                             outcomes=[{'prefix': p, 't': t[:100000]} for t, p in list(outs.items())[:4]],
                             default=first)
        json.dump(res, open(dest, 'w'))
        return 0
    finally:
        env.close_pool()
        shutil.rmtree(root, ignore_errors=True)


if __name__ == '__main__':
    sys.exit(main())
