"""Engine E4: iteration-order choice exploration.

An import hook compiles the wn.* modules of the working tree through an AST
transformer that turns every set display, set comprehension and set()/frozenset()
call into a ChoiceSet; each time a ChoiceSet whose element hashes depend on the hash
seed is iterated (or popped), the order is a scheduler choice. explore() is the classic
deviation-bounded stateless DFS over those choices. No change to /repo.

This module must be imported (and install() called) BEFORE wn is imported."""
import ast
import builtins
import importlib.abc
import importlib.machinery
import itertools
import math
import sys


class Sched:
    def __init__(self):
        self.prefix = []
        self.trace = []        # (alternatives, chosen)
        self.active = False

    def choose(self, k):
        if not self.active or k <= 1:
            return 0
        i = len(self.trace)
        c = self.prefix[i] if i < len(self.prefix) else 0
        if c >= k:
            raise RuntimeError(f'replay divergence: choice {c} of {k} at point {i}')
        self.trace.append((k, c))
        return c


SCHED = Sched()


def _canon(x):
    if isinstance(x, (str, int, float, bool, type(None), bytes)):
        return (type(x).__name__, x if not isinstance(x, (type(None),)) else 0)
    if isinstance(x, tuple):
        return ('tuple', tuple(_canon(y) for y in x))
    return (type(x).__name__, repr(getattr(x, 'id', '')), getattr(x, '_id', 0), repr(getattr(x, '_ili', '')),
            repr(x) if not hasattr(x, 'id') else '')


def _seed_dependent(x):
    if isinstance(x, (str, bytes)):
        return True
    if isinstance(x, (int, float, bool, type(None))):
        return False
    if isinstance(x, tuple):
        return any(_seed_dependent(y) for y in x)
    return True


def _n_alternatives(m):
    return math.factorial(m) if m <= 4 else 2 + m


def _order(items, c):
    m = len(items)
    if c == 0:
        return items
    if m <= 4:
        return list(next(itertools.islice(itertools.permutations(items), c, None)))
    if c == 1:
        return items[::-1]
    i = c - 2
    return [items[i]] + items[:i] + items[i + 1:]


def _ordered(s):
    items = list(set.__iter__(s)) if isinstance(s, set) else list(frozenset.__iter__(s))
    if len(items) < 2 or not SCHED.active:
        return items
    if not any(_seed_dependent(x) for x in items):
        return items                      # e.g. sets of rowids: order is not seed dependent
    try:
        items.sort(key=_canon)
    except TypeError:
        items.sort(key=lambda x: repr(_canon(x)))
    c = SCHED.choose(_n_alternatives(len(items)))
    return _order(items, c)


def _wrap(v):
    if type(v) is set:
        return ChoiceSet(v)
    if type(v) is frozenset:
        return ChoiceFrozenSet(v)
    return v


class ChoiceSet(set):
    def __iter__(self):
        return iter(_ordered(self))

    def pop(self):
        items = _ordered(self)
        if not items:
            raise KeyError('pop from an empty set')
        x = items[0]
        self.discard(x)
        return x

    def copy(self):
        return ChoiceSet(set.copy(self))

    def __repr__(self):
        return 'ChoiceSet(%r)' % (sorted(set.__iter__(self), key=lambda x: repr(_canon(x))),)


class ChoiceFrozenSet(frozenset):
    def __iter__(self):
        return iter(_ordered(self))

    def copy(self):
        return self


def _binop(name):
    def f(self, *others):
        return _wrap(getattr(set if isinstance(self, set) else frozenset, name)(self, *others))
    f.__name__ = name
    return f


for _n in ('union', 'intersection', 'difference', 'symmetric_difference',
           '__or__', '__and__', '__sub__', '__xor__', '__ror__', '__rand__', '__rsub__', '__rxor__'):
    setattr(ChoiceSet, _n, _binop(_n))
    setattr(ChoiceFrozenSet, _n, _binop(_n))


def _mkset(it=()):
    return ChoiceSet(it)


def _mkfrozenset(it=()):
    return ChoiceFrozenSet(it)


class _T(ast.NodeTransformer):
    def visit_Set(self, node):
        self.generic_visit(node)
        return ast.copy_location(
            ast.Call(ast.Name('WNMC_SET', ast.Load()), [ast.List(node.elts, ast.Load())], []), node)

    def visit_SetComp(self, node):
        self.generic_visit(node)
        lc = ast.ListComp(node.elt, node.generators)
        return ast.copy_location(ast.Call(ast.Name('WNMC_SET', ast.Load()), [lc], []), node)

    def visit_Call(self, node):
        self.generic_visit(node)
        if isinstance(node.func, ast.Name) and node.func.id in ('set', 'frozenset') and not node.keywords:
            node.func = ast.copy_location(ast.Name('WNMC_' + node.func.id.upper(), ast.Load()), node.func)
        return node


class _Loader(importlib.machinery.SourceFileLoader):
    def source_to_code(self, data, path, *, _optimize=-1):
        tree = ast.parse(data, filename=path)
        tree = _T().visit(tree)
        ast.fix_missing_locations(tree)
        return compile(tree, path, 'exec', dont_inherit=True, optimize=_optimize)

    def get_code(self, fullname):
        # never use cached bytecode
        path = self.get_filename(fullname)
        return self.source_to_code(self.get_data(path), path)


class _Finder(importlib.abc.MetaPathFinder):
    def find_spec(self, fullname, path, target=None):
        if fullname != 'wn' and not fullname.startswith('wn.'):
            return None
        spec = importlib.machinery.PathFinder.find_spec(fullname, path)
        if spec is None or not spec.origin or not spec.origin.endswith('.py'):
            return spec
        spec.loader = _Loader(fullname, spec.origin)
        return spec


INSTRUMENTED = []


def install():
    if 'wn' in sys.modules:
        raise RuntimeError('install the E4 hook before importing wn')
    builtins.WNMC_SET = _mkset
    builtins.WNMC_FROZENSET = _mkfrozenset
    sys.meta_path.insert(0, _Finder())
    INSTRUMENTED.append(True)


def explore(run, bound, max_exec=20000):
    """run() executes one battery item and returns its transcript (a string).
    DFS over choice prefixes with at most `bound` non-default choices.
    -> dict(executions, points_max, outcomes {transcript: first prefix}, capped)"""
    outcomes = {}
    stats = {'executions': 0, 'points_max': 0, 'capped': False}

    def execute(prefix):
        SCHED.prefix, SCHED.trace, SCHED.active = list(prefix), [], True
        try:
            out = run()
        finally:
            SCHED.active = False
        stats['executions'] += 1
        stats['points_max'] = max(stats['points_max'], len(SCHED.trace))
        return out, list(SCHED.trace)

    def rec(prefix, used):
        if stats['executions'] >= max_exec:
            stats['capped'] = True
            return
        out, trace = execute(prefix)
        outcomes.setdefault(out, list(prefix))
        if used >= bound:
            return
        for i in range(len(prefix), len(trace)):
            k = trace[i][0]
            base = [c for _, c in trace[:i]]
            for alt in range(1, k):
                rec(base + [alt], used + 1)
                if stats['capped']:
                    return
    rec([], 0)
    stats['outcomes'] = outcomes
    return stats
