"""Own WN-LMF serializer (independent of wn.lmf.dump): abstract document
(a dict in the loader's normal form) -> XML text, with configurable style."""

DC_URIS = {
    '1.0': 'http://purl.org/dc/elements/1.1/',
    '1.1': 'https://globalwordnet.github.io/schemas/dc/',
    '1.2': 'https://globalwordnet.github.io/schemas/dc/',
    '1.3': 'https://globalwordnet.github.io/schemas/dc/',
}
DC_KEYS = ['contributor', 'coverage', 'creator', 'date', 'description', 'format',
           'identifier', 'publisher', 'relation', 'rights', 'source', 'subject',
           'title', 'type']
PLAIN_META = ['status', 'note', 'confidenceScore']


class Style:
    def __init__(self, quote='"', reverse_attrs=False, explicit_defaults=False,
                 comments=False, charrefs=False, indent=True, self_close=True, tagcomments=False, cdata=False):
        self.quote = quote
        self.reverse_attrs = reverse_attrs
        self.explicit_defaults = explicit_defaults
        self.comments = comments
        self.tagcomments = tagcomments      # comments / processing instructions whose text looks like markup
        self.cdata = cdata                  # element text written as a CDATA section (unescaped)
        self.charrefs = charrefs      # write non-ASCII as &#N;
        self.indent = indent
        self.self_close = self_close


DEFAULT = Style()


def esc_attr(s, st):
    out = []
    for ch in str(s):
        if ch == '&':
            out.append('&amp;')
        elif ch == '<':
            out.append('&lt;')
        elif ch == '>':
            out.append('&gt;')
        elif ch == '"':
            out.append('&quot;' if st.quote == '"' else '"')
        elif ch == "'":
            out.append('&apos;' if st.quote == "'" else "'")
        elif ch in '\t\n\r':
            out.append(f'&#{ord(ch)};')
        elif st.charrefs and ord(ch) > 127:
            out.append(f'&#{ord(ch)};')
        else:
            out.append(ch)
    return ''.join(out)


def esc_text(s, st):
    out = []
    for ch in str(s):
        if ch == '&':
            out.append('&amp;')
        elif ch == '<':
            out.append('&lt;')
        elif ch == '>':
            out.append('&gt;')
        elif ch == '\r':
            out.append('&#13;')
        elif st.charrefs and ord(ch) > 127:
            out.append(f'&#{ord(ch)};')
        else:
            out.append(ch)
    return ''.join(out)


class W:
    def __init__(self, version, st):
        self.v = version
        self.st = st
        self.out = []
        self.level = 0

    def attrs(self, pairs, meta=None):
        pairs = [(k, v) for k, v in pairs if v is not None]
        if meta:
            for k in DC_KEYS:
                if k in meta:
                    pairs.append((f'dc:{k}', meta[k]))
            for k in PLAIN_META:
                if k in meta:
                    pairs.append((k, meta[k]))
        if self.st.reverse_attrs:
            pairs = pairs[::-1]
        q = self.st.quote
        return ''.join(f' {k}={q}{esc_attr(v, self.st)}{q}' for k, v in pairs)

    def line(self, s):
        self.out.append(('  ' * self.level if self.st.indent else '') + s)

    def open(self, tag, pairs=(), meta=None):
        self.line(f'<{tag}{self.attrs(pairs, meta)}>')
        self.level += 1
        if self.st.comments:
            self.line(f'<!-- inside {tag} -->')
        if self.st.tagcomments:
            self.line('<!-- every <Lexicon> needs an id; old: <Lexicon id="zz" version="9" label="no">'
                      ' <Extends id="qq" version="7"/> <LexiconExtension id="zx" version="8"> -->')
            self.line('<?note <Lexicon id="pi" version="0"> <Extends id="pq" version="1"/> ?>')

    def close(self, tag):
        self.level -= 1
        self.line(f'</{tag}>')

    def empty(self, tag, pairs=(), meta=None):
        if self.st.self_close:
            self.line(f'<{tag}{self.attrs(pairs, meta)}/>')
        else:
            self.line(f'<{tag}{self.attrs(pairs, meta)}></{tag}>')

    def text(self, tag, text, pairs=(), meta=None):
        if self.st.cdata and ']]>' not in str(text) and '\r' not in str(text):
            self.line(f'<{tag}{self.attrs(pairs, meta)}><![CDATA[{text}]]></{tag}>')
        else:
            self.line(f'<{tag}{self.attrs(pairs, meta)}>{esc_text(text, self.st)}</{tag}>')


def _bool(v, st, default=True):
    if v is None:
        return 'true' if (st.explicit_defaults and default) else None
    if v is False:
        return 'false'
    return 'true' if st.explicit_defaults else None


def header(version, st=DEFAULT, xmldecl=None, doctype=None):
    q = st.quote
    xd = xmldecl if xmldecl is not None else f'<?xml version={q}1.0{q} encoding={q}UTF-8{q}?>'
    dt = doctype if doctype is not None else (
        f'<!DOCTYPE LexicalResource SYSTEM {q}http://globalwordnet.github.io/schemas/WN-LMF-{version}.dtd{q}>')
    return [xd, dt]


def serialize(resource, st=DEFAULT, raw_text=None):
    """resource: {'lmf_version', 'lexicons'} -> str.
    raw_text: optional {id(obj): literal text} overriding an element's text
    (so un-normalised whitespace can be written while the dict holds the normal form)."""
    v = resource['lmf_version']
    w = W(v, st)
    raw_text = raw_text or {}
    w.out.extend(header(v, st))
    w.open('LexicalResource', [('xmlns:dc', DC_URIS[v])])
    for lex in resource['lexicons']:
        _lexicon(w, lex, raw_text)
    w.close('LexicalResource')
    return '\n'.join(w.out) + '\n'


def _txt(obj, raw_text):
    return raw_text.get(id(obj), obj['text'])


def _sp(obj, raw_text):
    """xml:space="preserve" for the elements listed under raw_text['__preserve__'] (their text is kept verbatim
    by the loader, so the dict holds the literal text)"""
    return [('xml:space', 'preserve')] if id(obj) in raw_text.get('__preserve__', ()) else []


def _lexicon(w, lex, rt):
    tag = 'LexiconExtension' if lex.get('extends') else 'Lexicon'
    w.open(tag, [('id', lex['id']), ('label', lex['label']), ('language', lex['language']),
                 ('email', lex['email']), ('license', lex['license']), ('version', lex['version']),
                 ('url', lex.get('url')), ('citation', lex.get('citation')),
                 ('logo', lex.get('logo'))], lex.get('meta'))
    if lex.get('extends'):
        e = lex['extends']
        w.empty('Extends', [('id', e['id']), ('version', e['version']), ('url', e.get('url'))])
    for r in lex.get('requires', []):
        w.empty('Requires', [('id', r['id']), ('version', r['version']), ('url', r.get('url'))])
    for e in lex.get('entries', []):
        _entry(w, e, rt)
    for ss in lex.get('synsets', []):
        _synset(w, ss, rt)
    for fr in lex.get('frames', []):
        _frame(w, fr)
    w.close(tag)


def _formkids(w, f, rt):
    for p in f.get('pronunciations', []):
        w.text('Pronunciation', _txt(p, rt),
               _sp(p, rt) + [('variety', p.get('variety')), ('notation', p.get('notation')),
                ('phonemic', _bool(p.get('phonemic'), w.st)), ('audio', p.get('audio'))])
    for t in f.get('tags', []):
        w.text('Tag', _txt(t, rt), _sp(t, rt) + [('category', t['category'])])


def _haskids(f):
    return bool(f.get('pronunciations') or f.get('tags'))


def _entry(w, e, rt):
    ext = e.get('external')
    tag = 'ExternalLexicalEntry' if ext else 'LexicalEntry'
    w.open(tag, [('id', e['id'])], None if ext else e.get('meta'))
    lem = e.get('lemma')
    if lem is not None:
        if lem.get('external'):
            ltag, lat = 'ExternalLemma', []
        else:
            ltag = 'Lemma'
            lat = [('writtenForm', lem['writtenForm']), ('script', lem.get('script')),
                   ('partOfSpeech', lem['partOfSpeech'])]
        if _haskids(lem):
            w.open(ltag, lat)
            _formkids(w, lem, rt)
            w.close(ltag)
        else:
            w.empty(ltag, lat)
    for f in e.get('forms', []):
        if f.get('external'):
            ftag, fat = 'ExternalForm', [('id', f['id'])]
        else:
            ftag = 'Form'
            fat = [('id', f.get('id')), ('writtenForm', f['writtenForm']), ('script', f.get('script'))]
        if _haskids(f):
            w.open(ftag, fat)
            _formkids(w, f, rt)
            w.close(ftag)
        else:
            w.empty(ftag, fat)
    for s in e.get('senses', []):
        _sense(w, s, rt)
    for fr in e.get('frames', []):
        _frame(w, fr)
    w.close(tag)


def _relation(w, tag, r):
    w.empty(tag, [('relType', r['relType']), ('target', r['target'])], r.get('meta'))


def _example(w, x, rt):
    w.text('Example', _txt(x, rt), _sp(x, rt) + [('language', x.get('language'))], x.get('meta'))


def _sense(w, s, rt):
    if s.get('external'):
        tag, at, meta = 'ExternalSense', [('id', s['id'])], None
    else:
        tag = 'Sense'
        at = [('id', s['id']), ('synset', s['synset']),
              ('lexicalized', _bool(s.get('lexicalized'), w.st)),
              ('adjposition', s.get('adjposition')),
              ('subcat', ' '.join(s['subcat']) if s.get('subcat') else None)]
        meta = s.get('meta')
    kids = s.get('relations') or s.get('examples') or s.get('counts')
    if not kids:
        w.empty(tag, at, meta)
        return
    w.open(tag, at, meta)
    for r in s.get('relations', []):
        _relation(w, 'SenseRelation', r)
    for x in s.get('examples', []):
        _example(w, x, rt)
    for c in s.get('counts', []):
        w.text('Count', str(c['value']), [], c.get('meta'))
    w.close(tag)


def _synset(w, ss, rt):
    if ss.get('external'):
        tag, at, meta = 'ExternalSynset', [('id', ss['id'])], None
    else:
        tag = 'Synset'
        at = [('id', ss['id']), ('ili', ss['ili']), ('partOfSpeech', ss.get('partOfSpeech')),
              ('lexicalized', _bool(ss.get('lexicalized'), w.st)),
              ('members', ' '.join(ss['members']) if ss.get('members') else None),
              ('lexfile', ss.get('lexfile'))]
        meta = ss.get('meta')
    kids = (ss.get('definitions') or ss.get('ili_definition') or ss.get('relations')
            or ss.get('examples'))
    if not kids:
        w.empty(tag, at, meta)
        return
    w.open(tag, at, meta)
    for d in ss.get('definitions', []):
        w.text('Definition', _txt(d, rt),
               _sp(d, rt) + [('language', d.get('language')), ('sourceSense', d.get('sourceSense'))],
               d.get('meta'))
    if ss.get('ili_definition'):
        w.text('ILIDefinition', _txt(ss['ili_definition'], rt), _sp(ss['ili_definition'], rt),
               ss['ili_definition'].get('meta'))
    for r in ss.get('relations', []):
        _relation(w, 'SynsetRelation', r)
    for x in ss.get('examples', []):
        _example(w, x, rt)
    w.close(tag)


def _frame(w, fr):
    w.empty('SyntacticBehaviour',
            [('id', fr.get('id')), ('subcategorizationFrame', fr['subcategorizationFrame']),
             ('senses', ' '.join(fr['senses']) if fr.get('senses') else None)])
