"""Supply routes for wn.add: the same bytes offered as plain file, compressed file,
package, collection, tar archives, or in-memory resource."""
import gzip
import io
import lzma
import tarfile
from pathlib import Path

from . import xmlw

FILE_ROUTES = ['xml', 'gz', 'xz', 'package', 'collection',
               'tar-file', 'tgz-file', 'txz-file',
               'tar-package', 'tgz-package', 'txz-package',
               'tar-collection', 'tgz-collection', 'txz-collection',
               'tar-gzfile', 'tgz-xzfile']
ALL_ROUTES = FILE_ROUTES + ['memory']


def _mkpackage(d: Path, name: str, data: bytes, suffix='.xml', extras=True):
    p = d / name
    p.mkdir(parents=True)
    (p / f'{name}{suffix}').write_bytes(data)
    if extras:
        (p / 'README.md').write_text('# readme\n')
        (p / 'LICENSE').write_text('license text\n')
        (p / 'citation.bib').write_text('@misc{x}\n')
    return p


def _tar(src: Path, dest: Path, mode: str):
    with tarfile.open(dest, mode) as tar:
        tar.add(src, arcname=src.name)
    return dest


def build(route: str, d: Path, parts, suffix='.xml'):
    """parts: list of (name, bytes) - one per independent package (the first holds the
    whole resource for single-file routes). Returns the path to hand to wn.add."""
    d.mkdir(parents=True, exist_ok=True)
    whole_name, whole = parts[0]
    kind = route.split('-')[-1] if '-' in route else route
    if route == 'xml':
        p = d / f'{whole_name}{suffix}'
        p.write_bytes(whole)
        return p
    if route == 'gz':
        p = d / f'{whole_name}{suffix}.gz'
        p.write_bytes(gzip.compress(whole))
        return p
    if route == 'xz':
        p = d / f'{whole_name}{suffix}.xz'
        p.write_bytes(lzma.compress(whole))
        return p
    if route == 'package':
        return _mkpackage(d, whole_name, whole, suffix)
    if route == 'collection':
        c = d / 'collection'
        c.mkdir()
        (c / 'README.md').write_text('collection\n')
        for name, data in parts[1:] or parts[:1]:
            _mkpackage(c, name, data, suffix)
        return c
    comp = {'tar': 'w', 'tgz': 'w:gz', 'txz': 'w:xz'}[route.split('-')[0]]
    inner = d / 'inner'
    if kind in ('gzfile', 'xzfile'):
        inner.mkdir()
        src = inner / f'{whole_name}{suffix}.{kind[:2]}'
        src.write_bytes(gzip.compress(whole) if kind == 'gzfile' else lzma.compress(whole))
    elif kind == 'file':
        inner.mkdir()
        src = inner / f'{whole_name}{suffix}'
        src.write_bytes(whole)
    elif kind == 'package':
        src = _mkpackage(inner, whole_name, whole, suffix)
    else:
        src = inner / 'collection'
        src.mkdir(parents=True)
        for name, data in parts[1:] or parts[:1]:
            _mkpackage(src, name, data, suffix)
    ext = {'w': '.tar', 'w:gz': '.tar.gz', 'w:xz': '.tar.xz'}[comp]
    return _tar(src, d / f'archive{ext}', comp)


def resource_parts(resource, raw_text=None):
    """[(name, bytes)]: whole resource first, then one single-lexicon resource per lexicon"""
    whole = xmlw.serialize(resource, raw_text=raw_text).encode('utf-8')
    parts = [('whole', whole)]
    if len(resource['lexicons']) > 1:
        for i, lex in enumerate(resource['lexicons']):
            one = {'lmf_version': resource['lmf_version'], 'lexicons': [lex]}
            parts.append((f'pkg{i}', xmlw.serialize(one, raw_text=raw_text).encode('utf-8')))
    return parts
