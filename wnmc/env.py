"""Isolation and determinism controls: scratch directories, fresh databases,
snapshots of the real SQLite file, pool handling."""
import atexit
import os
import shutil
import sys
import tempfile
import zlib
from pathlib import Path

sys.dont_write_bytecode = True

import wn                     # noqa: E402  (editable install of /repo)
import wn._db                 # noqa: E402
from wn.util import ProgressHandler  # noqa: E402

_ROOT = None
_COUNTER = 0


def _base():
    return '/dev/shm' if os.access('/dev/shm', os.W_OK) else tempfile.gettempdir()


def _sweep(base):
    """remove scratch trees left behind by runs whose top-level process no longer exists (killed runs)"""
    try:
        names = os.listdir(base)
    except OSError:
        return
    for n in names:
        parts = n.split('.')
        if len(parts) == 3 and parts[0] in ('wnmc', 'wnmc16', 'wnmc16r') and parts[1].isdigit() \
                and not _is_check_process(parts[1]):
            shutil.rmtree(os.path.join(base, n), ignore_errors=True)


def _is_check_process(pid):
    """does this pid exist and belong to a run of this harness?  (process ids are re-used: a tree whose
    number now belongs to an unrelated process is stale as well)"""
    try:
        cmd = open(f'/proc/{pid}/cmdline', 'rb').read()
    except OSError:
        return False
    return b'check' in cmd or b'wnmc' in cmd


def scratch_parent() -> str:
    """One scratch tree per run: created by the first process that asks (the ./check process), handed to forked
    pool workers and to sub-processes through the environment, removed by its creator at exit - workers that a
    pool terminates never get to run their own exit handlers."""
    p = os.environ.get('WNMC_SCRATCH_PARENT')
    if p and os.path.isdir(p):
        return p
    base = _base()
    _sweep(base)
    p = tempfile.mkdtemp(prefix=f'wnmc.{os.getpid()}.', dir=base)
    os.environ['WNMC_SCRATCH_PARENT'] = p
    atexit.register(_cleanup, os.getpid(), Path(p))
    return p


def scratch_root() -> Path:
    """Per-process scratch directory (RAM-backed if possible) inside the run's scratch tree, removed at exit."""
    global _ROOT
    if _ROOT is None or _ROOT[0] != os.getpid():
        path = Path(tempfile.mkdtemp(prefix=f'p{os.getpid()}.', dir=scratch_parent()))
        _ROOT = (os.getpid(), path)
        atexit.register(_cleanup, os.getpid(), path)
    return _ROOT[1]


def _cleanup(pid, path):
    if os.getpid() == pid:
        close_pool()
        shutil.rmtree(path, ignore_errors=True)


def cleanup_now():
    global _ROOT
    if _ROOT is not None and _ROOT[0] == os.getpid():
        close_pool()
        shutil.rmtree(_ROOT[1], ignore_errors=True)
        _ROOT = None


def close_pool():
    for conn in list(wn._db.pool.values()):
        try:
            conn.close()
        except Exception:
            pass
    wn._db.pool.clear()


def new_dir(prefix='d') -> Path:
    global _COUNTER
    _COUNTER += 1
    p = scratch_root() / f'{prefix}{_COUNTER}'
    p.mkdir()
    return p


def fresh_db() -> Path:
    """Point wn at a brand-new empty data directory; returns the directory."""
    close_pool()
    d = new_dir('db')
    wn.config.data_directory = d
    return d


def drop_db(d: Path):
    close_pool()
    shutil.rmtree(d, ignore_errors=True)


def db_path() -> Path:
    return Path(wn.config.database_path)


scratch_parent()


def snapshot() -> bytes:
    """Committed content of the current database file (compressed)."""
    wn._db.connect()  # make sure it exists / is initialised
    close_pool()
    return zlib.compress(db_path().read_bytes(), 1)


def restore(snap: bytes):
    close_pool()
    db_path().write_bytes(zlib.decompress(snap))


def write_file(name: str, text, directory: Path = None) -> Path:
    d = directory or new_dir('f')
    p = d / name
    if isinstance(text, bytes):
        p.write_bytes(text)
    else:
        p.write_text(text, encoding='utf-8')
    return p


class Quiet(ProgressHandler):
    """Silent progress handler (the library default prints a bar to stderr)."""
    def __init__(self, *args, **kwargs):
        kwargs.pop('file', None)
        super().__init__(*args, file=None, **kwargs)


def add(path, **kw):
    wn.add(path, progress_handler=Quiet, **kw)


def add_resource(res, **kw):
    wn.add_lexical_resource(res, progress_handler=Quiet, **kw)


def remove(spec, **kw):
    wn.remove(spec, progress_handler=Quiet, **kw)
