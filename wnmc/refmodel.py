"""Reference model (the specification, not a port): plain Python over abstract
documents, no SQL and no wn imports."""
import copy


def spec_of(lex):
    return f"{lex['id']}:{lex['version']}"


def dep_spec(d):
    return f"{d['id']}:{d['version']}"


class Store:
    def __init__(self):
        self.lexs = []      # installed lexicon documents, installation order
        self.ilis = {}      # ili id -> [status, definition, meta]

    def clone(self):
        s = Store()
        s.lexs = list(self.lexs)
        s.ilis = copy.deepcopy(self.ilis)
        return s

    # -- operations ---------------------------------------------------------
    def specs(self):
        return [spec_of(x) for x in self.lexs]

    def get(self, spec):
        for x in self.lexs:
            if spec_of(x) == spec:
                return x
        return None

    def add_resource(self, resource):
        pre = set(self.specs())
        added = []
        for lex in resource['lexicons']:
            s = spec_of(lex)
            if s in pre:
                continue
            # the base must be installed by the time the extension is reached: before the call, or as an
            # earlier lexicon of the same resource
            if lex.get('extends') and dep_spec(lex['extends']) not in pre | set(added):
                continue
            self._add(lex)
            added.append(s)
        return added

    def _add(self, lex):
        for ss in lex.get('synsets', []):
            if ss.get('external'):
                continue
            ili = ss.get('ili')
            if ili and ili != 'in' and ili not in self.ilis:
                d = ss.get('ili_definition')
                self.ilis[ili] = ['presupposed', d['text'] if d else None,
                                  (d.get('meta') if d else None)]
        self.lexs.append(lex)

    def extensions_of(self, spec, transitive=True):
        out, frontier = [], [spec]
        while frontier:
            cur = frontier.pop(0)
            for x in self.lexs:
                if x.get('extends') and dep_spec(x['extends']) == cur and spec_of(x) not in out:
                    out.append(spec_of(x))
                    if transitive:
                        frontier.append(spec_of(x))
        return out

    def bases_of(self, spec):
        out = []
        cur = self.get(spec)
        while cur is not None and cur.get('extends'):
            b = dep_spec(cur['extends'])
            if self.get(b) is None:
                break
            out.append(b)
            cur = self.get(b)
        return out

    def family(self, spec):
        return [spec] + self.bases_of(spec) + self.extensions_of(spec)

    def remove(self, specs):
        gone = set()
        for s in specs:
            gone.add(s)
            gone.update(self.extensions_of(s))
        self.lexs = [x for x in self.lexs if spec_of(x) not in gone]
        return gone

    def add_ili(self, rows):
        for r in rows:
            st = r.get('status', 'active')
            df = r.get('definition')
            if r['ili'] in self.ilis:
                self.ilis[r['ili']][0] = st
                self.ilis[r['ili']][1] = df
            else:
                self.ilis[r['ili']] = [st, df, None]

    # -- indexing -----------------------------------------------------------
    def index(self):
        return Index(self)


class Index:
    """Entity index over all installed lexicons; entities are keyed 'spec|id'."""

    def __init__(self, store):
        self.store = store
        self.words, self.senses, self.synsets = {}, {}, {}
        self.local = {}   # spec -> {'entry': set, 'sense': set, 'synset': set, 'frame': {id: text}}
        for lex in store.lexs:
            sp = spec_of(lex)
            loc = {'entry': set(), 'sense': set(), 'synset': set(), 'frame': {}}
            for e in lex.get('entries', []):
                if not e.get('external'):
                    loc['entry'].add(e['id'])
                for s in e.get('senses', []):
                    if not s.get('external'):
                        loc['sense'].add(s['id'])
            for ss in lex.get('synsets', []):
                if not ss.get('external'):
                    loc['synset'].add(ss['id'])
            for f in lex.get('frames', []):
                if f.get('id'):
                    loc['frame'][f['id']] = f['subcategorizationFrame']
            self.local[sp] = loc
        for lex in store.lexs:
            self._index_lexicon(lex)

    def owner(self, sp, kind, id):
        """spec of the lexicon defining id, searching sp then its base chain"""
        for cand in [sp] + self.store.bases_of(sp):
            if id in self.local[cand][kind]:
                return cand
        return None

    def key(self, sp, kind, id):
        o = self.owner(sp, kind, id)
        return None if o is None else f'{o}|{id}'

    def _index_lexicon(self, lex):
        sp = spec_of(lex)
        for ss in lex.get('synsets', []):
            if ss.get('external'):
                k = self.key(sp, 'synset', ss['id'])
                rec = self.synsets[k]
                rec['extra'].append((sp, ss))
            else:
                self.synsets[f'{sp}|{ss["id"]}'] = {
                    'lex': sp, 'doc': ss, 'members': [], 'extra': []}
        for e in lex.get('entries', []):
            if e.get('external'):
                wk = self.key(sp, 'entry', e['id'])
                wrec = self.words[wk]
                if e.get('lemma'):
                    wrec['annot'].append((sp, 0, None, e['lemma']))
                for i, f in enumerate(e.get('forms', []), 1):
                    if f.get('external'):
                        wrec['annot'].append((sp, None, f['id'], f))
                    else:
                        wrec['xforms'].append((sp, i, f))
            else:
                wk = f'{sp}|{e["id"]}'
                wrec = self.words[wk] = {'lex': sp, 'doc': e, 'senses': [], 'annot': [],
                                         'xforms': []}
            rank = 0
            for s in e.get('senses', []):
                if s.get('external'):
                    sk = self.key(sp, 'sense', s['id'])
                    self.senses[sk]['extra'].append((sp, s))
                    continue
                sk = f'{sp}|{s["id"]}'
                ssk = self.key(sp, 'synset', s['synset'])
                self.senses[sk] = {'lex': sp, 'doc': s, 'word': wk, 'synset': ssk,
                                   'erank': rank, 'extra': [], 'frames': []}
                wrec['senses'].append(sk)
                self.synsets[ssk]['members'].append(sk)
                rank += 1
        # frames
        loc = self.local[sp]
        for f in lex.get('frames', []):
            for sid in f.get('senses', []):
                sk = self.key(sp, 'sense', sid)
                if sk:
                    self.senses[sk]['frames'].append((sp, f['subcategorizationFrame']))
        for e in lex.get('entries', []):
            for s in e.get('senses', []):
                if s.get('external'):
                    continue
                for fid in s.get('subcat', []):
                    if fid in loc['frame']:
                        self.senses[f'{sp}|{s["id"]}']['frames'].append((sp, loc['frame'][fid]))
            if e.get('external'):
                continue
            allsenses = [s['id'] for s in e.get('senses', [])]
            for f in e.get('frames', []):
                for sid in (f.get('senses') or allsenses):
                    sk = self.key(sp, 'sense', sid)
                    if sk:
                        self.senses[sk]['frames'].append((sp, f['subcategorizationFrame']))

    # -- transcript ---------------------------------------------------------
    def transcript(self, S, default_mode=False, reltypes=(), expanded=(), forms=()):
        search_forms = tuple(forms)
        st = self.store
        S = list(S)
        T = {'lexicons': {}, 'words': {}, 'senses': {}, 'synsets': {}}
        unordered = {'forms': set(), 'senses': set(), 'members': set()}
        installed = set(st.specs())
        for sp in S:
            lex = st.get(sp)
            T['lexicons'][sp] = {
                'id': lex['id'], 'label': lex['label'], 'language': lex['language'],
                'email': lex['email'], 'license': lex['license'], 'version': lex['version'],
                'url': lex.get('url'), 'citation': lex.get('citation'), 'logo': lex.get('logo'),
                'meta': lex.get('meta') or {},
                'requires': {dep_spec(d): (dep_spec(d) if dep_spec(d) in installed else None)
                             for d in lex.get('requires', [])},
                'extends': dep_spec(lex['extends']) if lex.get('extends') else None,
                'extensions': sorted(st.extensions_of(sp, transitive=False)),
                'modified': False,
            }
        T['expanded'] = sorted(expanded)

        def scope(sp):
            return set(st.family(sp)) if default_mode else set(S)

        def formrow(f, sp_scope, wrec, lemma_or_id):
            tags = [[t['text'], t['category']] for t in f.get('tags', [])]
            prons = [[p['text'], p.get('variety'), p.get('notation'), p.get('phonemic', True),
                      p.get('audio')] for p in f.get('pronunciations', [])]
            for (xsp, rank0, fid, xf) in wrec['annot']:
                if xsp not in sp_scope:
                    continue
                hit = (rank0 == 0 and lemma_or_id == 0) or (fid is not None and fid == lemma_or_id)
                if hit:
                    tags += [[t['text'], t['category']] for t in xf.get('tags', [])]
                    prons += [[p['text'], p.get('variety'), p.get('notation'),
                               p.get('phonemic', True), p.get('audio')]
                              for p in xf.get('pronunciations', [])]
            return tags, prons

        for wk, wrec in self.words.items():
            if wrec['lex'] not in S:
                continue
            sc = scope(wrec['lex'])
            e = wrec['doc']
            forms = []
            lem = e['lemma']
            tg, pr = formrow(lem, sc, wrec, 0)
            forms.append([lem['writtenForm'], None, lem.get('script'), sorted(tg), sorted(pr, key=repr)])
            for f in e.get('forms', []):
                tg, pr = formrow(f, sc, wrec, f.get('id') if f.get('id') else object())
                forms.append([f['writtenForm'], f.get('id'), f.get('script'), sorted(tg),
                              sorted(pr, key=repr)])
            for (xsp, i, f) in wrec['xforms']:
                if xsp in sc:
                    tg, pr = formrow(f, sc, wrec, f.get('id') if f.get('id') else object())
                    forms.append([f['writtenForm'], f.get('id'), f.get('script'), sorted(tg),
                                  sorted(pr, key=repr)])
                    unordered['forms'].add(wk)
            senses = [sk for sk in wrec['senses'] if self.senses[sk]['lex'] in sc]
            if any(self.senses[sk]['lex'] != wrec['lex'] for sk in senses):
                unordered['senses'].add(wk)
            T['words'][wk] = {'pos': lem['partOfSpeech'], 'lemma': lem['writtenForm'],
                              'forms': forms, 'meta': e.get('meta') or {}, 'senses': senses}

        def rels_of(owner_sp, src_id, doc, sc, want):
            """declared relations of doc (in lexicon owner_sp) split by target kind"""
            out = []
            for r in doc.get('relations', []):
                tk = self.key(owner_sp, 'sense', r['target'])
                kind = 'sense'
                if tk is None:
                    tk = self.key(owner_sp, 'synset', r['target'])
                    kind = 'synset'
                if tk is None or kind != want:
                    continue
                tlex = tk.split('|', 1)[0]
                if tlex not in sc:
                    continue
                out.append((r, tk))
            return out

        for sk, srec in self.senses.items():
            if srec['lex'] not in S:
                continue
            sc = scope(srec['lex'])
            s = srec['doc']
            sid = s['id']
            contrib = [(srec['lex'], s)] + [(xsp, xs) for xsp, xs in srec['extra'] if xsp in sc]
            examples, counts, rels, ssrels = [], [], {}, []
            for csp, cdoc in contrib:
                examples += [x['text'] for x in cdoc.get('examples', [])]
                counts += [[c['value'], c.get('meta') or {}] for c in cdoc.get('counts', [])]
                for r, tk in rels_of(csp, sid, cdoc, sc, 'sense'):
                    m = r.get('meta') or {}
                    rels[(r['relType'], sid, r['target'], csp, m.get('type'))] = \
                        [r['relType'], sid, r['target'], tk, csp, m]
                for r, tk in rels_of(csp, sid, cdoc, sc, 'synset'):
                    if r['relType'] in reltypes:
                        ssrels.append([r['relType'], tk])
            wlex = srec['word'].split('|', 1)[0]
            sslex = srec['synset'].split('|', 1)[0]
            sel = set(S)
            T['senses'][sk] = {
                'word': srec['word'] if (wlex in sel) else 'ERR:wn.Error',
                'synset': srec['synset'] if (sslex in sel) else 'ERR:wn.Error',
                'examples': sorted(examples), 'counts': sorted(counts, key=repr),
                'frames': sorted(t for fsp, t in srec['frames'] if fsp in sc),
                'adjposition': s.get('adjposition'), 'lexicalized': s.get('lexicalized', True),
                'meta': s.get('meta') or {},
                'relations': sorted(rels.values(), key=repr),
                'synset_relations': sorted([list(x) for x in {tuple(y) for y in ssrels}]),
            }

        for ssk, rec in self.synsets.items():
            if rec['lex'] not in S:
                continue
            sc = scope(rec['lex'])
            ss = rec['doc']
            ssid = ss['id']
            contrib = [(rec['lex'], ss)] + [(xsp, x) for xsp, x in rec['extra'] if xsp in sc]
            defs, examples, rels = [], [], {}
            for csp, cdoc in contrib:
                defs += [d['text'] for d in cdoc.get('definitions', [])]
                examples += [x['text'] for x in cdoc.get('examples', [])]
                for r in cdoc.get('relations', []):
                    tk = self.key(csp, 'synset', r['target'])
                    if tk is None or tk.split('|', 1)[0] not in sc:
                        continue
                    m = r.get('meta') or {}
                    rels[(r['relType'], ssid, r['target'], csp, m.get('type'))] = \
                        [r['relType'], ssid, r['target'], tk, csp, m, None]
            ili = ss.get('ili')
            if ili == 'in':
                d = ss.get('ili_definition')
                iliobs = [None, 'proposed', d['text'] if d else None, (d.get('meta') if d else None) or {}]
            elif ili:
                row = st.ilis[ili]
                iliobs = [ili, row[0], row[1], row[2] or {}]
            else:
                iliobs = None
            members_all = [sk for sk in rec['members'] if self.senses[sk]['lex'] in sc]
            declared = [f'{rec["lex"]}|{m}' for m in ss.get('members', [])]
            declared = [m for m in declared if m in members_all]
            rest = [m for m in members_all if m not in declared]
            if len(rest) > 1 or (rest and len(declared) > 126):
                unordered['members'].add(ssk)
            T['synsets'][ssk] = {
                'pos': ss.get('partOfSpeech'), 'ili': iliobs,
                'definition': defs[0] if defs else None,
                'examples': sorted(examples), 'lexfile': ss.get('lexfile'),
                'lexicalized': ss.get('lexicalized', True),
                'members': declared + rest, 'meta': ss.get('meta') or {},
                'relations': sorted(rels.values(), key=repr),
            }
        ilis = {}
        for ssk, rec in self.synsets.items():
            if rec['lex'] not in S:
                continue
            o = T['synsets'][ssk]['ili']
            if o is None:
                continue
            if o[0] is None:
                ilis[('p', ssk)] = [None, 'proposed', o[2]]
            else:
                ilis[('e', o[0])] = [o[0], o[1], o[2]]
        T['ilis'] = sorted(ilis.values(), key=repr)
        if search_forms:
            # form search: a word form is visible
            # when the lexicon that defines it is selected; senses and synsets are found through the
            # selected senses of such entries
            sel = set(S)

            def visible(wk):
                wrec = self.words[wk]
                e = wrec['doc']
                fs = []
                if wrec['lex'] in sel:
                    fs.append(e['lemma']['writtenForm'])
                    fs += [f['writtenForm'] for f in e.get('forms', [])]
                fs += [f['writtenForm'] for (xsp, i, f) in wrec['xforms'] if xsp in sel]
                return fs
            vis = {wk: visible(wk) for wk in self.words}
            T['search'] = {}

            def hit(q, fs):
                # the documented look-up with the default normalizer: the stored form or, where it differs,
                # its stored normalised form equals the query
                return any(f == q or (_norm(f) != f and _norm(f) == q) for f in fs)

            def find(q):
                ws = sorted(wk for wk, wrec in self.words.items() if wrec['lex'] in sel and hit(q, vis[wk]))
                ss_ = sorted(sk for sk, srec in self.senses.items() if srec['lex'] in sel and hit(q, vis[srec['word']]))
                syn = sorted({srec['synset'] for sk, srec in self.senses.items()
                              if srec['lex'] in sel and hit(q, vis[srec['word']])
                              and srec['synset'].split('|', 1)[0] in sel})
                return [ws, ss_, syn]
            for q in search_forms:
                first, second = find(q), find(_norm(q))
                # only if a kind of search finds nothing is the query itself normalised and matched again
                T['search'][q] = [a or b for a, b in zip(first, second)]
        return T, unordered


def _norm(s):
    """the documented default normalizer, written independently of wn: lower-case, NFKD, characters with a
    non-zero canonical combining class dropped"""
    import unicodedata
    return ''.join(c for c in unicodedata.normalize('NFKD', s.lower()) if not unicodedata.combining(c))


def normalize_unordered(T, unordered):
    """sort the parts whose order the specification leaves open (tie ranks)"""
    T = copy.deepcopy(T)
    for wk in unordered['forms']:
        if wk in T['words']:
            f = T['words'][wk]['forms']
            T['words'][wk]['forms'] = f[:1] + sorted(f[1:], key=repr)
    for wk in unordered['senses']:
        if wk in T['words'] and isinstance(T['words'][wk]['senses'], list):
            T['words'][wk]['senses'] = sorted(T['words'][wk]['senses'])
    for sk in unordered['members']:
        if sk in T['synsets'] and isinstance(T['synsets'][sk]['members'], list):
            T['synsets'][sk]['members'] = sorted(T['synsets'][sk]['members'])
    return T


def diff(a, b, path='', out=None, limit=12):
    """human-readable list of differences between two JSON-like values"""
    if out is None:
        out = []
    if len(out) >= limit:
        return out
    if type(a) != type(b):
        out.append(f'{path}: {a!r} != {b!r}')
    elif isinstance(a, dict):
        for k in sorted(set(a) | set(b), key=repr):
            if k not in a:
                out.append(f'{path}/{k}: missing in first; second={b[k]!r}'[:400])
            elif k not in b:
                out.append(f'{path}/{k}: missing in second; first={a[k]!r}'[:400])
            else:
                diff(a[k], b[k], f'{path}/{k}', out, limit)
    elif isinstance(a, list):
        if len(a) != len(b):
            out.append(f'{path}: {a!r} != {b!r}'[:600])
        else:
            for i, (x, y) in enumerate(zip(a, b)):
                diff(x, y, f'{path}[{i}]', out, limit)
    elif a != b:
        out.append(f'{path}: {a!r} != {b!r}'[:400])
    return out
