"""Step budget counted in relation queries (wall-clock free termination oracle)."""
import wn._core as core


class BudgetExceeded(Exception):
    pass


_left = [None]
_installed = [False]


def install():
    if _installed[0]:
        return
    _installed[0] = True
    for name in ('get_synset_relations', 'get_sense_relations',
                 'get_sense_synset_relations'):
        orig = getattr(core, name, None)
        if orig is None:
            continue      # helper renamed: no step budget for it (termination is then not decided)

        def wrapper(*a, __orig=orig, **kw):
            if _left[0] is not None:
                _left[0] -= 1
                if _left[0] < 0:
                    raise BudgetExceeded()
            return __orig(*a, **kw)
        setattr(core, name, wrapper)


def call(fn, *a, budget=20000, **kw):
    """-> ('ok', value) | ('budget', None) | ('raise', exc)"""
    install()
    _left[0] = budget
    try:
        v = fn(*a, **kw)
        if hasattr(v, '__next__'):
            v = list(v)
        return 'ok', v
    except BudgetExceeded:
        return 'budget', None
    except Exception as exc:     # noqa: BLE001
        return 'raise', exc
    finally:
        _left[0] = None
