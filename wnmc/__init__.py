"""wnmc: bounded-exhaustive exploration (model checking) harness for goodmami/wn."""
