"""setup_cmd: nothing is built; verify the environment the checks rely on."""
import json
import sys
from pathlib import Path


def main():
    import wn
    from . import env, runner
    root = Path(wn.__file__).resolve().parent
    print('wn imported from', root)
    ok = True
    if not str(root).startswith('/repo/'):
        print('WARNING: wn is not imported from /repo')
    env.fresh_db()
    data = Path('/repo/tests/data/mini-lmf-1.0.xml')
    if data.exists():
        env.add(data)
        n = len(wn.words(lexicon='test-en'))
        print('mini-lmf-1.0 words(test-en) =', n)
        ok = ok and n > 0
    man = json.loads((runner.VERIF / 'MANIFEST.json').read_text())
    print('manifest checks:', len(man['checks']))
    env.cleanup_now()
    return 0 if ok else 1


if __name__ == '__main__':
    sys.exit(main())
