"""Observation functions: rowid-free API transcript and logical table dump."""
import sqlite3

import wn

ERR = 'ERR'


def spec_map():
    try:
        return {lx._id: lx.specifier() for lx in wn.lexicons()}
    except AttributeError:          # private attribute renamed: fall back to the public API
        return {}


def lexspec(x, smap):
    """specifier of the lexicon an entity belongs to (fast path through the private rowid, public API otherwise)"""
    try:
        sp = smap.get(x._lexid)
        if sp is not None:
            return sp
    except AttributeError:
        pass
    try:
        return x.lexicon().specifier()
    except Exception:               # noqa: BLE001  (placeholder synsets have no stored lexicon)
        return '?'


def rel_lexicon(r):
    try:
        return r._lexicon
    except AttributeError:
        return r.lexicon().specifier()


def ili_of(ss):
    try:
        return ss._ili
    except AttributeError:
        i = ss.ili
        return i.id if i is not None else None


def _try(fn, *a):
    try:
        return fn(*a)
    except wn.Error as exc:
        return f'{ERR}:wn.Error'
    except LookupError:
        return f'{ERR}:LookupError'


def api_transcript(w, reltypes=(), smap=None, forms=(), targets=False):
    search_forms = tuple(forms)
    """Canonical transcript of what the public API reports through Wordnet *w*.
    Entities are named 'lexspec|id'. Ordered where the API promises order."""
    smap = smap or spec_map()

    def ent(x):
        if x is None:
            return None
        if isinstance(x, str):
            return x
        return f'{lexspec(x, smap)}|{x.id}'

    T = {'lexicons': {}, 'words': {}, 'senses': {}, 'synsets': {}}
    for lx in w.lexicons():
        req = {}
        for k, v in lx.requires().items():
            req[k] = None if v is None else v.specifier()
        ext = lx.extends()
        T['lexicons'][lx.specifier()] = {
            'id': lx.id, 'label': lx.label, 'language': lx.language, 'email': lx.email,
            'license': lx.license, 'version': lx.version, 'url': lx.url,
            'citation': lx.citation, 'logo': lx.logo, 'meta': lx.metadata(),
            'requires': req, 'extends': ext.specifier() if ext else None,
            'extensions': sorted(x.specifier() for x in lx.extensions()),
            'modified': lx.modified(),
        }
    T['expanded'] = sorted(x.specifier() for x in w.expanded_lexicons())
    for word in w.words():
        forms = []
        for f in word.forms():
            forms.append([str(f), f.id, f.script,
                          sorted([t.tag, t.category] for t in f.tags()),
                          sorted(([p.value, p.variety, p.notation, p.phonemic, p.audio]
                                  for p in f.pronunciations()), key=repr)])
        senses = _try(word.senses)
        T['words'][ent(word)] = {
            'pos': word.pos, 'lemma': str(word.lemma()), 'forms': forms,
            'meta': word.metadata(),
            'senses': senses if isinstance(senses, str) else [ent(s) for s in senses],
        }
    for s in w.senses():
        rels = []
        rm = _try(s.relation_map)
        if isinstance(rm, str):
            rels = rm
        else:
            for r, t in rm.items():
                rels.append([r.name, r.source_id, r.target_id, ent(t), rel_lexicon(r), r.metadata()])
            rels.sort(key=repr)
        ssrels = []
        for t in reltypes:
            for ss in s.get_related_synsets(t):
                ssrels.append([t, ent(ss)])
        counts = sorted(([int(c), c.metadata()] for c in s.counts()), key=repr)
        wd, syn = _try(s.word), _try(s.synset)
        T['senses'][ent(s)] = {
            'word': ent(wd), 'synset': ent(syn),
            'examples': sorted(s.examples()), 'counts': counts, 'frames': sorted(s.frames()),
            'adjposition': s.adjposition(), 'lexicalized': s.lexicalized(),
            'meta': s.metadata(), 'relations': rels, 'synset_relations': sorted(ssrels),
        }
    for ss in w.synsets():
        ili = ss.ili
        rels = []
        for r, t in ss.relation_map().items():
            rels.append([r.name, r.source_id, r.target_id, ent(t), rel_lexicon(r), r.metadata(),
                         ili_of(t) if t.id == '*INFERRED*' else None])
        rels.sort(key=repr)
        mem = _try(ss.senses)
        T['synsets'][ent(ss)] = {
            'pos': ss.pos,
            'ili': None if ili is None else [ili.id, ili.status, ili.definition(), ili.metadata()],
            'definition': ss.definition(), 'examples': sorted(x if x is not None else '\0' for x in ss.examples()),
            'lexfile': ss.lexfile(), 'lexicalized': ss.lexicalized(),
            'members': mem if isinstance(mem, str) else [ent(s) for s in mem],
            'meta': ss.metadata(), 'relations': rels,
        }
        if targets:
            # relation_map() is keyed by Relation and therefore shows ONE target per declared relation; relations()
            # lists every target synset (several local synsets may answer one ILI-mapped relation)
            rl = _try(ss.relations)
            T['synsets'][ent(ss)]['targets'] = rl if isinstance(rl, str) else sorted(
                [name, ent(t)] for name, ts in rl.items() for t in ts)
    T['ilis'] = sorted(([i.id, i.status, i.definition()] for i in w.ilis()), key=repr)
    if search_forms:
        T['search'] = {q: [sorted(ent(x) for x in w.words(q)), sorted(ent(x) for x in w.senses(q)),
                           sorted(ent(x) for x in w.synsets(q))] for q in search_forms}
    return T


# ---------------------------------------------------------------------------
# logical dump of the SQLite file

TABLES = ['ilis', 'proposed_ilis', 'lexicons', 'lexicon_dependencies', 'lexicon_extensions',
          'entries', 'forms', 'pronunciations', 'tags', 'synsets', 'synset_relations',
          'definitions', 'synset_examples', 'senses', 'sense_relations',
          'sense_synset_relations', 'adjpositions', 'sense_examples', 'counts',
          'syntactic_behaviours', 'syntactic_behaviour_senses', 'relation_types',
          'ili_statuses', 'lexfiles']
SHARED = ['ilis', 'relation_types', 'ili_statuses', 'lexfiles']


def _connect_ro(path):
    import os
    if not os.path.exists(path):
        wn._db.connect()           # create + initialise, then release
        for c in list(wn._db.pool.values()):
            c.close()
        wn._db.pool.clear()
    conn = sqlite3.connect(f'file:{path}?mode=ro', uri=True)
    return conn


def exact_dump(path):
    """Every table, every column, rowids included (finest state key)."""
    conn = _connect_ro(path)
    try:
        out = {}
        for t in TABLES:
            cols = [r[1] for r in conn.execute(f'PRAGMA table_info({t})')]
            has_rowid = 'rowid' in cols
            sel = ', '.join(cols) if has_rowid else 'rowid, ' + ', '.join(cols)
            out[t] = [list(r) for r in conn.execute(f'SELECT {sel} FROM {t} ORDER BY rowid')]
        return out
    finally:
        conn.close()


def integrity(path):
    """-> list of problems: foreign_key_check, integrity_check, ownership audit."""
    conn = _connect_ro(path)
    probs = []
    try:
        for r in conn.execute('PRAGMA foreign_key_check'):
            probs.append(('fk', list(r)))
        for r in conn.execute('PRAGMA integrity_check'):
            if r[0] != 'ok':
                probs.append(('integrity', r[0]))
        owned = ['entries', 'forms', 'synsets', 'synset_relations', 'definitions',
                 'synset_examples', 'senses', 'sense_relations', 'sense_synset_relations',
                 'sense_examples', 'counts', 'syntactic_behaviours']
        for t in owned:
            n = conn.execute(
                f'SELECT count(*) FROM {t} WHERE lexicon_rowid NOT IN (SELECT rowid FROM lexicons)'
            ).fetchone()[0]
            if n:
                probs.append(('orphan-owner', t, n))
        child = [('tags', 'form_rowid', 'forms'), ('pronunciations', 'form_rowid', 'forms'),
                 ('adjpositions', 'sense_rowid', 'senses'),
                 ('syntactic_behaviour_senses', 'sense_rowid', 'senses'),
                 ('syntactic_behaviour_senses', 'syntactic_behaviour_rowid', 'syntactic_behaviours'),
                 ('proposed_ilis', 'synset_rowid', 'synsets'),
                 ('lexicon_dependencies', 'dependent_rowid', 'lexicons'),
                 ('lexicon_extensions', 'extension_rowid', 'lexicons'),
                 ('lexicon_extensions', 'base_rowid', 'lexicons')]
        for t, col, parent in child:
            n = conn.execute(
                f'SELECT count(*) FROM {t} WHERE {col} NOT IN (SELECT rowid FROM {parent})'
            ).fetchone()[0]
            if n:
                probs.append(('orphan-child', t, col, n))
    finally:
        conn.close()
    return probs


_FK = {  # table -> {column: referenced table}
    'proposed_ilis': {'synset_rowid': 'synsets'},
    'lexicon_dependencies': {'dependent_rowid': 'lexicons', 'provider_rowid': 'lexicons'},
    'lexicon_extensions': {'extension_rowid': 'lexicons', 'base_rowid': 'lexicons'},
    'entries': {'lexicon_rowid': 'lexicons'},
    'forms': {'lexicon_rowid': 'lexicons', 'entry_rowid': 'entries'},
    'pronunciations': {'form_rowid': 'forms'},
    'tags': {'form_rowid': 'forms'},
    'synsets': {'lexicon_rowid': 'lexicons', 'ili_rowid': 'ilis', 'lexfile_rowid': 'lexfiles'},
    'synset_relations': {'lexicon_rowid': 'lexicons', 'source_rowid': 'synsets',
                         'target_rowid': 'synsets', 'type_rowid': 'relation_types'},
    'definitions': {'lexicon_rowid': 'lexicons', 'synset_rowid': 'synsets', 'sense_rowid': 'senses'},
    'synset_examples': {'lexicon_rowid': 'lexicons', 'synset_rowid': 'synsets'},
    'senses': {'lexicon_rowid': 'lexicons', 'entry_rowid': 'entries', 'synset_rowid': 'synsets'},
    'sense_relations': {'lexicon_rowid': 'lexicons', 'source_rowid': 'senses',
                        'target_rowid': 'senses', 'type_rowid': 'relation_types'},
    'sense_synset_relations': {'lexicon_rowid': 'lexicons', 'source_rowid': 'senses',
                               'target_rowid': 'synsets', 'type_rowid': 'relation_types'},
    'adjpositions': {'sense_rowid': 'senses'},
    'sense_examples': {'lexicon_rowid': 'lexicons', 'sense_rowid': 'senses'},
    'counts': {'lexicon_rowid': 'lexicons', 'sense_rowid': 'senses'},
    'syntactic_behaviours': {'lexicon_rowid': 'lexicons'},
    'syntactic_behaviour_senses': {'syntactic_behaviour_rowid': 'syntactic_behaviours',
                                   'sense_rowid': 'senses'},
    'ilis': {'status_rowid': 'ili_statuses'},
}


def canonical_dump(path, per_lexicon=True):
    """Rowid-free dump: every row with foreign keys resolved to natural keys, grouped by
    owning lexicon (so cross-lexicon interleaving of rowids does not matter); the order
    of rows *within* one lexicon and table is kept (it is observable through un-ordered
    queries). Shared lookup tables are reported as sorted value sets."""
    conn = _connect_ro(path)
    try:
        raw = {}
        cols = {}
        found_fk = {}
        for t in TABLES:
            # foreign keys as the database itself declares them (a column added by a later schema, e.g. an
            # owner column, is resolved to its natural key as well), completed by the table below
            found_fk[t] = {r[3]: r[2] for r in conn.execute(f'PRAGMA foreign_key_list({t})')}
            c = [r[1] for r in conn.execute(f'PRAGMA table_info({t})')]
            cols[t] = c
            sel = ', '.join(c) if 'rowid' in c else 'rowid, ' + ', '.join(c)
            raw[t] = conn.execute(f'SELECT {sel} FROM {t} ORDER BY rowid').fetchall()
            if 'rowid' not in c:
                cols[t] = ['rowid'] + c
    finally:
        conn.close()
    li, lv = cols['lexicons'].index('id'), cols['lexicons'].index('version')
    lexspec = {r[0]: f'{r[li]}:{r[lv]}' for r in raw['lexicons']}
    nat = {'lexicons': lexspec}
    nat['ilis'] = {r[0]: r[1] for r in raw['ilis']}
    nat['relation_types'] = {r[0]: r[1] for r in raw['relation_types']}
    nat['ili_statuses'] = {r[0]: r[1] for r in raw['ili_statuses']}
    nat['lexfiles'] = {r[0]: r[1] for r in raw['lexfiles']}
    for t in ('entries', 'synsets', 'senses'):
        ci, cl = cols[t].index('id'), cols[t].index('lexicon_rowid')
        nat[t] = {r[0]: f'{lexspec.get(r[cl], "?" + str(r[cl]))}|{r[ci]}' for r in raw[t]}
    ce, cr, cf = cols['forms'].index('entry_rowid'), cols['forms'].index('rank'), cols['forms'].index('form')
    cs = cols['forms'].index('script')
    nat['forms'] = {r[0]: f'{nat["entries"].get(r[ce], "?")}#{r[cr]}#{r[cf]}#{r[cs]}' for r in raw['forms']}
    cl, cfr = cols['syntactic_behaviours'].index('lexicon_rowid'), cols['syntactic_behaviours'].index('frame')
    nat['syntactic_behaviours'] = {r[0]: f'{lexspec.get(r[cl], "?")}|{r[cfr]}'
                                   for r in raw['syntactic_behaviours']}
    out = {}
    for t in TABLES:
        fk = {c: tb for c, tb in found_fk.get(t, {}).items() if tb in nat}
        fk.update(_FK.get(t, {}))
        rows = []
        for r in raw[t]:
            d = []
            owner = None
            for c, v in zip(cols[t], r):
                if c == 'rowid':
                    continue
                if c in fk and v is not None:
                    v = nat[fk[c]].get(v, f'DANGLING:{v}')
                if c == 'lexicon_rowid':
                    owner = v
                if isinstance(v, bytes):
                    v = v.decode('utf-8', 'replace')
                d.append(v)
            rows.append((owner, d))
        if t in SHARED:
            out[t] = sorted((d for _, d in rows), key=repr)
        elif t == 'lexicons':
            out[t] = sorted((d for _, d in rows), key=repr)
        else:
            # group by owner where there is one; otherwise sort (no owner column: tags,
            # pronunciations, adjpositions, sb_senses, proposed_ilis, dependency tables)
            if any(o is not None for o, _ in rows):
                g = {}
                for o, d in rows:
                    g.setdefault(o, []).append(d)
                out[t] = {o: g[o] for o in sorted(g, key=repr)}
            else:
                out[t] = sorted((d for _, d in rows), key=repr)
    return out
