"""Builders for WN-LMF resources as plain dicts in the loader's normal form
(what wn.lmf.load returns), used where the supply route is not the subject."""


def rel(target, relType, meta=None):
    return {'target': target, 'relType': relType, 'meta': meta}


def synset(id, pos='n', ili='', relations=(), members=None, definitions=(),
           examples=(), lexfile=None, lexicalized=None, meta=None, ili_definition=None):
    d = {'id': id, 'ili': ili, 'meta': meta}
    if pos is not None:
        d['partOfSpeech'] = pos
    if relations:
        d['relations'] = list(relations)
    if members is not None:
        d['members'] = list(members)
    if definitions:
        d['definitions'] = [{'text': t, 'meta': None} if isinstance(t, str) else t
                            for t in definitions]
    if examples:
        d['examples'] = [{'text': t, 'meta': None} if isinstance(t, str) else t
                         for t in examples]
    if lexfile:
        d['lexfile'] = lexfile
    if lexicalized is not None:
        d['lexicalized'] = lexicalized
    if ili_definition is not None:
        d['ili_definition'] = ili_definition
    return d


def sense(id, synset, relations=(), examples=(), counts=(), meta=None, **kw):
    d = {'id': id, 'synset': synset, 'meta': meta}
    if relations:
        d['relations'] = list(relations)
    if examples:
        d['examples'] = [{'text': t, 'meta': None} if isinstance(t, str) else t
                         for t in examples]
    if counts:
        d['counts'] = [{'value': c, 'meta': None} if isinstance(c, int) else c
                       for c in counts]
    d.update(kw)
    return d


def entry(id, lemma, pos, senses=(), forms=(), meta=None, **kw):
    lem = {'writtenForm': lemma, 'partOfSpeech': pos}
    d = {'id': id, 'lemma': lem, 'meta': meta}
    if forms:
        d['forms'] = [{'writtenForm': f} if isinstance(f, str) else f for f in forms]
    if senses:
        d['senses'] = list(senses)
    d.update(kw)
    return d


def lexicon(id, version='1', language='en', label=None, entries=(), synsets=(),
            requires=(), extends=None, frames=(), meta=None, **kw):
    d = {'id': id, 'version': version, 'label': label or f'Lexicon {id}',
         'language': language, 'email': f'{id}@example.org',
         'license': 'https://example.org/license', 'meta': meta}
    if requires:
        d['requires'] = [dict(r) for r in requires]
    if extends:
        d['extends'] = dict(extends)
    if entries:
        d['entries'] = list(entries)
    if synsets:
        d['synsets'] = list(synsets)
    if frames:
        d['frames'] = list(frames)
    d.update(kw)
    return d


def resource(lexicons, version='1.1'):
    return {'lmf_version': version, 'lexicons': list(lexicons)}
