"""Engine E3: fault injection seams (no change to /repo).
 * CountingProgress: ProgressHandler subclass raising at global callback k
 * sqlite3 proxy for wn._db: connections are FaultConnection instances that count /
   fail statements, deny authorizer callbacks and lower the VM-step granularity of
   the progress handler wn.remove installs."""
import sqlite3 as _real

import wn
import wn._db
from wn.util import ProgressHandler


class Injected(Exception):
    """the exception the harness raises from a progress callback"""


class State:
    def __init__(self):
        self.reset()

    def reset(self):
        self.cb = 0            # progress callbacks seen
        self.cb_fire = None
        self.cb_log = []
        self.st = 0            # SQL statements seen
        self.st_fire = None    # (n, 'before'|'after')
        self.st_log = []
        self.au = 0            # authorizer callbacks seen
        self.au_fire = None
        self.vm = 0            # VM-step callbacks seen
        self.vm_fire = None
        self.vm_gran = None    # override of the library's 100000
        self.in_delete = False # VM-step faults only fire while a DELETE statement runs
        self.fired = None


S = State()


class CountingProgress(ProgressHandler):
    def __init__(self, *a, **kw):
        kw.pop('file', None)
        super().__init__(*a, file=None, **kw)

    def _tick(self, what):
        S.cb += 1
        S.cb_log.append(what)
        if S.cb_fire is not None and S.cb == S.cb_fire:
            S.fired = f'callback {S.cb} ({what})'
            raise Injected(S.fired)

    def update(self, n=1, force=False):
        self._tick('update')
        self.kwargs['count'] += n

    def set(self, **kwargs):
        self._tick('set')
        self.kwargs.update(**kwargs)

    def flash(self, message):
        self._tick('flash')

    def close(self):
        self._tick(f'close:{self.kwargs.get("message")}')


def _stmt(sql):
    S.st += 1
    S.st_log.append(sql.strip().split('\n')[0][:50])
    if S.st_fire is not None and S.st == S.st_fire[0]:
        return S.st_fire[1]
    return None


class FaultCursor(_real.Cursor):
    def _run(self, meth, sql, *a):
        mode = _stmt(sql)
        if mode == 'before':
            S.fired = f'statement {S.st} before: {S.st_log[-1]}'
            raise _real.OperationalError(f'injected failure before statement {S.st}')
        S.in_delete = sql.lstrip().upper().startswith('DELETE')
        try:
            r = meth(sql, *a)
        finally:
            S.in_delete = False
        if mode == 'after':
            S.fired = f'statement {S.st} after: {S.st_log[-1]}'
            raise _real.OperationalError(f'injected failure after statement {S.st}')
        return r

    def execute(self, sql, *a):
        return self._run(super().execute, sql, *a)

    def executemany(self, sql, *a):
        return self._run(super().executemany, sql, *a)

    def executescript(self, sql):
        return self._run(super().executescript, sql)


class FaultConnection(_real.Connection):
    def __init__(self, *a, **kw):
        super().__init__(*a, **kw)
        super().set_authorizer(self._authorize)

    def _authorize(self, *args):
        S.au += 1
        if S.au_fire is not None and S.au == S.au_fire:
            S.fired = f'authorizer {S.au} {args[:3]}'
            return _real.SQLITE_DENY
        return _real.SQLITE_OK

    def cursor(self, factory=None):
        return super().cursor(factory or FaultCursor)

    def execute(self, sql, *a):
        return self.cursor().execute(sql, *a)

    def executemany(self, sql, *a):
        return self.cursor().executemany(sql, *a)

    def executescript(self, sql):
        return self.cursor().executescript(sql)

    def set_progress_handler(self, handler, n):
        if handler is None:
            return super().set_progress_handler(None, 0)
        gran = S.vm_gran or n

        def wrapped():
            # the library's granularity (100000 VM instructions, counted per statement) can
            # only be reached inside the DELETE statements; lowering it must not make the
            # handful of instructions of COMMIT interruptible, which the real code never is
            if not S.in_delete:
                return 0
            S.vm += 1
            if S.vm_fire is not None and S.vm == S.vm_fire:
                S.fired = f'vm-step callback {S.vm}'
                raise Injected(S.fired)
            return handler()
        return super().set_progress_handler(wrapped, gran)


class _Proxy:
    def __getattr__(self, name):
        return getattr(_real, name)

    def connect(self, *a, **kw):
        kw['factory'] = FaultConnection
        return _real.connect(*a, **kw)


def install():
    if not isinstance(wn._db.sqlite3, _Proxy):
        wn._db.sqlite3 = _Proxy()


def uninstall():
    wn._db.sqlite3 = _real
