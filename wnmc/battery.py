"""Battery for C16: one callable per public entry point family, each returning a
canonical transcript in which lists keep their order, mappings are written as ordered
lists of pairs, and sets are sorted. Imported after the (optional) E4 hook."""
import json
import os
import pathlib
import shutil
import tempfile


def canon(x):
    from_wn = type(x).__module__.startswith('wn')
    if isinstance(x, dict):
        return ['<dict>'] + [[canon(k), canon(v)] for k, v in x.items()]
    if isinstance(x, (set, frozenset)):
        return ['<set>'] + sorted((canon(y) for y in set.__iter__(x) if isinstance(x, set)) if isinstance(x, set)
                                  else (canon(y) for y in frozenset.__iter__(x)), key=repr)
    if isinstance(x, (list, tuple)):
        return [canon(y) for y in x]
    if isinstance(x, float):
        return repr(x)
    if isinstance(x, (str, int, bool, type(None))):
        return x
    if from_wn or hasattr(x, 'id'):
        name = type(x).__name__
        if name == 'Relation':
            from wnmc.observe import rel_lexicon
            return [name, x.name, x.source_id, x.target_id, rel_lexicon(x), canon(x.metadata())]
        if name == 'Lexicon':
            return [name, x.specifier()]
        if name == 'Synset':
            from wnmc.observe import ili_of, lexspec
            return [name, getattr(x, 'id', None), ili_of(x), lexspec(x, _SMAP[0])]
        if name in ('Word', 'Sense'):
            # two versions of one lexicon share every id: the owning lexicon is part of what is returned
            from wnmc.observe import lexspec
            return [name, getattr(x, 'id', None), lexspec(x, _SMAP[0])]
        if name == 'ILI':
            return [name, getattr(x, 'id', None), getattr(x, 'status', None), x.definition()]
        return [name, getattr(x, 'id', None), None]
    return repr(x)


_SMAP = [{}]


def text(x):
    from wnmc.observe import spec_map
    _SMAP[0] = spec_map()        # of the database that is current when the result is written down
    return json.dumps(canon(x), ensure_ascii=False)


# ---------------------------------------------------------------------------
# databases

def _mk():
    from wnmc import mk
    return mk


def build_databases(root):
    """-> {name: data directory}"""
    import wn
    from wnmc import mk, docs, xmlw, universe
    out = {}
    # DB 'tax': double diamond with two lowest common hypernyms at different distances, several
    # equally short paths, many non-reciprocated relations onto one target, 1.0 frames shared
    P = 't-'
    edges = [(0, 2), (0, 3), (1, 2), (1, 4), (4, 3), (2, 5), (3, 5), (2, 6), (3, 6), (5, 7), (6, 7),
             (8, 7), (9, 8), (9, 6)]
    rels = {i: [] for i in range(10)}
    for a, b in edges:
        rels[a].append(mk.rel(f'{P}ss{b}', 'hypernym'))
    for a in (0, 1, 4, 8, 9):
        rels[a].append(mk.rel(f'{P}ss7', 'mero_part'))       # non-reciprocated, same target
        rels[a].append(mk.rel(f'{P}ss7', 'similar'))
    syns = [mk.synset(f'{P}ss{i}', 'n', f'i{i}' if i % 3 else '', relations=rels[i],
                      definitions=[f'def {i}'], examples=[f'ex {i}']) for i in range(10)]
    ents = []
    for i in range(10):
        senses = [mk.sense(f'{P}s{i}', f'{P}ss{i}', relations=[mk.rel(f'{P}s{(i + 1) % 10}', 'derivation'),
                                                              mk.rel(f'{P}s{(i + 3) % 10}', 'antonym')]),
                  mk.sense(f'{P}s{i}b', f'{P}ss{(i + 5) % 10}')]
        e = mk.entry(f'{P}e{i}', f'word{i % 4}', 'n', forms=[f'words{i % 4}'], senses=senses)
        e['frames'] = [{'subcategorizationFrame': 'F one', 'senses': [f'{P}s{i}', f'{P}s{i}b']},
                       {'subcategorizationFrame': 'F two', 'senses': [f'{P}s{i}b']},
                       {'subcategorizationFrame': f'F three {i % 2}'}]
        ents.append(e)
    # three nouns that one inflected form ('axes') lemmatizes to, for multi-candidate searches
    for lemma in ('ax', 'axe', 'axis'):
        ents.append(mk.entry(f'{P}e-{lemma}', lemma, 'n', senses=[mk.sense(f'{P}s-{lemma}', f'{P}ss-{lemma}')]))
        syns.append(mk.synset(f'{P}ss-{lemma}', 'n', '', relations=[mk.rel(f'{P}ss7', 'hypernym')]))
    tax = mk.lexicon('t', '1', entries=ents, synsets=syns)
    d = os.path.join(root, 'tax')
    os.makedirs(d)
    wn.config.data_directory = d
    from wnmc import env
    env.close_pool()
    env.add_resource(mk.resource([tax], '1.0'))
    out['tax'] = d
    # DB 'uni': the related-lexicon universe (extensions, versions, shared ILIs) + ILI file
    d = os.path.join(root, 'uni')
    os.makedirs(d)
    env.close_pool()
    wn.config.data_directory = d
    R = universe.resources(annot=True)
    for k in ('A1', 'A2', 'X1', 'Y1', 'B1', 'C1'):
        env.add_resource(R[k])
    # a lexicon with several installed dependencies (the order of its expand lexicons must be stable)
    env.add_resource(mk.resource([mk.lexicon('d', '1', 'es', requires=[{'id': 'c', 'version': '1'}, {'id': 'a', 'version': '1'},
                                                                      {'id': 'b', 'version': '1'}, {'id': 'a', 'version': '2'}],
                                             entries=[mk.entry('d-e1', 'alfa', 'n', senses=[mk.sense('d-s1', 'd-ss1')])],
                                             synsets=[mk.synset('d-ss1', 'n', 'i1'), mk.synset('d-ss2', 'n', 'i2')])], '1.3'))
    env.add(env.write_file('cili.tsv', universe.ili_tsv()))
    out['uni'] = d
    # DB 'max': the maximal 1.3 and 1.0 documents
    d = os.path.join(root, 'max')
    os.makedirs(d)
    env.close_pool()
    wn.config.data_directory = d
    env.add_resource({'lmf_version': '1.3', 'lexicons': [docs.maximal('1.3'), docs.second_lexicon('1.3')]})
    env.add_resource({'lmf_version': '1.0', 'lexicons': [docs.maximal('1.0', lid='mo')]})
    out['max'] = d
    # DB 'hx': a base and its extension, the extension being the newest lexicon (histories that re-use its rowid)
    d = os.path.join(root, 'hx')
    os.makedirs(d)
    env.close_pool()
    wn.config.data_directory = d
    env.add_resource(R['A1'])
    env.add_resource(R['X1'])
    out['hx'] = d
    # DB 'inf': lexicon p:1 has three bare synsets; its hypernym structure comes from the expand lexicon q:1
    # through ILIs, most of it as *INFERRED* synsets (all of which, like *ROOT*, have the same internal id):
    # two lowest common hypernyms at different distances, both inferred
    d = os.path.join(root, 'inf')
    os.makedirs(d)
    env.close_pool()
    wn.config.data_directory = d
    qedges = [(0, 2), (0, 3), (1, 2), (1, 6), (6, 3), (2, 4), (3, 4), (2, 7), (3, 7), (4, 5), (7, 5)]
    qrels = {i: [mk.rel(f'q-ss{b}', 'hypernym') for a, b in qedges if a == i] for i in range(8)}
    q = mk.lexicon('q', '1', 'en', synsets=[mk.synset(f'q-ss{i}', 'n', f'i{i + 20}', relations=qrels[i]) for i in range(8)],
                   entries=[mk.entry(f'q-e{i}', f'q{i}', 'n', senses=[mk.sense(f'q-s{i}', f'q-ss{i}')]) for i in range(8)])
    pl = mk.lexicon('p', '1', 'es', synsets=[mk.synset(f'p-ss{i}', 'n', f'i{i + 20}') for i in (0, 1, 5)],
                    entries=[mk.entry(f'p-e{i}', f'p{i}', 'n', senses=[mk.sense(f'p-s{i}', f'p-ss{i}')]) for i in (0, 1, 5)])
    # a second queried lexicon: inferred synsets reached from p:1 and from p2:1 are the same nodes
    p2 = mk.lexicon('p2', '1', 'es', synsets=[mk.synset('p2-ss1', 'n', 'i21'), mk.synset('p2-ss6', 'n', 'i26')],
                    entries=[mk.entry(f'p2-e{i}', f'r{i}', 'n', senses=[mk.sense(f'p2-s{i}', f'p2-ss{i}')]) for i in (1, 6)])
    env.add_resource(mk.resource([q, pl, p2], '1.3'))
    out['inf'] = d
    env.close_pool()
    return out


def use(dirs, name):
    import wn
    from wnmc import env
    if str(wn.config.data_directory) != dirs[name]:
        env.close_pool()
        wn.config.data_directory = dirs[name]


def items(dirs):
    """-> list of (name, callable returning a transcript string)"""
    import warnings
    import wn
    import wn.ic
    import wn.taxonomy as tx
    import wn.similarity as sim
    import wn.validate
    from wn import lmf
    from wn.morphy import Morphy
    from wnmc import docs, universe, mk
    out = []

    def add(name, db, fn):
        def run():
            use(dirs, db)
            with warnings.catch_warnings():
                warnings.simplefilter('ignore')
                return text(fn())
        out.append((name, run))

    def W(**kw):
        return wn.Wordnet(**kw)
    # --- taxonomy / similarity on 'tax'
    def ss(w, i):
        return w.synset(f't-ss{i}')
    pairs = [(0, 1), (1, 0), (0, 9), (9, 1), (4, 8), (0, 0), (2, 3), (0, 5), (5, 0), (0, 7), (9, 0), (1, 7)]
    for a, b in pairs:
        for simr in (False, True):
            add(f'tax:lch({a},{b},{simr})', 'tax', lambda a=a, b=b, s=simr: (lambda w: tx.lowest_common_hypernyms(ss(w, a), ss(w, b), simulate_root=s))(W(lexicon='t:1')))
            add(f'tax:common({a},{b},{simr})', 'tax', lambda a=a, b=b, s=simr: (lambda w: tx.common_hypernyms(ss(w, a), ss(w, b), simulate_root=s))(W(lexicon='t:1')))
            add(f'tax:shortest_path({a},{b},{simr})', 'tax', lambda a=a, b=b, s=simr: (lambda w: tx.shortest_path(ss(w, a), ss(w, b), simulate_root=s))(W(lexicon='t:1')))
            add(f'sim:wup({a},{b},{simr})', 'tax', lambda a=a, b=b, s=simr: (lambda w: sim.wup(ss(w, a), ss(w, b), simulate_root=s))(W(lexicon='t:1')))
            add(f'sim:path+lch({a},{b},{simr})', 'tax', lambda a=a, b=b, s=simr: (lambda w: [sim.path(ss(w, a), ss(w, b), simulate_root=s), sim.lch(ss(w, a), ss(w, b), 5, simulate_root=s)])(W(lexicon='t:1')))
    # --- the same calls where the shared hypernyms are inferred through an expand lexicon
    for a in (0, 1, 5):
        for b in (0, 1, 5):
            for simr in (False, True):
                def inf_item(a=a, b=b, s=simr):
                    w = W(lexicon='p:1', expand='q:1')
                    x, y = w.synset(f'p-ss{a}'), w.synset(f'p-ss{b}')
                    r = [x.hypernym_paths(simulate_root=s)]
                    for f in (tx.common_hypernyms, tx.lowest_common_hypernyms, tx.shortest_path, sim.wup, sim.path):
                        try:
                            r.append(f(x, y, simulate_root=s))
                        except wn.Error as e:
                            r.append(['wn.Error', str(e)])
                    return r
                add(f'inf:taxonomy+similarity({a},{b},{simr})', 'inf', inf_item)
    for simr in (False, True):
        def inf2_item(s=simr):
            w = W(lexicon='p:1 p2:1', expand='q:1')
            r = []
            for x in (w.synset('p-ss0'), w.synset('p2-ss1'), w.synset('p2-ss6')):
                r.append(x.hypernym_paths(simulate_root=s))
                for y in (w.synset('p-ss0'), w.synset('p2-ss1'), w.synset('p-ss5')):
                    for f in (tx.common_hypernyms, tx.lowest_common_hypernyms, tx.shortest_path, sim.wup, sim.path):
                        try:
                            r.append(f(x, y, simulate_root=s))
                        except wn.Error as e:
                            r.append(['wn.Error', str(e)])
            return r
        add(f'inf:two-queried-lexicons({simr})', 'inf', inf2_item)
    for i in (0, 1, 9):
        add(f'tax:hypernym_paths({i})', 'tax', lambda i=i: (lambda w: [ss(w, i).hypernym_paths(), ss(w, i).min_depth(), ss(w, i).max_depth()])(W(lexicon='t:1')))
    add('tax:roots/leaves/depth', 'tax', lambda: (lambda w: [tx.roots(w), tx.leaves(w), tx.taxonomy_depth(w, 'n'), tx.roots(w, pos='n')])(W(lexicon='t:1')))
    # --- information content
    corpus = ['word0', 'word1', 'word1', 'word3', 'zzz', 'words2']
    add('ic:compute', 'tax', lambda: wn.ic.compute(corpus, W(lexicon='t:1')))
    add('ic:compute(nodistribute)', 'tax', lambda: wn.ic.compute(corpus, W(lexicon='t:1'), distribute_weight=False, smoothing=0.5))
    # the same lexicon under different expand settings (results must not depend on what ran before)
    for ex in ('', 'a:1', 'a:1 c:1'):
        add(f'ic:compute:uni:b:1:expand={ex!r}', 'uni', lambda ex=ex: wn.ic.compute(['alfa', 'alpha', 'alpha'], W(lexicon='b:1', expand=ex)))
        add(f'tax:paths:uni:b:1:expand={ex!r}', 'uni', lambda ex=ex: (lambda w: [[x, x.hypernyms(), x.hypernym_paths(), x.max_depth()] for x in w.synsets()])(W(lexicon='b:1', expand=ex)))
    for a, b in pairs[:4]:
        add(f'sim:res/jcn/lin({a},{b})', 'tax', lambda a=a, b=b: (lambda w, f: [sim.res(ss(w, a), ss(w, b), f), sim.jcn(ss(w, a), ss(w, b), f), sim.lin(ss(w, a), ss(w, b), f)])(W(lexicon='t:1'), wn.ic.compute(corpus, W(lexicon='t:1'))))
    # --- queries on every database
    for db, sels in (('tax', [dict(lexicon='t:1')]),
                     ('uni', [dict(), dict(lexicon='a:1 x:1'), dict(lexicon='a:1 a:2'), dict(lang='en'), dict(lexicon='b:1'),
                              dict(lexicon='*'), dict(lexicon='d:1'), dict(lang='es')]),
                     ('max', [dict(lexicon='mx:1.0+a'), dict(lexicon='mo:1.0+a sc:2'), dict()])):
        for k, kw in enumerate(sels):
            tag = f'{db}:{kw or "default"}'
            add(f'q:lists:{tag}', db, lambda kw=kw: (lambda w: [w.lexicons(), w.expanded_lexicons(), w.words(), w.senses(), w.synsets(), w.ilis()])(W(**kw)))
            add(f'q:forms:{tag}', db, lambda kw=kw: (lambda w: [[x, x.lemma(), x.forms(), [[t.tag, t.category] for f in x.forms() for t in f.tags()]] for x in w.words()])(W(**kw)))
            add(f'q:search:{tag}', db, lambda kw=kw: (lambda w: [[q, p, w.words(q, p), w.senses(q, p), w.synsets(q, p)] for q in ('alpha', 'Lemma One', 'word1', 'words2', 'beta') for p in (None, 'n', 'v')])(W(**kw)))
            add(f'q:nav:{tag}', db, lambda kw=kw: (lambda w: [[s, s.word(), s.synset(), s.examples(), s.counts(), s.frames(), s.relations(), s.get_related(), s.relation_map(), s.get_related_synsets()] for s in w.senses()])(W(expand='', **kw)))
            add(f'q:synsets:{tag}', db, lambda kw=kw: (lambda w: [[x, x.senses(), x.words(), x.lemmas(), x.definition(), x.examples(), x.relations(), x.get_related(), x.relation_map(), x.hypernyms(), list(x.closure('hypernym')), x.ili and [x.ili.id, x.ili.status]] for x in w.synsets()])(W(**kw)))
            add(f'q:words:{tag}', db, lambda kw=kw: (lambda w: [[x, x.senses(), x.synsets(), x.derived_words(), x.metadata()] for x in w.words()])(W(expand='', **kw)))
    add('q:more:uni', 'uni', lambda: (lambda w: [
        [[x, x.hyponyms(), x.holonyms(), x.meronyms(), list(x.relation_paths('hypernym', 'instance_hypernym')),
          [f.pronunciations() and [[p.value, p.variety] for p in f.pronunciations()] for wd in x.words() for f in wd.forms()]]
         for x in w.synsets()],
        [[s, list(s.relation_paths()), s.translate(lang='es'), s.translate(lexicon='c:1')] for s in w.senses()],
        [[x, x.translate(lang='es')] for x in w.words()],
        [w.synsets(ili=i) for i in ('i1', 'i2', 'i4', 'i9', 'zz')],
        [wn.word('a-e1', lexicon='a:1'), wn.sense('a-s1', lexicon='a:2'), wn.synset('a-ss1', lexicon='a:1'), wn.ili('i1'), w.ili('i2')],
        [[lx, lx.extensions(depth=1), lx.extensions(depth=2)] for lx in wn.lexicons()],
    ])(W(lexicon='a:1 x:1 y:1 a:2')))
    add('q:translate:uni', 'uni', lambda: (lambda w: [[x, x.translate(lang='es'), x.translate(lexicon='c:1'), x.translate(lexicon='a:*')] for x in w.synsets()])(W(lexicon='a:1')))
    add('q:module-level:uni', 'uni', lambda: [wn.lexicons(), wn.lexicons(lang='en'), wn.words('alpha'), wn.synsets('alpha', pos='n'), wn.senses('alfa'), wn.ilis(), wn.ilis(status='active'), wn.projects()[:2]])
    add('q:lexicon-info:uni', 'uni', lambda: [[lx, lx.requires(), lx.extends(), lx.extensions(), lx.describe(), lx.metadata()] for lx in wn.lexicons()])
    add('q:describe:uni', 'uni', lambda: W(lexicon='b:1').describe())
    add('q:describe:uni:d', 'uni', lambda: [W(lexicon='d:1').describe(), W(lexicon='d:1').expanded_lexicons(), W(lang='es').expanded_lexicons()])
    # --- morphy
    add('morphy:uninit', 'tax', lambda: [Morphy()(q, p) for q in ('words1', 'axes', 'boxing', 'taller') for p in (None, 'n', 'v')])
    add('morphy:init', 'tax', lambda: (lambda w: (lambda m: [m(q, p) for q in ('words1', 'word2s', 'word1', 'words0') for p in (None, 'n', 'v')])(Morphy(w)))(W(lexicon='t:1')))
    add('morphy:search:multi-candidate', 'tax', lambda: (lambda w: [w.words('axes'), w.senses('axes'), w.synsets('axes'), w.words('axes', 'n')])(W(lexicon='t:1', lemmatizer=Morphy(W(lexicon='t:1')))))
    add('morphy:search:multi-candidate:uninit', 'tax', lambda: (lambda w: [w.words('axes'), w.synsets('axes')])(W(lexicon='t:1', lemmatizer=Morphy())))
    add('morphy:search', 'tax', lambda: (lambda w: [w.words('words1'), w.synsets('word2s'), w.senses('word0')])(W(lexicon='t:1', lemmatizer=Morphy())))
    # --- validate
    from wnmc.props import c18
    def val(names, select):
        return wn.validate.validate(c18.mutate(names), select=select, progress_handler=None)
    add('validate:base', 'tax', lambda: val([], ('E', 'W')))
    add('validate:missing-reverses', 'tax', lambda: val(['two-missing-reverses-onto-one-target', 'missing-reverse:sense'], ('W404', 'W403')))
    add('validate:many', 'tax', lambda: val(['dup-entry-id:e1', 'redundant-relation:synset', 'redundant-entry', 'repeated-ili', 'self-loop:synset', 'invalid-type:synset'], ('E', 'W')))
    add('validate:maximal', 'tax', lambda: wn.validate.validate(docs.maximal('1.3'), progress_handler=None))
    # --- dump / export bytes
    def dump_bytes(v):
        d = tempfile.mkdtemp(prefix='wnmc16')
        try:
            res = {'lmf_version': v, 'lexicons': [docs.maximal(v), docs.second_lexicon(v)]}
            p = os.path.join(d, 'd.xml')
            lmf.dump(res, p)
            return open(p, encoding='utf-8').read()
        finally:
            shutil.rmtree(d, ignore_errors=True)
    for v in ('1.0', '1.3'):
        add(f'dump:{v}', 'tax', lambda v=v: dump_bytes(v))

    def export_bytes(db, spec, v):
        d = tempfile.mkdtemp(prefix='wnmc16')
        try:
            p = os.path.join(d, 'e.xml')
            wn.export(wn.lexicons(lexicon=spec), p, version=v)
            return open(p, encoding='utf-8').read()
        finally:
            shutil.rmtree(d, ignore_errors=True)
    for db, spec in (('tax', 't:1'), ('max', 'mx:1.0+a'), ('max', 'mo:1.0+a'), ('uni', 'a:1'), ('uni', 'c:1 b:1')):
        for v in ('1.0', '1.3'):
            add(f'export:{db}:{spec}:{v}', db, lambda db=db, spec=spec, v=v: export_bytes(db, spec, v))
    # --- histories in one process on one database: reads, then the newest lexicon is removed and another one
    #     added (it takes over the freed rowid), then the same reads again. The ':cold' twin does not read first;
    #     both must report the same - "read-only calls do not change the result of later calls"
    def reads():
        w = W()
        out_ = [wn.lexicons(), [[lx, lx.extends(), lx.extensions(), lx.requires()] for lx in wn.lexicons()]]
        for x in w.words() + w.senses() + w.synsets():
            out_.append([x, x.lexicon()])
        for s_ in w.senses():
            out_.append([s_, s_.word(), s_.synset(), [(r, r.lexicon()) for r in s_.relation_map()]])
        for x in w.synsets():
            out_.append([x, x.senses(), x.words(), x.hypernyms(), x.relations(), list(x.closure('hypernym')),
                         [(r, r.lexicon()) for r in x.relation_map()], x.ili and [x.ili.id, x.ili.status]])
        w2 = W(expand='')
        for x in w2.synsets():
            out_.append([x, x.get_related(), x.lemmas()])
        return out_

    newlex = mk.lexicon('n', '7', 'en', entries=[mk.entry('n-e1', 'alpha', 'n', senses=[mk.sense('n-s1', 'n-ss1'), mk.sense('n-s2', 'n-ss2')])],
                        synsets=[mk.synset('n-ss1', 'n', 'i1', relations=[mk.rel('n-ss2', 'hypernym')]),
                                 mk.synset('n-ss2', 'n', 'i2', relations=[mk.rel('n-ss1', 'hyponym')])])

    def history(db, gone, warm, before=(), arrive=None):
        """before: lexicons removed BEFORE the (warm) reads; gone: removed after them; arrive: resource added at the
        end (default: the unrelated lexicon n:7), alternately through wn.add_lexical_resource and wn.add of a file"""
        def run():
            from wnmc import env, xmlw
            src = dirs[db]
            tmp = tempfile.mkdtemp(prefix='wnmc16h', dir=os.path.dirname(src))
            try:
                shutil.copytree(src, os.path.join(tmp, 'd'))
                env.close_pool()
                wn.config.data_directory = os.path.join(tmp, 'd')
                for g_ in before:
                    wn.remove(g_, progress_handler=None)
                if warm:
                    reads()
                for g_ in gone:
                    wn.remove(g_, progress_handler=None)
                if arrive is None:
                    env.add_resource(mk.resource([newlex], '1.3'))
                elif arrive[0] == 'memory':
                    env.add_resource(arrive[1])
                else:
                    env.add(env.write_file('arrive.xml', xmlw.serialize(arrive[1]), pathlib.Path(tmp)))
                return text(reads())          # written down while the temporary database is still current
            finally:
                env.close_pool()
                wn.config.data_directory = src
                shutil.rmtree(tmp, ignore_errors=True)
        return run
    for db, gone in (('uni', ['d:1']), ('uni', ['d:1', 'c:1', 'b:1', 'y:1']), ('hx', ['x:1'])):
        for warm in (False, True):
            add(f'hist:{db}:remove {" ".join(gone)}:add n:7:{"warm" if warm else "cold"}', db, history(db, gone, warm))
    # ... and reads followed by the ARRIVAL of an extension of a lexicon that was read (nothing is removed after the
    # reads): the base must show the extension's senses, relations, examples afterwards, through either entry point
    RX = universe.resources(annot=True)['X1']
    for route in ('memory', 'file'):
        for warm in (False, True):
            add(f'hist:hx:reads then add x:1 ({route}):{"warm" if warm else "cold"}', 'hx',
                history('hx', [], warm, before=['x:1'], arrive=(route, RX)))
    add('scan+load', 'tax', lambda: (lambda p: [lmf.scan_lexicons(p), lmf.load(p, progress_handler=None)['lexicons'][0]['entries'][0]])(_write_max()))
    return out


def _write_max():
    from wnmc import docs, xmlw, env
    return str(env.write_file('m.xml', xmlw.serialize({'lmf_version': '1.3', 'lexicons': [docs.maximal('1.3')]})))
