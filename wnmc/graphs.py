"""Graph spaces and plain-Python reference algorithms for hypernym graphs."""
from itertools import product


def pairs(n, loops):
    return [(i, j) for i in range(n) for j in range(n) if loops or i != j]


def edges_of(mask, prs):
    return [prs[k] for k in range(len(prs)) if mask >> k & 1]


def all_digraph_masks(n, loops):
    return range(1 << len(pairs(n, loops)))


def is_dag(n, edges):
    adj = {i: set() for i in range(n)}
    for i, j in edges:
        if i == j:
            return False
        adj[i].add(j)
    state = [0] * n

    def visit(u):
        state[u] = 1
        for v in adj[u]:
            if state[v] == 1 or (state[v] == 0 and not visit(v)):
                return False
        state[u] = 2
        return True
    return all(state[u] == 2 or visit(u) for u in range(n))


def dag_masks(n):
    prs = pairs(n, False)
    return [m for m in range(1 << len(prs)) if is_dag(n, edges_of(m, prs))]


class Ref:
    """Reference hypernym-graph semantics. adj[i] = ordered list of distinct
    hypernyms of i (self-loops kept in `loops`, excluded from adj)."""
    ROOT = 'ROOT'

    def __init__(self, n, edges):
        self.n = n
        self.adj = {i: [] for i in range(n)}
        self.loops = set()
        self.has_hyper = set()
        for i, j in edges:
            self.has_hyper.add(i)
            if i == j:
                self.loops.add(i)
            elif j not in self.adj[i]:
                self.adj[i].append(j)
        self.dag = not self.loops and is_dag(n, [(i, j) for i in self.adj for j in self.adj[i]])
        self._paths = {}
        self._reach = {}

    def paths(self, x):
        """all maximal simple hypernym chains from x (x excluded)"""
        if x in self._paths:
            return self._paths[x]
        out = []
        adj = self.adj

        def rec(path, visited):
            last = path[-1] if path else x
            nxt = [y for y in adj[last] if y not in visited]
            if not nxt:
                if path:
                    out.append(tuple(path))
                return
            for y in nxt:
                rec(path + [y], visited | {y})
        rec([], {x})
        self._paths[x] = out
        return out

    def paths_root(self, x):
        ps = self.paths(x)
        return [p + (self.ROOT,) for p in ps] or [(self.ROOT,)]

    def min_depth(self, x, sim=False):
        ps = self.paths_root(x) if sim else self.paths(x)
        return min((len(p) for p in ps), default=0)

    def max_depth(self, x, sim=False):
        ps = self.paths_root(x) if sim else self.paths(x)
        return max((len(p) for p in ps), default=0)

    def dist(self, x):
        """shortest directed distances from x to every ancestor-or-self"""
        if x in self._reach:
            return self._reach[x]
        d = {x: 0}
        frontier = [x]
        while frontier:
            nf = []
            for u in frontier:
                for v in self.adj[u]:
                    if v not in d:
                        d[v] = d[u] + 1
                        nf.append(v)
            frontier = nf
        self._reach[x] = d
        return d

    def ancestors(self, x):
        return set(self.dist(x))

    def common(self, a, b, sim=False):
        c = self.ancestors(a) & self.ancestors(b)
        if sim:
            c = c | {self.ROOT}
        return c

    def roots(self):
        return {i for i in range(self.n) if i not in self.has_hyper}

    def root_dist(self, x):
        """DAG only: 1 + distance to the nearest root"""
        d = self.dist(x)
        rs = self.roots()
        return 1 + min(d[r] for r in d if r in rs)

    def sp_len(self, a, b, sim=False):
        """min over common c of d(a,c)+d(b,c); None if nothing shared.
        With sim the fake root term is only defined on DAGs."""
        if a == b:
            return 0
        da, db = self.dist(a), self.dist(b)
        best = None
        for c in set(da) & set(db):
            v = da[c] + db[c]
            if best is None or v < best:
                best = v
        if sim and self.dag:
            v = self.root_dist(a) + self.root_dist(b)
            if best is None or v < best:
                best = v
        return best

    def lch(self, a, b, sim=False):
        """DAG only"""
        if a == b:
            return {a}
        c = self.common(a, b, False)
        if not c:
            return {self.ROOT} if sim else set()
        depth = {x: self.max_depth(x) for x in c}
        m = max(depth.values())
        return {x for x in c if depth[x] == m}
