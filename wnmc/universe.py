"""The small universe of related lexicons used by the history-exploring properties
(C04, C05, C10, C19): a base in two versions with identical ids, an extension, an
extension of the extension, a dependent lexicon, an unrelated lexicon sharing forms and
ILIs, a two-lexicon bundle and an ILI file."""
from . import mk

V = '1.3'


def A1():
    P = 'a-'
    return mk.lexicon('a', '1', 'en', 'Base A v1', url='http://a', citation='cit a', logo='logo a',
                      meta={'publisher': 'pub a'},
                      entries=[
                          mk.entry(P + 'e1', 'alpha', 'n', meta={'note': 'e1'},
                                   forms=[{'writtenForm': 'alphas', 'id': P + 'f1',
                                           'tags': [{'text': 'pl', 'category': 'num'}]}],
                                   senses=[mk.sense(P + 's1', P + 'ss1', meta={'status': 'ok'},
                                                    relations=[mk.rel(P + 's2', 'antonym', {'type': 't1'}),
                                                               mk.rel(P + 'ss2', 'domain_topic')],
                                                    examples=['alpha example'], counts=[3]),
                                           mk.sense(P + 's2', P + 'ss2')]),
                          mk.entry(P + 'e2', 'beta', 'v',
                                   senses=[mk.sense(P + 's3', P + 'ss3', subcat=[P + 'fr1'])]),
                      ],
                      synsets=[
                          mk.synset(P + 'ss1', 'n', 'i1', lexfile='noun.a', meta={'source': 'src'},
                                    definitions=['alpha one'], examples=['ss1 example'],
                                    relations=[mk.rel(P + 'ss2', 'hypernym'), mk.rel(P + 'ss3', 'also')],
                                    members=[P + 's1']),
                          mk.synset(P + 'ss2', 'n', 'i2', definitions=['alpha two'],
                                    relations=[mk.rel(P + 'ss1', 'hyponym')]),
                          mk.synset(P + 'ss3', 'v', ''),
                      ],
                      frames=[{'id': P + 'fr1', 'subcategorizationFrame': 'Somebody ----s'}])


def A2():
    P = 'a-'
    return mk.lexicon('a', '2', 'en', 'Base A v2',
                      entries=[
                          mk.entry(P + 'e1', 'alpha', 'n',
                                   senses=[mk.sense(P + 's1', P + 'ss2', examples=['v2 example']),
                                           mk.sense(P + 's4', P + 'ss1')]),
                          mk.entry(P + 'e2', 'beta2', 'v', senses=[mk.sense(P + 's3', P + 'ss3')]),
                      ],
                      synsets=[
                          mk.synset(P + 'ss1', 'n', 'i1', definitions=['v2 one'],
                                    relations=[mk.rel(P + 'ss3', 'hypernym')]),
                          mk.synset(P + 'ss2', 'n', 'i3', definitions=['v2 two']),
                          mk.synset(P + 'ss3', 'n', 'i2'),
                      ])


def X1(annot=False):
    B, P = 'a-', 'x-'
    xe1 = {'id': B + 'e1', 'external': True,
           'senses': [{'id': B + 's1', 'external': True,
                       'relations': [mk.rel(P + 's2', 'also', {'note': 'x'}),
                                     mk.rel(B + 'ss3', 'exemplifies'),      # sense -> base synset
                                     mk.rel(B + 's2', 'antonym', {'type': 't1'})],   # same as a relation of the base
                       'examples': [{'text': 'x example on a-s1', 'meta': None}],
                       'counts': [{'value': 9, 'meta': None}]},
                      # links the base entry to a base synset the entry has no sense in otherwise
                      mk.sense(P + 's1', B + 'ss3')],
           # (the new form differs from its normalised form 'alphax': look-ups by the normalised form must
           # respect the form's owner as well)
           'forms': [{'writtenForm': 'Álphax', 'id': P + 'f9'}]}
    xe1['senses'].insert(1, {'id': B + 's2', 'external': True})       # stub: relation target
    if annot:
        xe1['lemma'] = {'external': True, 'tags': [{'text': 'xtagtext-lemma', 'category': 'xc'}],
                        'pronunciations': [{'text': 'xprontext-lemma'}]}
        xe1['forms'] = [{'id': B + 'f1', 'external': True,
                         'tags': [{'text': 'xtagtext-form', 'category': 'xc'}]}] + xe1['forms']
    return mk.lexicon('x', '1', 'en', 'Extension X', extends={'id': 'a', 'version': '1'},
                      entries=[xe1,
                               mk.entry(P + 'e1', 'gamma', 'n',
                                        senses=[mk.sense(P + 's2', P + 'ss1')])],
                      synsets=[{'id': B + 'ss1', 'external': True,
                                'definitions': [{'text': 'x definition of a-ss1', 'meta': None}],
                                'relations': [mk.rel(P + 'ss1', 'hyponym', {'type': 'tx'}),
                                              mk.rel(B + 'ss3', 'also')],          # same as a relation of the base
                                'examples': [{'text': 'x example on a-ss1', 'meta': None}]},
                               {'id': B + 'ss2', 'external': True},
                               {'id': B + 'ss3', 'external': True},
                               mk.synset(P + 'ss1', 'n', 'i4', definitions=['gamma'],
                                         relations=[mk.rel(B + 'ss1', 'hypernym')])])


def Y1():
    B, P = 'x-', 'y-'
    return mk.lexicon('y', '1', 'en', 'Extension Y of X', extends={'id': 'x', 'version': '1'},
                      entries=[{'id': B + 'e1', 'external': True,
                                'senses': [mk.sense(P + 's1', B + 'ss1')]},
                               mk.entry(P + 'e1', 'delta', 'n', senses=[mk.sense(P + 's2', P + 'ss1')])],
                      synsets=[{'id': B + 'ss1', 'external': True,
                                'relations': [mk.rel(P + 'ss1', 'hyponym')]},
                               mk.synset(P + 'ss1', 'n', 'i5', relations=[mk.rel(B + 'ss1', 'hypernym')])])


def B1():
    P = 'b-'
    # (depends on a plain lexicon and on a lexicon *extension*)
    return mk.lexicon('b', '1', 'es', 'Dependent B', requires=[{'id': 'a', 'version': '1'}, {'id': 'x', 'version': '1'}],
                      entries=[mk.entry(P + 'e1', 'alfa', 'n', senses=[mk.sense(P + 's1', P + 'ss1')]),
                               mk.entry(P + 'e2', 'alpha', 'n', senses=[mk.sense(P + 's2', P + 'ss2')])],
                      synsets=[mk.synset(P + 'ss1', 'n', 'i1', definitions=['alfa uno']),
                               mk.synset(P + 'ss2', 'n', 'i2')])


def C1():
    P = 'c-'
    return mk.lexicon('c', '1', 'en', 'Unrelated C',
                      entries=[mk.entry(P + 'e1', 'alpha', 'n',
                                        senses=[mk.sense(P + 's1', P + 'ss1',
                                                         relations=[mk.rel(P + 's2', 'similar')]),
                                                mk.sense(P + 's2', P + 'ss2')])],
                      synsets=[mk.synset(P + 'ss1', 'n', 'in', lexfile='noun.c',
                                         ili_definition={'text': 'proposed c', 'meta': {'source': 'c'}},
                                         relations=[mk.rel(P + 'ss2', 'similar_c')]),
                               mk.synset(P + 'ss2', 'n', 'i1', definitions=['c alpha'])])


def XT(lexid, version, mark):
    """a small extension of a:1 for the 'twin' universe: x:1, x:2 (two versions of one extension) and z:1 (a fork
    of it) use the SAME ids for what they add - also for the form they add to the base entry a-e1 - and differ in
    the texts (written form, tag, pronunciation, definition).  Whatever one of them declares must never show up
    under, or disappear because of, another."""
    B, P = 'a-', 'x-'
    own_rel = [mk.rel(B + 'ss1', 'hypernym')]
    more_entries, more_synsets = [], []
    if lexid == 'z':
        # the fork knows a concept (ILI i7) that neither the base nor x:1 / x:2 have: seen from a synset of x:*
        # with expansion, the hypernym borrowed through ILI i4 is a placeholder, never this synset of a sibling
        own_rel.append(mk.rel(P + 'ss2', 'hypernym'))
        more_entries = [mk.entry(P + 'e2', 'zeta', 'n', senses=[mk.sense(P + 's3', P + 'ss2')])]
        more_synsets = [mk.synset(P + 'ss2', 'n', 'i7', definitions=['zeta ' + mark],
                                  relations=[mk.rel(P + 'ss1', 'hyponym')])]
    return mk.lexicon(lexid, version, 'en', f'Twin extension {lexid}:{version}', extends={'id': 'a', 'version': '1'},
                      entries=[{'id': B + 'e1', 'external': True,
                                'forms': [{'writtenForm': 'alpha' + mark, 'id': P + 'f9',
                                           'tags': [{'text': 'tag-' + mark, 'category': 'xc'}],
                                           'pronunciations': [{'text': 'pron-' + mark}]}],
                                'senses': [mk.sense(P + 's1', B + 'ss3')]},
                               mk.entry(P + 'e1', 'gamma', 'n',
                                        forms=[{'writtenForm': 'gammas', 'id': P + 'f1',
                                                'tags': [{'text': 'pl-' + mark, 'category': 'num'}]}],
                                        senses=[mk.sense(P + 's2', P + 'ss1')])] + more_entries,
                      synsets=[{'id': B + 'ss1', 'external': True,
                                'definitions': [{'text': 'definition by ' + mark, 'meta': None}]},
                               {'id': B + 'ss3', 'external': True},
                               mk.synset(P + 'ss1', 'n', 'i4', definitions=['gamma ' + mark],
                                         relations=own_rel)] + more_synsets)


def resources_twin():
    return {
        'A1': mk.resource([A1()], V), 'A2': mk.resource([A2()], V),
        'T1': mk.resource([XT('x', '1', 'xone')], V), 'T2': mk.resource([XT('x', '2', 'xtwo')], V),
        'Z1': mk.resource([XT('z', '1', 'zed')], V),
        'TZ': mk.resource([XT('x', '2', 'xtwo'), XT('z', '1', 'zed')], V),     # two siblings in one file
    }


FORMS_TWIN = ['alpha', 'alphas', 'alphaxone', 'alphaxtwo', 'alphazed', 'gamma', 'gammas', 'zeta', 'beta', 'nothing']
SPEC_TWIN = {'A1': 'a:1', 'A2': 'a:2', 'T1': 'x:1', 'T2': 'x:2', 'Z1': 'z:1'}


ILI_ROWS = [('i1', 'active', 'concept one'), ('i2', 'deprecated', ''),
            ('i4', 'provisional', 'concept four'), ('i9', 'active', 'unused')]


def ili_tsv(rows=ILI_ROWS):
    return 'ili\tstatus\tdefinition\n' + ''.join('\t'.join(r) + '\n' for r in rows)


def resources(annot=False):
    return {
        'A1': mk.resource([A1()], V), 'A2': mk.resource([A2()], V),
        'X1': mk.resource([X1(annot)], V), 'Y1': mk.resource([Y1()], V),
        'B1': mk.resource([B1()], V), 'C1': mk.resource([C1()], V),
        'BC': mk.resource([B1(), C1()], V),
        'AX': mk.resource([A1(), X1(annot)], V),      # a base and its extension in one file
        'XY': mk.resource([X1(annot), Y1()], V),      # an extension and an extension of it in one file (no base)
    }


FORMS = ['alpha', 'alphas', 'alphax', 'Álphax', 'beta', 'beta2', 'gamma', 'delta', 'alfa', 'nothing']
SPEC = {'A1': 'a:1', 'A2': 'a:2', 'X1': 'x:1', 'Y1': 'y:1', 'B1': 'b:1', 'C1': 'c:1'}


# what X1(annot=True) attaches to forms of its base: (word, written form, kind, text)
X_ANNOT = {('a:1|a-e1', 'alpha', 'tag', 'xtagtext-lemma'), ('a:1|a-e1', 'alpha', 'pron', 'xprontext-lemma'),
           ('a:1|a-e1', 'alphas', 'tag', 'xtagtext-form')}


def strip_annotations(words, dedupe=False):
    """words: the 'words' section of an API / model transcript (modified in place).  Removes - or, with
    dedupe=True, collapses repeated copies of - exactly the tags and pronunciations that the extension x:1
    declares on forms of its base, *on the forms it declares them for*; the same texts anywhere else stay."""
    for wk, w in words.items():
        for f in w['forms']:
            for col, kind in ((3, 'tag'), (4, 'pron')):
                out, seen = [], set()
                for item in f[col]:
                    known = (wk, f[0], kind, str(item[0])) in X_ANNOT
                    if known and not dedupe:
                        continue
                    if known and dedupe:
                        if repr(item) in seen:
                            continue
                        seen.add(repr(item))
                    out.append(item)
                f[col] = out
    return words
