"""Abstract WN-LMF documents (dicts in the loader's normal form): a maximal and a
minimal document per LMF version, the list of optional 'features' (paths), derivation
of deviation-bounded variants, reference fix-up, string slots and the payload alphabet."""
import copy
from itertools import combinations

VERSIONS = ['1.0', '1.1', '1.2', '1.3']
META_KEYS = ['contributor', 'coverage', 'creator', 'date', 'description', 'format',
             'identifier', 'publisher', 'relation', 'rights', 'source', 'subject',
             'title', 'type', 'status', 'note', 'confidenceScore']


class _Uniq:
    def __init__(self):
        self.i = 0

    def __call__(self, name):
        self.i += 1
        return f'{name}~{self.i}'


def _meta(u, *keys):
    m = {}
    for k in keys:
        m[k] = '0.5' if k == 'confidenceScore' else u(k)
    return m


def maximal(v, lid='mx', flags=()):
    """Maximal plain lexicon for LMF version v: every element kind and every optional
    attribute the version can express, every string slot a distinct value."""
    u = _Uniq()
    new = v != '1.0'
    P = lid + '-'

    def tag():
        return {'text': u('tagtext'), 'category': u('category')}

    def pron(full):
        p = {'text': u('prontext')}
        if full:
            p.update(variety=u('variety'), notation=u('notation'), phonemic=False, audio=u('audio'))
        return p

    e1 = {'id': P + 'e1', 'meta': _meta(u, 'contributor', 'status'),
          'lemma': {'writtenForm': 'Lemma One', 'partOfSpeech': 'n', 'script': u('script'),
                    'tags': [tag(), tag()]},
          'forms': [{'writtenForm': 'forms one', 'script': u('script'), 'tags': [tag()]},
                    {'writtenForm': 'form two'},
                    {'writtenForm': 'form three'}],
          'senses': [
              {'id': P + 's1', 'synset': P + 'ss1', 'meta': _meta(u, 'coverage', 'note'),
               'relations': [
                   {'target': P + 's2', 'relType': 'antonym', 'meta': _meta(u, 'creator', 'type')},
                   {'target': P + 'ss2', 'relType': 'domain_topic', 'meta': _meta(u, 'date')},
                   {'target': P + 's3', 'relType': 'x_custom', 'meta': None}],
               'examples': [{'text': u('sense example'), 'language': u('lang'),
                             'meta': _meta(u, 'description', 'source')},
                            {'text': u('sense example'), 'meta': None}],
               'counts': [{'value': 7, 'meta': _meta(u, 'format', 'confidenceScore')},
                          {'value': 0, 'meta': None}],
               'lexicalized': False},
              {'id': P + 's2', 'synset': P + 'ss2', 'meta': None}]}
    e2 = {'id': P + 'e2', 'meta': None,
          'lemma': {'writtenForm': 'lemma two', 'partOfSpeech': 'a'},
          'senses': [{'id': P + 's3', 'synset': P + 'ss3', 'meta': None, 'adjposition': 'p'},
                     {'id': P + 's6', 'synset': P + 'ss1', 'meta': None}]}   # not in members
    e3 = {'id': P + 'e3', 'meta': None,
          'lemma': {'writtenForm': 'Lemma One', 'partOfSpeech': 'v'},
          'senses': [{'id': P + 's4', 'synset': P + 'ss1', 'meta': None,
                      'examples': [{'text': u('sense example'), 'meta': None}]},
                     {'id': P + 's5', 'synset': P + 'ss4', 'meta': None}]}
    e4 = {'id': P + 'e4', 'meta': None,
          'lemma': {'writtenForm': 'senseless', 'partOfSpeech': 'r'}}
    ss1 = {'id': P + 'ss1', 'ili': 'i101', 'partOfSpeech': 'n',
           'meta': _meta(u, 'identifier', 'publisher'),
           'definitions': [
               {'text': u('first definition'), 'language': u('lang'), 'sourceSense': P + 's1',
                'meta': _meta(u, 'relation', 'rights')},
               {'text': u('second definition'), 'meta': None}],
           'relations': [{'target': P + 'ss2', 'relType': 'hypernym', 'meta': _meta(u, 'type', 'subject')},
                         {'target': P + 'ss3', 'relType': 'also', 'meta': None},
                         {'target': P + 'ss2', 'relType': 'y_custom', 'meta': None}],
           'examples': [{'text': u('synset example'), 'language': u('lang'), 'meta': _meta(u, 'title')},
                        {'text': u('synset example'), 'meta': None}],
           'lexicalized': False}
    ss2 = {'id': P + 'ss2', 'ili': 'in', 'partOfSpeech': 'n', 'meta': None,
           'ili_definition': {'text': u('ili definition'), 'meta': _meta(u, 'source', 'status')},
           'relations': [{'target': P + 'ss1', 'relType': 'hyponym', 'meta': None}]}
    ss3 = {'id': P + 'ss3', 'ili': '', 'partOfSpeech': 'a', 'meta': None,
           'definitions': [{'text': u('only definition'), 'meta': None}]}
    ss4 = {'id': P + 'ss4', 'ili': 'i102', 'partOfSpeech': 'v', 'meta': None}
    ss5 = {'id': P + 'ss5', 'ili': 'in', 'partOfSpeech': 'n', 'meta': None}   # proposed, no definition
    lex = {'id': lid, 'version': '1.0+a', 'label': u('label'), 'language': 'en',
           'email': u('email'), 'license': u('license'),
           'url': u('url'), 'citation': u('citation'),
           'meta': _meta(u, 'publisher', 'description', 'note', 'confidenceScore'),
           'entries': [e1, e2, e3, e4], 'synsets': [ss1, ss2, ss3, ss4, ss5]}
    if new:
        lex['logo'] = u('logo')
        lex['requires'] = [{'id': 'dep', 'version': '2', 'url': u('depurl')},
                           {'id': 'dep2', 'version': '0.1'}]
        e1['lemma']['pronunciations'] = [pron(True), pron(False)]
        e1['forms'][0]['id'] = P + 'f1'
        e1['forms'][0]['pronunciations'] = [pron(True)]
        e1['forms'][2]['id'] = P + 'f3'
        e1['forms'][2]['pronunciations'] = [pron(False)]
        ss1['members'] = [P + 's4', P + 's1']
        ss1['lexfile'] = 'noun.max'
        ss4['lexfile'] = 'verb.max'
        ss2['lexfile'] = 'noun.max'
        lex['frames'] = [{'id': P + 'fr1', 'subcategorizationFrame': u('frame')},
                         {'id': P + 'fr2', 'subcategorizationFrame': u('frame')},
                         {'id': P + 'fr3', 'subcategorizationFrame': u('frame')}]
        e1['senses'][0]['subcat'] = [P + 'fr1', P + 'fr2']
        e3['senses'][1]['subcat'] = [P + 'fr1']
    else:
        e1['frames'] = [{'subcategorizationFrame': u('frame'), 'senses': [P + 's1']},
                        {'subcategorizationFrame': u('frame')}]
        e3['frames'] = [{'subcategorizationFrame': e1['frames'][0]['subcategorizationFrame']}]
    return lex


def extension(v, base, lid='xt', flags=()):
    """Maximal LexiconExtension over the maximal base: every documented extension pattern.
    flag 'annot': tags/pronunciations on external lemma and on id-carrying external form,
    and a new Form on an external entry."""
    assert v != '1.0'
    u = _Uniq()
    u.i = 500
    B = base['id'] + '-'
    P = lid + '-'
    xe1 = {'id': B + 'e1', 'external': True,
           'senses': [
               {'id': B + 's1', 'external': True,
                'relations': [{'target': P + 's1', 'relType': 'also', 'meta': _meta(u, 'note')},
                              {'target': B + 's2', 'relType': 'similar', 'meta': None}],
                'examples': [{'text': u('ext sense example'), 'meta': None}],
                'counts': [{'value': 3, 'meta': _meta(u, 'source')}]},
               {'id': B + 's2', 'external': True},                            # stub: relation target
               {'id': P + 's2', 'synset': B + 'ss4', 'meta': None},          # new sense, external synset
               {'id': P + 's3', 'synset': P + 'ss1', 'meta': None,           # new sense, own synset
                'relations': [{'target': B + 's1', 'relType': 'antonym', 'meta': None}]}]}
    if 'annot' in flags:
        xe1['lemma'] = {'external': True,
                        'tags': [{'text': u('xtagtext'), 'category': u('category')}],
                        'pronunciations': [{'text': u('xprontext')}]}
        # the external forms are listed in another order than in the base (the third form first),
        # and a newly added Form stands between them
        xe1['forms'] = [{'id': B + 'f3', 'external': True,
                         'tags': [{'text': u('xtagtext'), 'category': u('category')}],
                         'pronunciations': [{'text': u('xprontext'), 'variety': u('variety')}]},
                        # new forms carry annotations of their own: they belong to these forms, not to
                        # the base form that has the same position
                        {'writtenForm': 'extension form', 'id': P + 'f9',
                         'tags': [{'text': u('newformtag'), 'category': u('category')}],
                         'pronunciations': [{'text': u('newformpron')}]},
                        {'id': B + 'f1', 'external': True,
                         'tags': [{'text': u('xtagtext'), 'category': u('category')}],
                         'pronunciations': [{'text': u('xprontext')}]},
                        {'writtenForm': 'extension form without id',
                         'tags': [{'text': u('idlessformtag'), 'category': u('category')}]}]
    ne = {'id': P + 'e1', 'meta': _meta(u, 'creator'),
          'lemma': {'writtenForm': 'lemma two', 'partOfSpeech': 'n'},
          'senses': [{'id': P + 's1', 'synset': P + 'ss1', 'meta': None},
                     {'id': P + 's4', 'synset': B + 'ss1', 'meta': None}]}
    xss1 = {'id': B + 'ss1', 'external': True,
            'definitions': [{'text': u('ext definition'), 'meta': None}],
            'relations': [{'target': P + 'ss1', 'relType': 'hyponym', 'meta': _meta(u, 'type')},
                          {'target': B + 'ss4', 'relType': 'also', 'meta': None}],
            'examples': [{'text': u('ext synset example'), 'meta': None}]}
    nss = {'id': P + 'ss1', 'ili': 'i201', 'partOfSpeech': 'n', 'meta': None,
           'definitions': [{'text': u('new synset definition'), 'meta': None}],
           'relations': [{'target': B + 'ss1', 'relType': 'hypernym', 'meta': None}]}
    xss4 = {'id': B + 'ss4', 'external': True}                              # stub: referenced only
    lex = {'id': lid, 'version': '3', 'label': u('label'), 'language': 'en',
           'email': u('email'), 'license': u('license'), 'meta': _meta(u, 'rights'),
           'extends': {'id': base['id'], 'version': base['version'], 'url': u('baseurl')},
           'requires': [{'id': 'dep', 'version': '2'}],
           'entries': [xe1, ne], 'synsets': [xss1, xss4, nss]}
    # the extension's own frames: used by a new sense on an *external* entry and by a sense of a new entry
    lex['frames'] = [{'id': P + 'fr1', 'subcategorizationFrame': u('ext frame')},
                     {'id': P + 'fr2', 'subcategorizationFrame': u('ext frame')}]
    xe1['senses'][2]['subcat'] = [P + 'fr1', P + 'fr2']
    ne['senses'][0]['subcat'] = [P + 'fr2']
    return lex


def second_lexicon(v, lid='sc'):
    """A small second lexicon sharing forms/ILIs with the maximal one (multi-lexicon files)."""
    P = lid + '-'
    return {'id': lid, 'version': '2', 'label': 'Second', 'language': 'es',
            'email': 'sc@example.org', 'license': 'lic', 'meta': None,
            'entries': [{'id': P + 'e1', 'meta': None,
                         'lemma': {'writtenForm': 'Lemma One', 'partOfSpeech': 'n'},
                         'senses': [{'id': P + 's1', 'synset': P + 'ss1', 'meta': None}]}],
            'synsets': [{'id': P + 'ss1', 'ili': 'i101', 'partOfSpeech': 'n', 'meta': None,
                         'definitions': [{'text': 'segundo', 'meta': None}]}]}


# ---------------------------------------------------------------------------
# schema of optional parts

SCHEMA = {
    'lexicon': dict(opt=['url', 'citation', 'logo'], meta=True,
                    lists={'requires': 'dep', 'entries': 'entry', 'synsets': 'synset',
                           'frames': 'lframe'}),
    'dep': dict(opt=['url']),
    'entry': dict(meta=True, sub={'lemma': 'lemma'},
                  lists={'forms': 'form', 'senses': 'sense', 'frames': 'eframe'}),
    'lemma': dict(opt=['script'], lists={'tags': 'tag', 'pronunciations': 'pron'}),
    'form': dict(opt=['id', 'script'], lists={'tags': 'tag', 'pronunciations': 'pron'}),
    'tag': dict(),
    'pron': dict(opt=['variety', 'notation', 'phonemic', 'audio']),
    'sense': dict(opt=['lexicalized', 'adjposition', 'subcat'], meta=True,
                  lists={'relations': 'rel', 'examples': 'example', 'counts': 'count'}),
    'rel': dict(meta=True),
    'example': dict(opt=['language'], meta=True),
    'count': dict(meta=True),
    'synset': dict(opt=['lexicalized', 'members', 'lexfile'], meta=True,
                   optsub={'ili_definition': 'ilidef'},
                   lists={'definitions': 'definition', 'relations': 'rel', 'examples': 'example'}),
    'definition': dict(opt=['language', 'sourceSense'], meta=True),
    'ilidef': dict(meta=True),
    'lframe': dict(),
    'eframe': dict(opt=['senses']),
    # extension-only kinds
    'xentry': dict(optsub={'lemma': 'xlemma'}, lists={'forms': 'xform', 'senses': 'xsense'}),
    'xlemma': dict(lists={'tags': 'tag', 'pronunciations': 'pron'}),
    'xsynset': dict(lists={'definitions': 'definition', 'relations': 'rel', 'examples': 'example'}),
}
# flagged (risky) optional attributes, explored only when asked for
FLAGGED = {('synset', 'partOfSpeech'): 'nopos', ('lframe', 'id'): 'noframeid'}


def _kind(node, kind):
    """resolve the dynamic kind of list members that may be external"""
    if kind == 'entry' and node.get('external'):
        return 'xentry'
    if kind == 'synset' and node.get('external'):
        return 'xsynset'
    if kind == 'xform':
        return 'xformext' if node.get('external') else 'form'
    if kind == 'xsense':
        return 'xsenseext' if node.get('external') else 'sense'
    return kind


SCHEMA['xformext'] = dict(lists={'tags': 'tag', 'pronunciations': 'pron'})
SCHEMA['xsenseext'] = dict(lists={'relations': 'rel', 'examples': 'example', 'counts': 'count'})


def optional_paths(node, kind='lexicon', path=(), flags=()):
    """Yield every optional path present in node (depth-first, parents before children)."""
    kind = _kind(node, kind)
    sch = SCHEMA[kind]
    for k in sch.get('opt', ()):
        if k in node:
            yield path + (k,)
    for (kk, k), fl in FLAGGED.items():
        if kk == kind and fl in flags and k in node:
            yield path + (k,)
    if sch.get('meta') and node.get('meta'):
        for mk_ in node['meta']:
            yield path + ('meta', mk_)
    for k, ck in sch.get('sub', {}).items():
        if k in node:
            yield from optional_paths(node[k], ck, path + (k,), flags)
    for k, ck in sch.get('optsub', {}).items():
        if k in node:
            yield path + (k,)
            yield from optional_paths(node[k], ck, path + (k,), flags)
    for k, ck in sch.get('lists', {}).items():
        for i, child in enumerate(node.get(k, [])):
            yield path + (k, i)
            yield from optional_paths(child, ck, path + (k, i), flags)


def prune(node, keep, kind='lexicon', path=(), flags=()):
    """Copy of node containing the required parts plus exactly the optional paths in keep."""
    kind = _kind(node, kind)
    sch = SCHEMA[kind]
    optional = set(sch.get('opt', ()))
    for (kk, k), fl in FLAGGED.items():
        if kk == kind and fl in flags:
            optional.add(k)
    structural = set(sch.get('sub', {})) | set(sch.get('optsub', {})) | set(sch.get('lists', {}))
    out = {}
    for k, val in node.items():
        if k == 'meta' and sch.get('meta'):
            m = {mk_: mv for mk_, mv in (val or {}).items() if path + ('meta', mk_) in keep}
            out['meta'] = m or None
        elif k in optional:
            if path + (k,) in keep:
                out[k] = copy.deepcopy(val)
        elif k in sch.get('sub', {}):
            out[k] = prune(val, keep, sch['sub'][k], path + (k,), flags)
        elif k in sch.get('optsub', {}):
            if path + (k,) in keep:
                out[k] = prune(val, keep, sch['optsub'][k], path + (k,), flags)
        elif k in sch.get('lists', {}):
            items = [prune(c, keep, sch['lists'][k], path + (k, i), flags)
                     for i, c in enumerate(val) if path + (k, i) in keep]
            if items:
                out[k] = items
        elif k not in structural:
            out[k] = copy.deepcopy(val)
    return out


def _prefixes(p):
    return [p[:i] for i in range(1, len(p))]


def keep_for(allpaths, base, delta):
    """base 'M': everything except delta (and descendants); base 'm': delta + ancestors."""
    allset = set(allpaths)
    delta = [tuple(d) for d in delta]
    if base == 'M':
        return {p for p in allset
                if not any(p[:len(d)] == d for d in delta)}
    keep = set()
    for d in delta:
        keep.add(d)
        keep.update(a for a in _prefixes(d) if a in allset)
    return keep


# ---------------------------------------------------------------------------
# reference fix-up (keeps a pruned document valid)

def local_ids(lex):
    ent, sen, syn, frm = set(), set(), set(), set()
    for e in lex.get('entries', []):
        if not e.get('external'):
            ent.add(e['id'])
        for s in e.get('senses', []):
            if not s.get('external'):
                sen.add(s['id'])
    for ss in lex.get('synsets', []):
        if not ss.get('external'):
            syn.add(ss['id'])
    for f in lex.get('frames', []):
        if f.get('id'):
            frm.add(f['id'])
    return ent, sen, syn, frm


def fixup(lex, base=None):
    """Drop references to things the pruning removed. base: the (already fixed) base
    lexicon an extension may refer to."""
    bent, bsen, bsyn, _ = local_ids(base) if base else (set(), set(), set(), set())
    # an extension may only reference base entities it declares as External* (IDREF validity)
    dsen = {s['id'] for e in lex.get('entries', []) for s in e.get('senses', []) if s.get('external')}
    dsyn = {ss['id'] for ss in lex.get('synsets', []) if ss.get('external')}
    bsen, bsyn = bsen & dsen, bsyn & dsyn
    changed = True
    while changed:
        changed = False
        ent, sen, syn, frm = local_ids(lex)
        for e in lex.get('entries', []):
            keepers = [s for s in e.get('senses', [])
                       if s.get('external') or s['synset'] in syn or s['synset'] in bsyn]
            if len(keepers) != len(e.get('senses', [])):
                changed = True
                if keepers:
                    e['senses'] = keepers
                else:
                    del e['senses']
    ent, sen, syn, frm = local_ids(lex)
    allsen, allsyn = sen | bsen, syn | bsyn

    def relfix(owner):
        rels = [r for r in owner.get('relations', []) if r['target'] in allsen or r['target'] in allsyn]
        if rels:
            owner['relations'] = rels
        else:
            owner.pop('relations', None)
    for e in lex.get('entries', []):
        esen = [s['id'] for s in e.get('senses', [])]
        for s in e.get('senses', []):
            relfix(s)
            if 'subcat' in s:
                sc = [x for x in s['subcat'] if x in frm]
                if sc:
                    s['subcat'] = sc
                else:
                    del s['subcat']
        for f in e.get('frames', []):
            if 'senses' in f:
                fs = [x for x in f['senses'] if x in esen]
                if fs:
                    f['senses'] = fs
                else:
                    del f['senses']
        if e.get('frames') and not esen:
            del e['frames']       # an entry-level frame with no sense to attach to is unobservable
    for ss in lex.get('synsets', []):
        # synset relations may only target synsets
        rels = [r for r in ss.get('relations', []) if r['target'] in allsyn]
        if rels:
            ss['relations'] = rels
        else:
            ss.pop('relations', None)
        if 'members' in ss:
            mem = [m for m in ss['members'] if m in sen]
            if mem:
                ss['members'] = mem
            else:
                del ss['members']
        for d in ss.get('definitions', []):
            if 'sourceSense' in d and d['sourceSense'] not in allsen:
                del d['sourceSense']
    return lex


def derive(M, base, delta, flags=(), base_lex=None):
    allp = list(optional_paths(M, flags=flags))
    keep = keep_for(allp, base, delta)
    return fixup(prune(M, keep, flags=flags), base_lex)


def feature_cases(M, D, flags=()):
    """All (base, delta) with |delta| <= D."""
    allp = [list(p) for p in optional_paths(M, flags=flags)]
    out = [('m', []), ('M', [])]
    for d in range(1, D + 1):
        for combo in combinations(allp, d):
            # skip combos where one path is an ancestor of another (same as a smaller combo)
            if any(a != b and b[:len(a)] == a for a in combo for b in combo):
                continue
            out.append(('M', list(combo)))
            out.append(('m', list(combo)))
    return out


# ---------------------------------------------------------------------------
# string slots and payloads

ATTR_PAYLOADS = [
    'a"b', "a'b", 'a<b', 'a>b', 'a&b', 'a&amp;b', ']]>', 'a\tb', 'a\nb', 'a\rb',
    ' lead', 'trail ', 'dou  ble', '100%', 'a_b', 'a*b', 'a?b', '[ab]', 'é', 'ｆｕｌｌ',
    '\U0001F600x', 'x' * 5000, 'CaSe', 'case', "a' OR '1'='1", 'a;b--', '\\',
]
TEXT_PAYLOADS = [
    'a"b', "a'b", 'a<b', 'a>b', 'a&b', 'a&amp;b', ']]>', 'a\tb', 'a\nb', ' lead', 'trail ',
    'dou  ble', '100%', 'é', '\U0001F600x', 'y' * 5000, '', 'a\rb',
    'long ' + 'z' * 20000 + ' tail', 'é' * 6000,      # longer than expat's 8 kB text buffer
]
# written under xml:space="preserve" (no carriage return: a literal one is a line feed to every XML parser)
PRESERVE_PAYLOADS = ['a\tb', 'a\nb', 'a\u00a0b', ' lead', 'trail ', 'dou  ble', 'l1\n  l2\n']
ID_PAYLOADS = ['x.y-z_1', 'ïd-é', '日本', 'A', 'a']

_TEXT_KINDS = {'tag', 'pron', 'definition', 'ilidef', 'example'}
# attribute slots per kind that hold free strings (ids and references handled separately)
_ATTR_SLOTS = {
    'lexicon': ['label', 'language', 'email', 'license', 'url', 'citation', 'logo'],
    'dep': ['url'],
    'lemma': ['writtenForm', 'script'],
    'form': ['writtenForm', 'script'],
    'tag': ['category'],
    'pron': ['variety', 'notation', 'audio'],
    'sense': ['adjposition'],
    'rel': ['relType'],
    'example': ['language'],
    'definition': ['language'],
    'synset': ['lexfile', 'partOfSpeech'],
    'lframe': ['subcategorizationFrame'],
    'eframe': ['subcategorizationFrame'],
}


def string_slots(node, kind='lexicon', path=()):
    """Yield (path, 'attr'|'text') for every free-string slot present."""
    kind = _kind(node, kind)
    sch = SCHEMA[kind]
    for k in _ATTR_SLOTS.get(kind, ()):
        if isinstance(node.get(k), str):
            yield path + (k,), 'attr'
    if kind == 'lemma' and 'partOfSpeech' in node:
        yield path + ('partOfSpeech',), 'attr'
    if kind in _TEXT_KINDS and 'text' in node:
        yield path + ('text',), 'text'
    if sch.get('meta') and node.get('meta'):
        for mk_ in node['meta']:
            yield path + ('meta', mk_), 'attr'
    for k, ck in list(sch.get('sub', {}).items()) + list(sch.get('optsub', {}).items()):
        if k in node:
            yield from string_slots(node[k], ck, path + (k,))
    for k, ck in sch.get('lists', {}).items():
        for i, child in enumerate(node.get(k, [])):
            yield from string_slots(child, ck, path + (k, i))


def get_path(node, path):
    for k in path:
        node = node[k]
    return node


def set_path(node, path, value):
    for k in path[:-1]:
        node = node[k]
    node[path[-1]] = value


def normal_text(s):
    """the loader's documented whitespace normalisation of text content"""
    return ' '.join(s.split())
