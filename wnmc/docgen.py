"""Case -> concrete resource (list of lexicon documents) for the document-driven
properties (C01, C02, C03, C07, C20). A case is JSON:
  {'v': '1.3', 'kind': 'feat', 'base': 'M'|'m', 'delta': [path,...], 'flags': [...]}
  {'v': .., 'kind': 'payload', 'slot': path, 'payload': i}
  {'v': .., 'kind': 'idpayload', 'payload': i}
  {'v': .., 'kind': 'shape', 'list': path, 'count': k}
  {'v': .., 'kind': 'multi', 'order': [..]}
  {'v': .., 'kind': 'ext', 'base': 'M'|'m', 'delta': [...], 'flags': [...]}   (extension over the maximal base)
"""
import copy

from . import docs


def _rename_ids(node, suffix, ids=None):
    """append suffix to every id defined inside node (entries, senses, synsets, forms, frames)
    and to references to those ids inside node"""
    defined = set()

    def collect(n):
        if isinstance(n, dict):
            if 'id' in n and not n.get('external') and isinstance(n['id'], str) and 'version' not in n:
                defined.add(n['id'])
            for v in n.values():
                collect(v)
        elif isinstance(n, list):
            for v in n:
                collect(v)
    collect(node)

    def rn(n):
        if isinstance(n, dict):
            for k, v in list(n.items()):
                if k in ('id', 'target', 'sourceSense', 'synset') and v in defined:
                    n[k] = v + suffix
                elif k in ('members', 'subcat', 'senses') and isinstance(v, list) and all(isinstance(x, str) for x in v):
                    n[k] = [x + suffix if x in defined else x for x in v]
                else:
                    rn(v)
        elif isinstance(n, list):
            for v in n:
                rn(v)
    rn(node)
    return node


def clone_item(item, k):
    c = copy.deepcopy(item)
    suffix = f'-c{k}'
    if isinstance(c, dict):
        _rename_ids(c, suffix)
        for key in ('text', 'subcategorizationFrame'):
            if key in c:
                c[key] = f'{c[key]} c{k}'
        if 'writtenForm' in c:
            c['writtenForm'] = f'{c["writtenForm"]} c{k}'
        if 'lemma' in c and isinstance(c['lemma'], dict) and 'writtenForm' in c['lemma']:
            pass  # same lemma on purpose: shared forms across words
        if 'relType' in c:
            c['relType'] = f'{c["relType"]}_c{k}'
        if 'value' in c:
            c['value'] = c['value'] + k
        if 'version' in c and 'id' in c and 'label' not in c:   # Requires
            c['id'] = c['id'] + suffix
        if 'ili' in c and c['ili'] not in ('', 'in'):
            c['ili'] = c['ili'] + f'{k}'
        if 'members' in c:
            del c['members']
    return c


def list_paths(node, kind='lexicon', path=()):
    kind = docs._kind(node, kind)
    sch = docs.SCHEMA[kind]
    for k, ck in list(sch.get('sub', {}).items()) + list(sch.get('optsub', {}).items()):
        if k in node:
            yield from list_paths(node[k], ck, path + (k,))
    for k, ck in sch.get('lists', {}).items():
        if k in node:
            yield path + (k,)
            for i, child in enumerate(node[k]):
                yield from list_paths(child, ck, path + (k, i))


def shape(M, lpath, count):
    lex = copy.deepcopy(M)
    lst = docs.get_path(lex, lpath)
    if count <= len(lst):
        del lst[count:]
    else:
        k = 0
        while len(lst) < count:
            k += 1
            lst.append(clone_item(lst[-1], k))
    if not lst:
        parent = docs.get_path(lex, lpath[:-1])
        del parent[lpath[-1]]
    return docs.fixup(lex)


def apply_payload(M, slot, kind, payload, preserve=False):
    """-> (lexicon, raw_text map). For text slots the dict holds the normal form and
    raw_text the literal payload; with preserve the element is written with xml:space="preserve" and the dict
    holds the literal payload, which the loader keeps verbatim."""
    lex = copy.deepcopy(M)
    slot = tuple(slot)
    if kind == 'text' and preserve:
        obj = docs.get_path(lex, slot[:-1])
        obj['text'] = payload
        return lex, {id(obj): payload, '__preserve__': {id(obj)}}
    if kind == 'text':
        obj = docs.get_path(lex, slot[:-1])
        obj['text'] = docs.normal_text(payload)
        return lex, {id(obj): payload}
    old = docs.get_path(lex, slot)
    docs.set_path(lex, slot, payload)
    if slot[-1] == 'subcategorizationFrame':
        # 1.0 entry-level frames may repeat a frame text across entries on purpose
        def rn(n):
            if isinstance(n, dict):
                for k, v in n.items():
                    if k == 'subcategorizationFrame' and v == old:
                        n[k] = payload
                    else:
                        rn(v)
            elif isinstance(n, list):
                for v in n:
                    rn(v)
        rn(lex)
    return lex, {}


def rename_all_ids(M, payload):
    """every entity id of the lexicon gets the payload as an infix (consistently)"""
    lex = copy.deepcopy(M)
    _rename_ids(lex, payload)
    return lex


def build(case):
    """-> dict(resource=..., raw_text=..., pre=[resources to install first], lexicons=[docs])"""
    v = case['v']
    flags = tuple(case.get('flags', ()))
    kind = case['kind']
    M = docs.maximal(v, flags=flags)
    raw = {}
    pre = []
    if kind == 'feat':
        lexs = [docs.derive(M, case['base'], case['delta'], flags=flags)]
    elif kind == 'payload':
        lex, raw = apply_payload(M, case['slot'], case['skind'], case['payload'], case.get('preserve', False))
        lexs = [lex]
    elif kind == 'idpayload':
        lexs = [rename_all_ids(M, case['payload'])]
    elif kind == 'shape':
        lexs = [shape(M, tuple(case['list']), case['count'])]
    elif kind == 'multi':
        pool = {'M': M, 'S': docs.second_lexicon(v),
                'T': docs.second_lexicon(v, 'th')}
        if case.get('sframes'):
            # every lexicon of the resource owns a SyntacticBehaviour without an id (entry level in 1.0, an
            # unused lexicon-level frame otherwise)
            for k in ('S', 'T'):
                lx = pool[k]
                if v == '1.0':
                    lx['entries'][0]['frames'] = [{'subcategorizationFrame': f'{k} frame', 'senses': [lx['entries'][0]['senses'][0]['id']]}]
                else:
                    lx['frames'] = [{'subcategorizationFrame': f'{k} frame'}]
        if 'X' in case['order']:        # an extension of M in the same resource as M
            pool['X'] = docs.extension(v, docs.maximal(v, flags=('annot',)), flags=('annot',))
            pool['M'] = docs.maximal(v, flags=('annot',))
        lexs = [pool[k] for k in case['order']]
    elif kind == 'ext':
        X = docs.extension(v, M, flags=flags)
        lexs = [docs.derive(X, case['base'], case['delta'], flags=flags, base_lex=M)]
        pre = [{'lmf_version': v, 'lexicons': [M]}]
        if 'twinext' in flags:
            # another version of the same extension (same ids, also the ids of the forms it adds to base entries,
            # other annotation texts) is installed first
            import copy
            Xt = copy.deepcopy(docs.extension(v, M, flags=tuple(f for f in flags if f != 'twinext')))
            Xt['version'] = 'tw'

            def mark(n):
                if isinstance(n, dict):
                    for k in ('tags', 'pronunciations'):
                        for item in n.get(k, []):
                            item['text'] = item['text'] + '-tw'
                    for val in n.values():
                        mark(val)
                elif isinstance(n, list):
                    for val in n:
                        mark(val)
            mark(Xt)
            pre.append({'lmf_version': v, 'lexicons': [Xt]})
    else:
        raise ValueError(kind)
    return {'resource': {'lmf_version': v, 'lexicons': lexs}, 'raw_text': raw, 'pre': pre}


def reltypes_of(*resources):
    out = set()
    for res in resources:
        for lex in res['lexicons']:
            for e in lex.get('entries', []):
                for s in e.get('senses', []):
                    for r in s.get('relations', []):
                        out.add(r['relType'])
    return sorted(out)


# ---------------------------------------------------------------------------
# case spaces

def feature_space(v, D, flags=()):
    M = docs.maximal(v, flags=flags)
    return [{'v': v, 'kind': 'feat', 'base': b, 'delta': d, 'flags': list(flags)}
            for b, d in docs.feature_cases(M, D, flags)]


def ext_feature_space(v, D, flags=()):
    M = docs.maximal(v)
    X = docs.extension(v, M, flags=flags)
    return [{'v': v, 'kind': 'ext', 'base': b, 'delta': d, 'flags': list(flags)}
            for b, d in docs.feature_cases(X, D, flags)]


def payload_space(v, attr_payloads=None, text_payloads=None):
    M = docs.maximal(v)
    out = []
    ap = docs.ATTR_PAYLOADS if attr_payloads is None else attr_payloads
    tp = docs.TEXT_PAYLOADS if text_payloads is None else text_payloads
    for slot, skind in docs.string_slots(M):
        if slot[-1] == 'partOfSpeech' or slot == ('language',):
            pls = ['x', 'zz-Latn']       # mild: pos / language are matched by queries
        else:
            pls = ap if skind == 'attr' else tp
        for p in pls:
            if skind == 'attr' and p == '':
                continue
            out.append({'v': v, 'kind': 'payload', 'slot': list(slot), 'skind': skind, 'payload': p})
    for p in docs.ID_PAYLOADS:
        out.append({'v': v, 'kind': 'idpayload', 'payload': p})
    # text kept verbatim (xml:space="preserve"): irregular whitespace must survive the store and an export
    for slot, skind in docs.string_slots(M):
        if skind == 'text':
            for p in docs.PRESERVE_PAYLOADS:
                out.append({'v': v, 'kind': 'payload', 'slot': list(slot), 'skind': skind, 'payload': p, 'preserve': True})
    return out


def shape_space(v, counts=(0, 1, 2, 3)):
    M = docs.maximal(v)
    out = []
    for lp in list_paths(M):
        n = len(docs.get_path(M, lp))
        for c in counts:
            if c != n:
                out.append({'v': v, 'kind': 'shape', 'list': list(lp), 'count': c})
    return out


def multi_space(v):
    return [{'v': v, 'kind': 'multi', 'order': list(o)}
            for o in [['M', 'S'], ['S', 'M'], ['S', 'T'], ['T', 'M', 'S'], ['S']]
            + ([['M', 'X'], ['S', 'M', 'X'], ['M', 'S', 'X', 'T'], ['X', 'M'], ['X', 'S']] if v != '1.0' else [])]
