"""Engine E1: explicit-state exploration of operation histories on the real SQLite
file. A state is the database file (snapshot stored under its key) plus the reference
model state; each transition restores the snapshot, runs the real wn call, observes,
steps the model and evaluates invariants. BFS, level-parallel, deduplicated by a key."""
import hashlib
import json
import multiprocessing as mp
import os
import shutil
import sys
import time
import traceback
import zlib
from pathlib import Path

from . import env, observe, runner


def quotient_dump(exact):
    """exact dump with every table's rowids replaced by their dense rank and foreign keys
    by the rank of the row they point to (state modulo order-preserving rowid renaming)."""
    rank = {}
    for t, rows in exact.items():
        rank[t] = {r[0]: i for i, r in enumerate(rows)}
    cols = _cols()
    out = {}
    for t, rows in exact.items():
        fk = observe._FK.get(t, {})
        c = cols[t]
        new = []
        for r in rows:
            nr = []
            for name, v in zip(c, r):
                if name == 'rowid':
                    v = rank[t][v]
                elif name in fk and v is not None:
                    v = rank[fk[name]].get(v, f'DANGLING:{v}')
                nr.append(v)
            new.append(nr)
        out[t] = new
    return out


_COLS = {}


def _cols():
    if not _COLS:
        import sqlite3
        conn = sqlite3.connect(':memory:')
        from importlib import resources
        conn.executescript((resources.files('wn') / 'schema.sql').read_text())
        for t in observe.TABLES:
            c = [r[1] for r in conn.execute(f'PRAGMA table_info({t})')]
            _COLS[t] = c if 'rowid' in c else ['rowid'] + c
        conn.close()
    return _COLS


def sha(obj):
    return hashlib.sha1(json.dumps(obj, sort_keys=True, default=repr).encode()).hexdigest()


class System:
    """Interface a property provides (module-level instance, inherited by fork)."""
    key_mode = 'quotient'        # 'exact' | 'quotient' | 'coarse'

    def initial_model(self):
        raise NotImplementedError

    def setup_initial_db(self):
        """called with a fresh empty database selected"""

    def events(self, m):
        raise NotImplementedError

    def apply(self, ev, workdir):
        """run the real operation; exceptions propagate"""
        raise NotImplementedError

    def mstep(self, m, ev):
        raise NotImplementedError

    def check(self, m, ev, m2, pre, post, hist, raised):
        """-> list of (key, message)"""
        return []

    def coarse_key(self, post, m2):
        raise NotImplementedError

    def check_state(self, m, pre, hist):
        """called once per expanded state -> (violations, per-state data kept by the parent)"""
        return [], None


_SYS = None
_SNAPDIR = None
_MODE = None


def _snap_path(key):
    return Path(_SNAPDIR) / key


def _observe():
    env.wn._db.connect()       # creates and initialises the file if needed
    env.close_pool()
    ex = observe.exact_dump(env.db_path())
    return {'exact': ex}


def _key(post, m2):
    if _MODE == 'exact':
        return sha(post['exact'])
    if _MODE == 'quotient':
        return sha([quotient_dump(post['exact']), _SYS.model_key(m2)])
    if _MODE == 'medium':
        # coarse key + the *sets* of values in the shared lookup tables (their row order is
        # unobservable except through the order of wn.ilis(); lookups are by value)
        ex = post['exact']
        stat = {r[0]: r[1] for r in ex['ili_statuses']}
        shared = {'ilis': sorted(([r[1], stat.get(r[2]), r[3], repr(r[4])] for r in ex['ilis']), key=repr),
                  'relation_types': sorted(r[1] for r in ex['relation_types']),
                  'lexfiles': sorted(r[1] for r in ex['lexfiles']),
                  'ili_statuses': sorted(r[1] for r in ex['ili_statuses'])}
        return sha([_SYS.coarse_key(post, m2), shared])
    return sha(_SYS.coarse_key(post, m2))


def _expand(state):
    """state = (key, model, hist) -> list of transition records"""
    key, m, hist = state
    out = []
    try:
        workdir = env.new_dir('e1')
        dbdir = env.fresh_db()
        snap = _snap_path(key).read_bytes()
        env.restore(snap)
        pre = _observe()
        try:
            sv, sdata = _SYS.check_state(m, pre, hist)
        except Exception as exc:         # noqa: BLE001
            in_wn, site = runner.exc_site(exc)
            if not in_wn:
                raise
            sv, sdata = [(f'observe:raises:{type(exc).__name__}@{site}',
                          f'after {hist}: observing the state through the API raised {exc!r}')], None
        env.close_pool()
        for ev in _SYS.events(m):
            env.restore(snap)
            raised = None
            # optional: read-only calls right before the event, in the same process (the events applied before this
            # one may have made the library forget what it remembered from check_state above)
            warm = getattr(_SYS, 'warm', None)
            if warm is not None:
                warm(m, ev)
            try:
                _SYS.apply(ev, workdir)
            except Exception as exc:     # noqa: BLE001
                in_wn, site = runner.exc_site(exc)
                if not in_wn and not isinstance(exc, env.wn.Error):
                    raise
                raised = (type(exc).__name__, site, str(exc)[:200])
            post = _observe()
            m2 = _SYS.mstep(m, ev)
            try:
                V = _SYS.check(m, ev, m2, pre, post, hist + [ev], raised)
            except Exception as exc:     # noqa: BLE001
                in_wn, site = runner.exc_site(exc)
                if not in_wn:
                    raise
                V = [(f'observe:raises:{type(exc).__name__}@{site}',
                      f'after {hist + [ev]}: observing the state through the API raised {exc!r}')]
                env.close_pool()
            k2 = _key(post, m2)
            unchanged = post['exact'] == pre['exact']
            # optional: go on in the same process on the same database (no restore) with a few further events
            # and check the state reached - what the library may remember from before (module-level caches
            # keyed by rowids that get re-used) only shows along such a path
            chain = getattr(_SYS, 'chain_events', None)
            if chain is not None and raised is None and not unchanged:
                snap2 = None
                for n2, ev2 in enumerate(chain(m, ev, m2)):
                    if snap2 is None:
                        env.close_pool()
                        snap2 = env.snapshot()
                    home = d2 = None
                    if warm is not None:
                        # replay the whole path in this process on a database file of its own (a new path: what the
                        # library remembers per database path from the other paths explored by this worker cannot
                        # mask or fake anything): state, read-only calls, the event, then the chained event
                        home = env.db_path().parent
                        d2 = env.fresh_db()
                        env.restore(snap)
                        warm(m, ev)
                        _SYS.apply(ev, workdir)
                    try:
                        if warm is None and n2:
                            env.restore(snap2)
                        _SYS.apply(ev2, workdir)
                        m3 = _SYS.mstep(m2, ev2)
                        v3, _ = _SYS.check_state(m3, None, hist + [ev, ev2])
                    except Exception as exc:     # noqa: BLE001
                        in_wn, site = runner.exc_site(exc)
                        if not in_wn and not isinstance(exc, env.wn.Error):
                            raise
                        v3 = [(f'observe:raises:{type(exc).__name__}@{site}',
                               f'after {hist + [ev, ev2]} (one process, no restore): {exc!r}')]
                    finally:
                        if d2 is not None:
                            env.close_pool()
                            env.wn.config.data_directory = home
                            env.drop_db(d2)
                    V = list(V) + [(a, b + ' [same process and database as the previous events]') for a, b in v3]
                if snap2 is not None:
                    env.restore(snap2)
            p = _snap_path(k2)
            if not p.exists():
                tmp = p.with_suffix(f'.{os.getpid()}')
                tmp.write_bytes(env.snapshot())
                os.replace(tmp, p)
            out.append({'ev': ev, 'key': k2, 'm': m2, 'unchanged': unchanged, 'hist': hist + [ev],
                        'v': [(a, b, hist + [ev]) for a, b in V],
                        'obs': _SYS.obs_digest(post, m2)})
        env.drop_db(dbdir)
        shutil.rmtree(workdir, ignore_errors=True)
        return {'ok': out, 'key': key, 'sv': [(a, b, hist) for a, b in sv], 'sdata': sdata}
    except Exception:                    # noqa: BLE001
        return {'error': traceback.format_exc(), 'state': (key, hist)}


def _winit():
    env._ROOT = None
    env._COUNTER = 0
    env.wn._db.pool.clear()


def explore(system, mode, max_depth=None, cap=None, jobs=None, extend_unchanged=False):
    """BFS to a fixpoint (or depth/transition cap). Returns stats dict + violations."""
    global _SYS, _SNAPDIR, _MODE
    _SYS, _MODE = system, mode
    root = env.scratch_root()
    _SNAPDIR = str(root / f'snaps-{mode}-{time.time_ns()}')
    os.makedirs(_SNAPDIR)
    jobs = jobs or runner.jobs_default()
    # initial state
    env.fresh_db()
    system.setup_initial_db()
    m0 = system.initial_model()
    post0 = _observe()
    k0 = _key(post0, m0)
    _snap_path(k0).write_bytes(env.snapshot())
    env.drop_db(env.db_path().parent)
    seen = {k0}
    frontier = [(k0, m0, [])]
    stats = {'states': 1, 'transitions': 0, 'levels': [1], 'max_depth': 0,
             'fixpoint': False, 'cap_hit': None, 'obs': set(), 'self_loops': 0,
             'sdata': {}, 'edges': []}
    violations = []
    vcount = {}
    depth = 0
    ctx = mp.get_context('fork')
    pool = ctx.Pool(jobs, initializer=_winit) if jobs > 1 else None
    try:
        while frontier:
            if max_depth is not None and depth >= max_depth:
                stats['cap_hit'] = f'depth {max_depth}'
                break
            depth += 1
            nxt = []
            it = (pool.imap_unordered(_expand, frontier, chunksize=1) if pool
                  else map(_expand, frontier))
            for res in it:
                if 'error' in res:
                    sys.stderr.write(f'HARNESS ERROR in state {res["state"]}\n{res["error"]}\n')
                    sys.stdout.flush()
                    os._exit(runner.HARNESS_ERROR)
                for key, msg, hist in res['sv']:
                    vcount[key] = vcount.get(key, 0) + 1
                    if len(violations) < 3000:
                        violations.append((key, msg, {'history': hist}, None))
                if res['sdata'] is not None:
                    stats['sdata'][res['key']] = res['sdata']
                for tr in res['ok']:
                    stats['edges'].append((res['key'], tr['ev'], tr['key'], tr['hist']))
                    stats['transitions'] += 1
                    stats['obs'].add(tr['obs'])
                    for key, msg, hist in tr['v']:
                        vcount[key] = vcount.get(key, 0) + 1
                        if len(violations) < 3000:
                            violations.append((key, msg, {'history': hist}, None))
                    if tr['unchanged']:
                        stats['self_loops'] += 1
                    if tr['key'] not in seen:
                        if tr['unchanged'] and not extend_unchanged and mode == 'exact':
                            continue
                        seen.add(tr['key'])
                        nxt.append((tr['key'], tr['m'], tr['hist']))
                if cap and stats['transitions'] >= cap:
                    break
            frontier = nxt
            stats['levels'].append(len(nxt))
            stats['states'] = len(seen)
            stats['max_depth'] = depth
            if cap and stats['transitions'] >= cap:
                stats['cap_hit'] = f'transitions {cap} (level {depth} incomplete)'
                break
        else:
            stats['fixpoint'] = True
    finally:
        if pool:
            pool.terminate()
            pool.join()
        shutil.rmtree(_SNAPDIR, ignore_errors=True)
    stats['distinct_observations'] = len(stats.pop('obs'))
    return stats, violations, vcount
