"""Shared driver: parallel exhaustive mapping of a case space, violation
triage against known_findings.txt, replay files, evidence files."""
import hashlib
import json
import multiprocessing as mp
import os
import sys
import time
import traceback
from pathlib import Path

from . import env, findings

VERIF = Path(__file__).resolve().parent.parent
REPO_WN = str(Path(env.wn.__file__).resolve().parent)

HARNESS_ERROR = 2


class Violation:
    __slots__ = ('key', 'msg', 'case', 'detail')

    def __init__(self, key, msg, case=None, detail=None):
        self.key, self.msg, self.case, self.detail = key, msg, case, detail

    def to_json(self):
        return {'key': self.key, 'message': self.msg, 'case': self.case,
                'detail': self.detail}


def digest(obj) -> str:
    return hashlib.sha1(
        json.dumps(obj, sort_keys=True, default=repr, ensure_ascii=False).encode()
    ).hexdigest()[:16]


def jobs_default():
    try:
        return max(1, min(16, len(os.sched_getaffinity(0))))
    except Exception:
        return max(1, min(16, os.cpu_count() or 1))


# --------------------------------------------------------------------------
# exception triage: inside wn (=> violation) or inside the harness (=> exit 2)

def exc_site(exc) -> tuple:
    """(in_wn, 'file:func:line' of innermost wn frame or innermost frame)."""
    tb = traceback.extract_tb(exc.__traceback__)
    inner_wn = None
    for fr in tb:
        if fr.filename.startswith(REPO_WN):
            inner_wn = fr
    if inner_wn is not None:
        return True, f'{Path(inner_wn.filename).name}:{inner_wn.name}'
    fr = tb[-1] if tb else None
    return False, (f'{Path(fr.filename).name}:{fr.name}:{fr.lineno}' if fr else '?')


def guarded(fn, *a, **kw):
    """Call into wn where the property expects success.
    -> (True, value) or (False, (exc_type_name, site, text))"""
    try:
        return True, fn(*a, **kw)
    except Exception as exc:            # noqa: BLE001
        in_wn, site = exc_site(exc)
        return False, (type(exc).__name__, site, str(exc)[:300])


# --------------------------------------------------------------------------
# worker side

_CHECK = None
_INIT = None


def _worker_init():
    env._ROOT = None          # forked child gets its own scratch dir
    env._COUNTER = 0
    env.wn._db.pool.clear()
    if _INIT:
        _INIT()


def _run_chunk(chunk):
    out_v, digs, n, nt = [], set(), 0, 0
    for case in chunk:
        try:
            res = _CHECK(case)
        except Exception as exc:        # noqa: BLE001
            in_wn, site = exc_site(exc)
            if in_wn:
                res = {'v': [(f'exception:{type(exc).__name__}@{site}',
                              f'{type(exc).__name__}: {str(exc)[:300]}',
                              traceback.format_exc()[-1500:])],
                       'd': 'exc', 'nt': True}
            else:
                return {'error': traceback.format_exc(), 'case': case}
        n += res.get('n', 1)
        for v in res.get('v', ()):
            key, msg = v[0], v[1]
            detail = v[2] if len(v) > 2 else None
            vcase = v[3] if len(v) > 3 and v[3] is not None else case
            out_v.append((key, msg, vcase, detail))
        if 'digs' in res:
            nt += int(res.get('nt', len(res['digs'])))
            digs.update(res['digs'])
        elif res.get('nt', True):
            nt += 1
            digs.add(res.get('d'))
    env.close_pool()
    return {'n': n, 'nt': nt, 'digs': digs, 'v': out_v}


def _chunks(it, size):
    buf = []
    for x in it:
        buf.append(x)
        if len(buf) >= size:
            yield buf
            buf = []
    if buf:
        yield buf


def map_space(cases, check_fn, *, jobs=None, chunk=16, init=None, cap_viol=5000):
    """Run check_fn over every case (in parallel). Returns aggregate dict."""
    global _CHECK, _INIT
    _CHECK, _INIT = check_fn, init
    jobs = jobs or jobs_default()
    agg = {'n': 0, 'nt': 0, 'digs': set(), 'v': [], 'vcount': {}}
    env.close_pool()

    def absorb(r):
        if 'error' in r:
            sys.stderr.write('HARNESS ERROR on case %r\n%s\n' % (r['case'], r['error']))
            sys.stdout.flush()
            os._exit(HARNESS_ERROR)
        agg['n'] += r['n']
        agg['nt'] += r['nt']
        agg['digs'] |= r['digs']
        for v in r['v']:
            agg['vcount'][v[0]] = agg['vcount'].get(v[0], 0) + 1
            if len(agg['v']) < cap_viol:
                agg['v'].append(v)

    if jobs == 1:
        _worker_init()
        for ch in _chunks(cases, chunk):
            absorb(_run_chunk(ch))
    else:
        ctx = mp.get_context('fork')
        with ctx.Pool(jobs, initializer=_worker_init) as pool:
            for r in pool.imap_unordered(_run_chunk, _chunks(cases, chunk)):
                absorb(r)
    return agg


# --------------------------------------------------------------------------
# reporting

def case_sort_key(case):
    return len(json.dumps(case, default=repr))


def report(prop, tier, seed, level, coverage, violations, t0, *, assumptions=(),
           recheck=None):
    """violations: list of (key, msg, case, detail). Prints KNOWN-FINDING /
    VIOLATION lines, writes replays + evidence. Returns exit code."""
    known = findings.load().get(prop, {})
    bykey = {}
    for v in violations:
        bykey.setdefault(v[0], []).append(v)
    counts = coverage.pop('_vcount', None) or {k: len(vs) for k, vs in bykey.items()}
    rc = 0
    unknown = 0
    kf = []
    for key in sorted(bykey):
        vs = sorted(bykey[key], key=lambda v: case_sort_key(v[2]))
        if key in known:
            print(f'KNOWN-FINDING: property={prop} key={key} count={counts.get(key)} '
                  f'{known[key]}')
            kf.append({'key': key, 'count': counts.get(key), 'smallest_case': vs[0][2],
                       'message': vs[0][1]})
            continue
        v = vs[0]
        reproduced = None
        if recheck is not None:
            again = recheck(v[2])
            keys2 = {x[0] for x in again.get('v', ())}
            reproduced = key in keys2
            if not reproduced:
                # observed in a long-lived worker process but not when the single case is run in fresh
                # state: the wrong result depends on what the process did before (e.g. module-level
                # state in the library). It is still a wrong result of the real code, so it is reported.
                print(f'NOTE property={prop} key={key}: the violation was observed in a worker process but did '
                      f'not reproduce when the case was re-run alone in fresh state (got {sorted(keys2)}); '
                      f'the result depends on process history')
        d = VERIF / 'replays' / prop
        d.mkdir(parents=True, exist_ok=True)
        path = d / f'{digest([key, v[2]])}.json'
        path.write_text(json.dumps(
            {'property': prop, 'key': key, 'message': v[1], 'case': v[2],
             'detail': v[3], 'count_same_key': counts.get(key),
             'reproduced_alone_in_fresh_state': reproduced},
            indent=1, default=repr, ensure_ascii=False))
        print(f'VIOLATION property={prop} replay={path}')
        print(f'  key={key} count={counts.get(key)} :: {v[1]}')
        unknown += 1
        rc = 1
    coverage = dict(coverage)
    if kf:
        coverage['known_findings_seen'] = kf
    ev = {
        'property_id': prop,
        'tier': tier,
        'seed': int(seed),
        'level': level,
        'coverage': coverage,
        'assumptions': list(assumptions),
        'wall_s': round(time.time() - t0, 3),
        'violations': unknown,
    }
    # WNMC_EVIDENCE_DIR: used by tools/eval_*_wt.sh so that runs against patched scratch worktrees
    # do not overwrite the evidence of /repo itself
    edir = Path(os.environ.get('WNMC_EVIDENCE_DIR') or VERIF / 'evidence')
    edir.mkdir(exist_ok=True)
    (edir / f'{prop}.json').write_text(
        json.dumps(ev, indent=1, default=repr, ensure_ascii=False) + '\n')
    print(f'{prop} tier={tier} level={level} '
          + ' '.join(f'{k}={coverage[k]}' for k in
                     ('evaluations', 'distinct_nontrivial', 'states', 'transitions',
                      'exhaustive') if k in coverage)
          + f' violations={unknown} known_findings={len(kf)} wall={ev["wall_s"]}s')
    return rc


def run_space(prop, tier, seed, cases, check_fn, *, level='exploration', rule,
              assumptions=(), jobs=None, chunk=16, init=None, extra=None,
              exhaustive=True, samples=None, recheck=None):
    t0 = time.time()
    cases = list(cases) if not isinstance(cases, list) else cases
    agg = map_space(cases, check_fn, jobs=jobs, chunk=chunk, init=init)
    if samples is None:
        step = max(1, len(cases) // 4)
        samples = [cases[i] for i in range(0, len(cases), step)][:5]
    cov = {
        'evaluations': agg['n'],
        'distinct_nontrivial': len(agg['digs']),
        'nontrivial_cases': agg['nt'],
        'rule': rule,
        'samples': samples,
        'exhaustive': bool(exhaustive),
        '_vcount': agg['vcount'],
    }
    if extra:
        cov.update(extra)
    return report(prop, tier, seed, level, cov, agg['v'], t0,
                  assumptions=assumptions, recheck=recheck or check_fn)


def replay(prop, path, check_fn):
    data = json.loads(Path(path).read_text())
    res = check_fn(data['case'])
    vs = res.get('v', ())
    if vs:
        for v in vs:
            print(f'REPRODUCED property={prop} key={v[0]} :: {v[1]}')
        print(f'VIOLATION property={prop} replay={path}')
        return 1
    print(f'{prop}: replay {path} shows no violation on this tree')
    return 0
